/-
  C10 — a rule that has just fixed a file has nothing left to fix.
  Engine part (any rule semantics): the second `Rule.fix` is the identity exactly when the
  re-analysis offers no violation that passes the fix-only filter; `_fix_violation`s that
  return their tokens unchanged make a chain update the identity.
-/
import VsgModel.Engine.RuleRun
import VsgModel.Engine.Relations
import VsgProofs.Lemmas.SortByStart
import VsgProofs.Lemmas.BaseWsFull
import VsgProofs.Lemmas.BaseWsEffects
import VsgProofs.Lemmas.BaseCaseTok
import VsgProofs.Lemmas.BaseCaseAscii
import VsgProofs.Lemmas.BFull2Indent   -- wp2_bfull2
import VsgProofs.Lemmas.BFull2IndentVar   -- wp2b_indent
import VsgProofs.Lemmas.BFull2SelStable   -- wp2c_selstable
import VsgModel.Generated.BFull2Rules   -- wp2c_selstable
import VsgModel.Generated.ClassUids   -- wp2c_selstable
namespace Vsgm.C10
open Vsgm

theorem update_nil {α : Type} (f : List α) : update f [] = f := rfl

/-- if, after its own fix, a rule's analysis reports nothing (that the fix-only filter lets
    through), applying the fix again changes nothing and does not set had_violations -/
theorem second_fix_identity (r : RuleCfg) (sem : RuleSem) (fo : Option FixOnly) (f : List Tok)
    (h : filterFixOnly fo r.id (sem.analyze (ruleFix r sem fo f).1) = []) :
    ruleFix r sem fo (ruleFix r sem fo f).1 = ((ruleFix r sem fo f).1, false) := by
  generalize hg : (ruleFix r sem fo f).1 = g at h ⊢
  have h' := (Lemmas.filterFixOnly_sort_nil fo r.id (sem.analyze g)).mpr h
  by_cases hf : r.fixable = true
  · simp [ruleFix, hf, h', update]
  · have : r.fixable = false := by simpa using hf
    simp [ruleFix, this]

/-- violations the rule cannot repair: a `_fix_violation` that hands back the analysed slice
    unchanged leaves the file unchanged (chain of slice-exact violations) -/
theorem unrepairable_noop (f : List Tok) (es : List (Edit Tok)) (h : Chain f.length 0 es)
    (hp : ∀ e ∈ es, e.new = old f e) : update f es = f := by
  have := update_hom (fun l => l) (fun _ _ => rfl) f es h (by simpa using hp)
  simpa using this

/-- so: a second fix is the identity as soon as every violation found by the re-analysis is
    unrepairable in this sense -/
theorem second_fix_identity_of_unrepairable (r : RuleCfg) (sem : RuleSem) (fo : Option FixOnly) (f : List Tok)
    (g : List Tok) (_hg : g = (ruleFix r sem fo f).1)
    (hc : Chain g.length 0 ((filterFixOnly fo r.id (sortByStart (sem.analyze g))).map (editOf sem)))
    (hu : ∀ v ∈ filterFixOnly fo r.id (sortByStart (sem.analyze g)), (editOf sem v).new = old g (editOf sem v)) :
    (ruleFix r sem fo g).1 = g := by
  by_cases hf : r.fixable = true
  · simp only [ruleFix, hf, if_true]
    apply unrepairable_noop _ _ hc
    intro e he
    simp only [List.mem_map] at he
    obtain ⟨v, hv, rfl⟩ := he
    exact hu v hv
  · have : r.fixable = false := by simpa using hf
    simp [ruleFix, this]

/-- non-vacuity: a one-token case rule whose fix lower-cases `A`; after the fix the analysis is
    empty and the second fix is the identity -/
example :
    let A : Tok := ⟨7, .code, "A".toList⟩
    let a : Tok := ⟨7, .code, "a".toList⟩
    let sem : RuleSem := {
      analyze := fun f => (f.zipIdx.filter (fun p => p.1.val == "A".toList)).map (fun p => ⟨1, p.2, [p.1], 0⟩)
      fixV := fun _ => [a] }
    let r : RuleCfg := ⟨"x_001", 6, 1, false, true, true, false⟩
    (ruleFix r sem none [A, a, A]).1 = [a, a, a] ∧ sem.analyze (ruleFix r sem none [A, a, A]).1 = [] := by
  decide

/-! ### layer B-full: `_analyze` ∘ `_fix_violation` of whitespace_between_tokens (171 rules) — BEGIN ag_bws -/

/-- **idempotence**: if the analysis of a token list of interest records a violation and the fix returns,
    the analysis of the repaired tokens is clean — for every token list and every `number_of_spaces`
    admitted by `idemGuard` (no negative width; not `>N` / `<N` on a pair WITHOUT whitespace; `<N` only with
    N ≥ 1) and `shapeOk` (a two-token region is `[left, right]`, its second token is not whitespace) -/
theorem bfix_wsBetween_idem_partial (wsCls : Nat) (nos : Base.NoS) (l l' : List Tok) (sp : Base.Val)
    (ha : Base.WsBetween.analyzeToi nos l = .ok (.spaces sp))
    (hf : Base.WsBetween.fixV wsCls nos [("spaces", sp)] l = .ok l')
    (hs : Base.WsBetween.shapeOk l = true) (hg : Base.WsBetween.idemGuard nos l = true) :
    Base.WsBetween.analyzeToi nos l' = .ok .clean :=
  Base.WsBetween.analyze_fix_idem wsCls nos l l' sp ha hf hs hg

/-- … and so is the analysis of any re-extracted region that shows the same whitespace view (same first two
    tokens, "exactly two tokens" or not): what the next `analyze` sees after `vhdlFile.update` -/
theorem bfix_wsBetween_idem_reextracted (wsCls : Nat) (nos : Base.NoS) (l l' m : List Tok) (sp : Base.Val)
    (ha : Base.WsBetween.analyzeToi nos l = .ok (.spaces sp))
    (hf : Base.WsBetween.fixV wsCls nos [("spaces", sp)] l = .ok l')
    (hs : Base.WsBetween.shapeOk l = true) (hg : Base.WsBetween.idemGuard nos l = true)
    (hm : Base.WsBetween.wsAt m = Base.WsBetween.wsAt l') : Base.WsBetween.analyzeToi nos m = .ok .clean := by
  rw [Base.WsBetween.analyzeToi_of_view nos m l' hm]
  exact Base.WsBetween.analyze_fix_idem wsCls nos l l' sp ha hf hs hg

/-- the three functions of the rule parse `number_of_spaces` alike: the transcription equals the parsed-form view -/
theorem wsBetween_judge_eq_form (nos : Base.NoS) (w : Option Nat) :
    Base.WsBetween.judge nos w = Base.WsBetween.judgeF (Base.WsBetween.formOf nos) w :=
  Base.WsBetween.judge_eq nos w

/-- **the exact cause of the known finding (`secondFixChanges` at whitespace_between_tokens.Rule)**, for
    every N ≥ 0: with `number_of_spaces: ">N"` and no whitespace between the pair
    `extract_expected_number_of_spaces` answers N (`int(self.number_of_spaces[1:])`), the fix inserts N
    blanks, and `analyze_gt_spaces` (`int(…[1:]) + 1`) reports that whitespace again, asking for N + 1 -/
theorem wsBetween_gt_oscillates (k : Int) (hk : 0 ≤ k) :
    Base.WsBetween.judgeF (.gt (.ok k)) none = .ok (.spaces (.int k)) ∧
    Base.WsBetween.judgeF (.gt (.ok k)) (some k.toNat) = .ok (.spaces (.int (k + 1))) :=
  Base.WsBetween.judgeF_gt_oscillates k hk

/-- the same for `"<N"` (every N): N blanks inserted, then N − 1 demanded -/
theorem wsBetween_lt_oscillates (k : Int) :
    Base.WsBetween.judgeF (.lt (.ok k)) none = .ok (.spaces (.int k)) ∧
    Base.WsBetween.judgeF (.lt (.ok k)) (some k.toNat) = .ok (.spaces (.int (k - 1))) :=
  Base.WsBetween.judgeF_lt_oscillates k

/-- on tokens: `signal a: bit` under `number_of_spaces: ">1"` — first fix one blank, second analysis wants two;
    the first fix of `"<1"` inserts a blank that the second analysis wants removed (endless on re-parsed text) -/
theorem wsBetween_oscillation_witness :
    let a : Tok := ⟨9, .code, "a".toList⟩
    let c : Tok := ⟨9, .code, ":".toList⟩
    let w : Tok := ⟨Gen.wsCls, .ws, " ".toList⟩
    Base.WsBetween.analyzeToi (.str ">1".toList) [a, c] = .ok (.spaces (.int 1)) ∧
    Base.WsBetween.fixV Gen.wsCls (.str ">1".toList) [("spaces", .int 1)] [a, c] = .ok [a, w, c] ∧
    Base.WsBetween.analyzeToi (.str ">1".toList) [a, w, c] = .ok (.spaces (.int 2)) ∧
    Base.WsBetween.analyzeToi (.str "<1".toList) [a, c] = .ok (.spaces (.int 1)) ∧
    Base.WsBetween.analyzeToi (.str "<1".toList) [a, w, c] = .ok (.spaces (.int 0)) := by
  intro a c w
  exact ⟨rfl, rfl, rfl, rfl, rfl⟩

/-- `"<=N"`, `">=N"`, `"N+"` and plain integers N ≥ 0 are admitted by the guard whatever the region looks like -/
example : ∀ l, Base.WsBetween.idemGuard (.str "<=2".toList) l = true := by intro l; rfl
example : ∀ l, Base.WsBetween.idemGuard (.str ">=1".toList) l = true := by intro l; rfl
example : ∀ l, Base.WsBetween.idemGuard (.int 1) l = true := by intro l; rfl

/-- non-vacuity of `bfix_wsBetween_idem_partial`: three blanks under `number_of_spaces: 1` -/
example :
    let a : Tok := ⟨9, .code, "a".toList⟩
    let c : Tok := ⟨9, .code, ":".toList⟩
    let l : List Tok := [a, ⟨Gen.wsCls, .ws, "   ".toList⟩, c]
    Base.WsBetween.analyzeToi (.int 1) l = .ok (.spaces (.int 1)) ∧
    Base.WsBetween.fixV Gen.wsCls (.int 1) [("spaces", .int 1)] l = .ok [a, ⟨Gen.wsCls, .ws, " ".toList⟩, c] ∧
    Base.WsBetween.shapeOk l = true ∧ Base.WsBetween.idemGuard (.int 1) l = true := by
  intro a c l
  exact ⟨rfl, rfl, rfl, rfl⟩

/-! END ag_bws -/

/-! ### BEGIN ag_bcase (case family, B-full) -/
/-! ### layer B, the case family: the analysis of a fixed region asks for nothing more -/

section caseFamily
open Base Base.Case

/-- `token_case` (243 rules), every style, every prefix / suffix / whole-word exception list without
    duplicate-by-case entries: after the fix the analysis of the same region
      * reports NOTHING for `lower` and `upper`,
      * reports what it reported (value None) for `upper_or_lower`, and the fix does nothing,
      * reports the value that is already there for the pattern styles (camelCase … regex),
    so a second fix is the identity in every case. -/
theorem bfull_case_idem {E : Case.Env} {fold : Str → Str} {lc uc fc : Char → Char}
    (T : CharWiseIdem E fold lc uc fc) (owner : String) (ho : owner ∈ Base.caseTokenOwners)
    (params : Base.KV) (p : Params) (old new : List Tok) (a : Action)
    (hnd : NoCaseDup E p.exceptions)
    (ha : TokenCase.analyzeToi E p old = .ok (some a))
    (hf : Base.fixByOwner owner params (Base.caseActionKV a) old = some (.ok new)) :
    ∃ o, TokenCase.analyzeToi E p new = .ok o ∧
      ((p.style = .lower ∨ p.style = .upper) → o = none) ∧
      ∀ a', o = some a' → Base.fixByOwner owner params (Base.caseActionKV a') new = some (.ok new) := by
  rw [Base.fixByOwner_tokenCase owner ho] at hf
  simp only [Option.some.injEq] at hf
  obtain ⟨o, h1, h2, h3⟩ := TokenCase.analyze_fix_idem T p old new a hnd ha hf
  refine ⟨o, h1, h2, fun a' ha' => ?_⟩
  rw [Base.fixByOwner_tokenCase owner ho, h3 a' ha']

/-- `upper_or_lower` is unrepairable: the analysis records the value None and `_fix_violation`
    returns the region unchanged (the violation stays, the file does not change) -/
theorem bfull_case_upper_or_lower_unrepairable {E : Case.Env} {fold : Str → Str} {lc uc fc : Char → Char}
    (T : CharWise E fold lc uc fc) (owner : String) (ho : owner ∈ Base.caseTokenOwners)
    (params : Base.KV) (p : Params) (old : List Tok) (a : Action)
    (hst : p.style = .upperOrLower) (hx : ∀ t, old[0]? = some t → p.exceptions.contains t.val = false)
    (ha : TokenCase.analyzeToi E p old = .ok (some a)) :
    a.value = none ∧ Base.fixByOwner owner params (Base.caseActionKV a) old = some (.ok old) := by
  obtain ⟨t, ht, hc⟩ := TokenCase.analyze_get ha
  have hv := check_upperOrLower T hst (hx t ht) hc
  refine ⟨hv, ?_⟩
  rw [Base.fixByOwner_tokenCase owner ho]
  unfold TokenCase.fixV
  simp [hv]

/-- EXCLUDED CASE of `bfull_case_idem` (hypothesis `NoCaseDup`), proved on the model: with
    `case_exceptions: [Abc, abc]` the value `ABC` is first lower-cased to `abc`, which the second
    analysis finds in the list at the position of `Abc` and asks to change again -/
theorem bfull_case_idem_dup_witness :
    ∃ (p : Params) (old new : List Tok) (a a' : Action),
      TokenCase.analyzeToi (asciiEnv fun _ _ => false) p old = .ok (some a) ∧
      TokenCase.fixV a old = .ok new ∧
      TokenCase.analyzeToi (asciiEnv fun _ _ => false) p new = .ok (some a') ∧
      TokenCase.fixV a' new ≠ .ok new :=
  ⟨{ name := ['s'], style := .lower, prefixes := [], suffixes := [], exceptions := [['A','b','c'], ['a','b','c']] },
    [⟨0, .code, ['A','B','C']⟩], [⟨0, .code, ['a','b','c']⟩],
    { value := some ['a','b','c'], index := 0 }, { value := some ['A','b','c'], index := 0 },
    by decide +kernel, by decide +kernel, by decide +kernel, by decide +kernel⟩

/-- the three `consistent_*` owners: the spelling the analysis chooses is a fixed point of the
    choice — the token asks for nothing once it has it -/
theorem bfull_case_consistent_idem (E : Case.Env) (ids : List Str) (v e : Str) :
    (Consistent.expectedFirst E ids v = some e → Consistent.expectedFirst E ids e = none) ∧
    (Consistent.expectedMap E ids v = .ok (some e) → Consistent.expectedMap E ids e = .ok none) :=
  ⟨Consistent.expectedFirst_idem, Consistent.expectedMap_idem⟩

/-- the hypotheses of `bfull_case_idem` are satisfiable (ASCII tables) -/
example (fm : String → Str → Bool) : CharWiseIdem (asciiEnv fm) asciiLowerS asciiLowerC asciiUpperC asciiLowerC :=
  ascii_charWiseIdem fm

end caseFamily

/-! ### END ag_bcase -/

/-! ### BEGIN wp2_bfull2 (indent family: the WHOLE rule — extractor + analysis + fix — inside the model) -/

section wp2_bfull2
open BFull2

/-- what `Rule.fix` computes for a fixable rule without `--fix_only` is `fixAll` -/
theorem bfull2_ruleFix_eq (r : RuleCfg) (uid : Tok → Option TM.Key) (P : Params) (ind : Oracle) (f : List Tok)
    (hf : r.fixable = true) : (ruleFix r (sem uid P ind) none f).1 = fixAll uid P ind f := by
  simp [ruleFix, hf, filterFixOnly, fixAll]

/-- **whole-rule idempotence of `token_indent` (93 rules)**: for EVERY token list without pseudo tokens, every
    assignment of indent levels to the tokens (`none` = Python `None`, negative levels included), every
    `indent_size`, both documented `indent_style`s and every `lTokens` admitted by `CsOk` (all 93 rules:
    `C18.bfull2_indentRule_csOk`), the rule's analysis of the file its own fix produced is EMPTY.  No contract
    hypothesis: extractor, `_analyze`, `_fix_violation`, position sort and `vhdlFile.update` are all the model's. -/
theorem bfull2_indent_idem (r : RuleCfg) (uid : Tok → Option TM.Key) (P : Params) (ind : Oracle) (f : List Tok)
    (hf : r.fixable = true) (hv : P.variant = .plain) (hcs : CsOk P.cs) (hs : StyleOk P) (hu : UidOk uid P)
    (hb : ∀ t ∈ f, t.isBof = false) :
    (sem uid P ind).analyze (ruleFix r (sem uid P ind) none f).1 = [] := by
  rw [bfull2_ruleFix_eq r uid P ind f hf]
  exact analyze_fixAll uid P ind hv hcs hs hu f hb

/-- … hence the second `Rule.fix` is the identity and does not set `had_violations` (engine theorem
    `second_fix_identity` with its hypothesis discharged) -/
theorem bfull2_indent_second_fix (r : RuleCfg) (uid : Tok → Option TM.Key) (P : Params) (ind : Oracle) (f : List Tok)
    (hf : r.fixable = true) (hv : P.variant = .plain) (hcs : CsOk P.cs) (hs : StyleOk P) (hu : UidOk uid P)
    (hb : ∀ t ∈ f, t.isBof = false) :
    ruleFix r (sem uid P ind) none (ruleFix r (sem uid P ind) none f).1 = ((ruleFix r (sem uid P ind) none f).1, false) := by
  apply second_fix_identity
  simp only [filterFixOnly]
  exact bfull2_indent_idem r uid P ind f hf hv hcs hs hu hb

/-- region level, every style string: after `remove_whitespace` / `adjust_whitespace` / `add_whitespace` the
    re-extracted region is judged clean — `[token]` at level 0, `[indent, token]` otherwise (the style guard is
    needed for `adjust`: under any other style string `_fix_violation` does nothing and the violation stays) -/
theorem bfull2_indent_region_idem (P : Params) (hs : StyleOk P) (w x : Tok) (lvl : Int) :
    judge P.style P.size (fun _ => some 0) [x] = none ∧
    (lvl ≠ 0 → judge P.style P.size (fun _ => some lvl) [{ w with val := wsVal P lvl }, x] = none) := by
  constructor
  · unfold judge; simp
  · intro hl
    unfold judge
    have h0 : (lvl == 0) = false := by simpa using hl
    simp [h0, wsVal_expected]

/-- non-vacuity: `a⏎ signal` with level 1 for `signal` — one violation (`adjust_whitespace`), repaired to two blanks,
    and nothing left -/
example :
    let f : List Tok := [⟨9, .code, "a".toList⟩, ⟨1, .cr, []⟩, ⟨2, .ws, " ".toList⟩, ⟨3, .code, "signal".toList⟩]
    let ind : Oracle := fun _ => some 1
    ((sem toyUid toyP ind).analyze f).length = 1 ∧
    fixAll toyUid toyP ind f = [⟨9, .code, "a".toList⟩, ⟨1, .cr, []⟩, ⟨2, .ws, "  ".toList⟩, ⟨3, .code, "signal".toList⟩] ∧
    (sem toyUid toyP ind).analyze (fixAll toyUid toyP ind f) = [] := by
  decide +kernel

example : StyleOk toyP := Or.inl rfl
example : UidOk toyUid toyP := ⟨fun t t' h => by unfold toyUid; rw [h], fun t h => by unfold toyUid toyP at *; simp at h; simp [h]⟩

end wp2_bfull2

/-! ### END wp2_bfull2 -/


/-! ### BEGIN wp2b_indent (the between / between-unless / unless variants of token_indent, 9 rules) -/

section wp2b_indent
open BFull2

/-- a variant is the plain rule with the indent oracle MASKED by the variant's selection of candidates: a candidate
    the extractor filters out behaves exactly like one whose level is `None` -/
theorem bfull2_indent_variant_is_masked_plain (uid : Tok → Option TM.Key) (P : Params) (ind : Oracle)
    (hcs : CsOk P.cs) (hs : StyleOk P) (f : List Tok) :
    (sem uid P ind).analyze f = (sem uid { P with variant := .plain } (maskO (selOrd uid P f) ind)).analyze f ∧
    fixAll uid P ind f = fixAll uid { P with variant := .plain } (maskO (selOrd uid P f) ind) f :=
  ⟨analyze_variant_mask uid P ind hcs hs f, fixAll_variant_mask uid P ind hcs hs f⟩

/-- **whole-rule idempotence, all four extractors (102 rules)** — `_partial`: under `SelStable`, i.e. the
    between / unless selection of every candidate (keyed by its ordinal among the non-whitespace tokens) is the same in
    the fixed file.  For the plain extractor `SelStable` is void (`bfull2_indent_idem`).  For the variants it is what
    remains open: the start / end pairing of `token_map.get_token_pair_indexes` depends only on the ORDER of the
    non-whitespace tokens, which the fix keeps (`C03.bfull2_indent_layoutOnly_variants`); the real second analysis was
    empty on every explored (rule, file, option, indent assignment). -/
theorem bfull2_indent_idem_variants_partial (r : RuleCfg) (uid : Tok → Option TM.Key) (P : Params) (ind : Oracle) (f : List Tok)
    (hf : r.fixable = true) (hcs : CsOk P.cs) (hs : StyleOk P) (hu : UidOk uid P) (hb : ∀ t ∈ f, t.isBof = false)
    (hst : SelStable uid P ind f) :
    (sem uid P ind).analyze (ruleFix r (sem uid P ind) none f).1 = [] := by
  rw [bfull2_ruleFix_eq r uid P ind f hf]
  exact analyze_fixAll_variant uid P ind hcs hs hu f hb hst

/-- non-vacuity (a `between` rule, tokens of class 4 / 5 delimit the region): a candidate inside the pair is
    repaired and nothing is left; a candidate outside the pair is left alone although the plain rule would report it -/
example :
    let uid : Tok → Option TM.Key := fun t =>
      if t.cls = 1 then some TM.crKey else if t.cls = 2 then some TM.wsKey else if t.cls = 3 then some ("x", "sig")
      else if t.cls = 4 then some ("x", "open") else if t.cls = 5 then some ("x", "close") else none
    let P : Params := { cs := [{ uid := some ("x", "sig"), idx := 3 }], style := Base.Indent.sSpaces, size := 2, wsCls := 2,
                        variant := .between { uid := some ("x", "open"), idx := 4 } { uid := some ("x", "close"), idx := 5 } false }
    let ind : Oracle := fun _ => some 1
    let cr : Tok := ⟨1, .cr, []⟩
    let o : Tok := ⟨4, .code, "(".toList⟩
    let c : Tok := ⟨5, .code, ")".toList⟩
    let s : Tok := ⟨3, .code, "s".toList⟩
    let f : List Tok := [o, cr, s, cr, c, cr]
    let g : List Tok := [o, cr, c, cr, s, cr]
    ((sem uid P ind).analyze f).map (·.start) = [2] ∧
    fixAll uid P ind f = [o, cr, ⟨2, .ws, "  ".toList⟩, s, cr, c, cr] ∧
    (sem uid P ind).analyze (fixAll uid P ind f) = [] ∧
    (sem uid P ind).analyze g = [] ∧ (sem uid { P with variant := .plain } ind).analyze g ≠ [] := by
  decide +kernel

end wp2b_indent

/-! ### END wp2b_indent -/


/-! ### BEGIN wp2c_selstable (token_indent: whole-rule idempotence for ALL 102 rules, no stability hypothesis) -/

section wp2c_selstable
open BFull2 TM TM.Lemmas

/-- **`token_map.extract_start_end_indexes` only depends on the order of the positions**: it commutes with every
    strictly monotone renaming (end positions listed ascending, as every list of the token map is) -/
theorem bfull2_pairing_order_equivariant {φ : Nat → Nat} (hφ : SMono φ) (ss es : List Nat) (hs : es.Pairwise (· ≤ ·)) :
    startEndIndexes (ss.map φ) (es.map φ) = ((startEndIndexes ss es).1.map φ, (startEndIndexes ss es).2.map φ) :=
  startEndIndexes_map hφ ss es hs

/-- the between / unless selection of a candidate is a function of the file WITHOUT its whitespace tokens (`emb` =
    position in the file of the o-th non-whitespace token) -/
theorem bfull2_indent_selection_ignores_whitespace (uid : Tok → Option Key) (P : Params) (hP : VarOk P) (h : List Tok) (o : Nat) :
    posSel P (processTokens uid h) (emb uid h o) = posSel P (processTokens uid (nonws uid h)) o :=
  posSel_emb uid P hP h o

/-- the fix keeps the sequence of non-whitespace tokens, hence the selection: `SelStable` is a theorem -/
theorem bfull2_indent_selStable (uid : Tok → Option Key) (P : Params) (ind : Oracle) (hcs : CsOk P.cs) (hs : StyleOk P)
    (hu : UidOk uid P) (hP : VarOk P) (f : List Tok) (hb : ∀ t ∈ f, t.isBof = false) : SelStable uid P ind f :=
  selStable uid P ind hcs hs hu hP f hb

/-- **whole-rule idempotence of token_indent, all four extractors (102 rules)**: every token list without pseudo tokens,
    every indent assignment, size, both documented styles; `CsOk` on `lTokens`, `VarOk` on the keys of the between /
    unless pairs (absent or plain non-whitespace keys; both are table facts for every rule) -/
theorem bfull2_indent_idem_all (r : RuleCfg) (uid : Tok → Option Key) (P : Params) (ind : Oracle) (f : List Tok)
    (hf : r.fixable = true) (hcs : CsOk P.cs) (hs : StyleOk P) (hu : UidOk uid P) (hP : VarOk P)
    (hb : ∀ t ∈ f, t.isBof = false) :
    (sem uid P ind).analyze (ruleFix r (sem uid P ind) none f).1 = [] := by
  rw [bfull2_ruleFix_eq r uid P ind f hf]
  exact analyze_fixAll_all uid P ind hcs hs hu hP f hb

/-- … and the second `Rule.fix` is the identity -/
theorem bfull2_indent_second_fix_all (r : RuleCfg) (uid : Tok → Option Key) (P : Params) (ind : Oracle) (f : List Tok)
    (hf : r.fixable = true) (hcs : CsOk P.cs) (hs : StyleOk P) (hu : UidOk uid P) (hP : VarOk P)
    (hb : ∀ t ∈ f, t.isBof = false) :
    ruleFix r (sem uid P ind) none (ruleFix r (sem uid P ind) none f).1 = ((ruleFix r (sem uid P ind) none f).1, false) := by
  apply second_fix_identity
  simp only [filterFixOnly]
  exact bfull2_indent_idem_all r uid P ind f hf hcs hs hu hP hb

/-- executable form of `KeyOk` / `VarOk` for the generated rows -/
def keyOkB (u : Option Key) : Bool :=
  match u with
  | none => true
  | some k => decide (k ≠ (kLogical, kLogical)) && decide (k ≠ commaKey) && decide (k ≠ openParenKey) && decide (k ≠ wsKey)

theorem keyOkB_sound (u : Option Key) (h : keyOkB u = true) : KeyOk u := by
  intro k hk
  subst hk
  simp only [keyOkB, Bool.and_eq_true, decide_eq_true_eq] at h
  exact ⟨⟨h.1.1.1, h.1.1.2, h.1.2⟩, h.2⟩

/-- **table fact, all 102 indent rules**: every key of a between / unless pair is a plain non-whitespace key -/
theorem bfull2_indentRule_varOk :
    ∀ r ∈ Gen.indentRuleTable,
      keyOkB (Gen.classUidList.getD r.a none) = true ∧ keyOkB (Gen.classUidList.getD r.b none) = true ∧
      r.unl.all (fun p => keyOkB (Gen.classUidList.getD p.1 none) && keyOkB (Gen.classUidList.getD p.2 none)) = true := by
  decide +kernel

/-- non-vacuity of `VarOk` (the `between` instance of the example above) -/
def toyBetween : Params :=
  { cs := [], style := [], size := 2, wsCls := 2,
    variant := Variant.between ⟨some ("x", "open"), 4⟩ ⟨some ("x", "close"), 5⟩ false }

example : VarOk toyBetween := ⟨keyOkB_sound _ (by decide), keyOkB_sound _ (by decide)⟩

end wp2c_selstable

/-! ### END wp2c_selstable -/


end Vsgm.C10
