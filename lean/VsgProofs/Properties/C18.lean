/-
  C18 — the token index and every rule's region of interest mirror the token list.
  ONLY property theorems and their non-vacuity examples live here.
-/
import VsgModel.Engine.TokenMap
import VsgModel.Engine.Extract
import VsgModel.Engine.Splice
import VsgModel.Wire
import VsgModel.Generated.Rules
import VsgModel.Generated.ClassUids
import VsgProofs.Lemmas.TokenMap
import VsgModel.Engine.Extract2      -- WP3
import VsgProofs.Lemmas.Extract2Thms  -- WP3
import VsgProofs.Lemmas.Extract2Ie    -- WP3
import VsgProofs.Lemmas.Extract3Thms  -- WP3
import VsgProofs.Lemmas.Extract3If    -- WP3
import VsgProofs.Lemmas.Extract4Thms  -- WP3
import VsgProofs.Lemmas.Extract5Thms  -- WP3
import VsgProofs.Lemmas.Extract6Thms  -- WP3b
import VsgProofs.Lemmas.Extract6Col   -- WP3b
import VsgProofs.Lemmas.Extract7Thms  -- WP3b
import VsgProofs.Lemmas.Extract8Thms  -- WP3b
import VsgProofs.Lemmas.Extract9Line   -- WP3b
import VsgProofs.Lemmas.Extract9Above  -- WP3b
import VsgProofs.Lemmas.Extract9Ie     -- WP3b
import VsgProofs.Properties.C07
import VsgProofs.Lemmas.BFull2Extract   -- wp2_bfull2
import VsgProofs.Lemmas.BFull2Indent   -- wp2_bfull2
import VsgModel.Generated.BFull2Rules   -- wp2_bfull2
namespace Vsgm.C18
open Vsgm Vsgm.TM Vsgm.TM.Lemmas

variable {α : Type}

/-! ### the index -/

/-- **`process_tokens` against its specification.**  For every key the stored list is
    `specFrom` — position `i` once per way token `i` hits the key, in ascending order; the key is
    absent (`KeyError`) exactly when no token hits it; the positions are exactly those of the
    tokens that hit the key; `iMaxToken` is the length of the list -/
theorem processTokens_spec (uid : α → Option Key) (f : List α) (k : Key) :
    (processTokens uid f).dmap.get k = specFrom k 0 (f.map uid) ∧
    (processTokens uid f).dmap.find k =
      (if specFrom k 0 (f.map uid) = [] then none else some (specFrom k 0 (f.map uid))) ∧
    (∀ j, j ∈ (processTokens uid f).dmap.get k ↔ ∃ t, f[j]? = some t ∧ Hits k (uid t)) ∧
    ((processTokens uid f).dmap.get k).Pairwise (· ≤ ·) ∧
    (processTokens uid f).maxTok = f.length := by
  refine ⟨processTokens_get uid f k, processTokens_find uid f k, ?_, ?_, rfl⟩
  · intro j
    rw [processTokens_get, mem_specFrom]
    constructor
    · rintro ⟨n, u, rfl, hn, hc⟩
      rw [List.getElem?_map] at hn
      cases hf : f[n]? with
      | none => simp [hf] at hn
      | some t =>
        simp [hf] at hn; subst hn
        exact ⟨t, by simpa using hf, (contrib_pos_iff k _).mp hc⟩
    · rintro ⟨t, ht, hh⟩
      exact ⟨j, uid t, by omega, by simp [List.getElem?_map, ht], (contrib_pos_iff k _).mpr hh⟩
  · rw [processTokens_get]; exact specFrom_sorted k _ 0

/-- the lists are strictly increasing — no position twice — unless a token's own id is the alias
    key `(logical_operator, logical_operator)` -/
theorem processTokens_strict (uid : α → Option Key) (f : List α) (k : Key)
    (h : ∀ t ∈ f, uid t ≠ some (kLogical, kLogical)) :
    ((processTokens uid f).dmap.get k).Pairwise (· < ·) := by
  rw [processTokens_get]
  apply specFrom_strict
  intro u hu
  obtain ⟨t, ht, rfl⟩ := List.mem_map.mp hu
  exact contrib_le_one k _ (h t ht)

/-- … and that exception is real for the model of the code as written: the alias append for
    `logical_operator` has no `if iToken not in …` guard, so a token of the base class
    `token.logical_operator.logical_operator` is listed twice.  (The classifier only creates the
    subclasses `and_operator` …, so no parsed file contains such a token.) -/
theorem processTokens_duplicate_witness :
    (processTokens (fun (u : Option Key) => u) [some (kLogical, kLogical)]).dmap.get (kLogical, kLogical) = [0, 0] := by
  decide +kernel

/-- keys no alias feeds (carriage returns, whitespace, comments, every keyword …) hold exactly
    the positions of the tokens with that id -/
theorem processTokens_plain (uid : α → Option Key) (f : List α) (k : Key) (hk : Plain k) (j : Nat) :
    j ∈ (processTokens uid f).dmap.get k ↔ ∃ t, f[j]? = some t ∧ uid t = some k := by
  rw [(processTokens_spec uid f k).2.2.1 j]
  constructor
  · rintro ⟨t, ht, hh⟩
    refine ⟨t, ht, ?_⟩
    have := (contrib_pos_iff k (uid t)).mpr hh
    rw [contrib_plain k hk] at this
    by_cases e : uid t = some k
    · exact e
    · simp [e] at this
  · rintro ⟨t, ht, hu⟩
    exact ⟨t, ht, by unfold Hits; obtain ⟨b, s⟩ := k; exact ⟨b, s, hu, Or.inl rfl⟩⟩

/-- the index depends on the token list only through the ids: it equals its own recomputation
    from any list with the same ids at the same positions -/
theorem valueOnly_keeps_index (uid : α → Option Key) (a b : List α) (h : a.map uid = b.map uid) :
    processTokens uid a = processTokens uid b := by
  have hl : a.length = b.length := by simpa using congrArg List.length h
  unfold processTokens
  rw [h, hl]

/-! ### `bisect` and line numbers -/

/-- `bisect_left` over the carriage-return list of a fresh index counts the carriage returns
    before the position: `get_line_number_of_index i = 1 + #{CR positions < i}` -/
theorem bisectLeft_eq_countLt (uid : α → Option Key) (f : List α) (i : Nat) :
    bisectLeft ((processTokens uid f).dmap.get crKey) (i : Int) =
      ((f.take i).filter (fun t => decide (uid t = some crKey))).length := by
  rw [processTokens_get]
  have := bisectLeft_specFrom crKey plain_cr (f.map uid) 0 i
  rw [Nat.zero_add] at this
  rw [this]
  unfold countKey
  rw [← List.map_take, List.filter_map, List.length_map]
  rfl

/-- whenever `get_line_number_of_index` returns (it raises `KeyError` on a file without any line
    break), it returns one plus the number of carriage returns before the position; a negative
    position is on line 1 -/
theorem lineOf_fresh_eq (uid : α → Option Key) (f : List α) (i : Int) (n : Nat)
    (h : (processTokens uid f).lineOf i = .ok n) : n = lineNo uid f i.toNat :=
  lineOf_fresh uid f i n h

/-- the id of a classified token: the docstring `unique_id` of its class (generated table) -/
def tokUid (t : Tok) : Option Key := Gen.classUids.getD t.cls none

/-- table fact (generated class table, row by row): a class is of kind `cr` exactly when its
    id is `(parser, carriage_return)`; the two columns have the same length -/
theorem crClass_table :
    (List.zipWith (fun (kc : Nat) (u : Option (String × String)) => (Kind.ofCode kc == Kind.cr) == (u == some crKey))
      Gen.classKinds.toList Gen.classUidList).all id = true ∧
    Gen.classKinds.toList.length = Gen.classUidList.length := by
  decide +kernel

/-- … hence for every class number (out-of-table numbers are neither) -/
theorem crClass (c : Nat) : (Wire.kindOfCls c == Kind.cr) = (Gen.classUids.getD c none == some crKey) := by
  have := zipWith_all_getD _ _ _ 0 none crClass_table.2 crClass_table.1 (by decide) c
  simp only [beq_iff_eq] at this
  unfold Wire.kindOfCls Gen.classUids
  have e1 : ∀ (a : Array Nat), a.getD c 0 = a.toList.getD c 0 := by
    intro a; simp only [Array.getD, List.getD]; split <;> simp_all
  have e2 : ∀ (l : List (Option (String × String))), l.toArray.getD c none = l.getD c none := by
    intro l; simp only [Array.getD, List.getD, List.size_toArray]; split <;> simp_all
  rw [e1, e2]; exact this

/-- agreement with `lineOfIndex` of C07: on tokens whose kind was read from the class table the
    line number of the index is the line number C07 reasons with -/
theorem lineNo_eq_lineOfIndex (f : List Tok) (hk : ∀ t ∈ f, t.kind = Wire.kindOfCls t.cls) (i : Nat) :
    lineNo tokUid f i = C07.lineOfIndex f i := by
  unfold lineNo C07.lineOfIndex countKey
  congr 1
  have hk' : ∀ t ∈ f.take i, t.kind = Wire.kindOfCls t.cls :=
    fun t ht => hk t (List.mem_of_mem_take ht)
  rw [← List.map_take]
  generalize f.take i = l at hk'
  induction l with
  | nil => simp [crSeq]
  | cons t l ih =>
    have h1 := hk' t (List.mem_cons_self ..)
    have h2 := crClass t.cls
    have h3 : t.isCr = decide (tokUid t = some crKey) := by
      unfold Tok.isCr tokUid
      rw [h1, h2]
      generalize Gen.classUids.getD t.cls none = u
      by_cases e : u = some crKey <;> simp [e]
    have := ih (fun t' ht' => hk' t' (List.mem_cons_of_mem _ ht'))
    simp only [List.map_cons, List.filter_cons, crSeq, List.flatMap_cons, List.length_append]
    simp only [crSeq] at this
    rw [← this, h3]
    by_cases e : tokUid t = some crKey <;> simp [e] <;> omega

/-! ### `update` and the `remap` switch -/

/-- with `bUpdateMap` the index after an update is the index of the new list -/
theorem update_remap_fresh (V : View α) (st : FileState α) (es : List (Edit α))
    (h : st.Fresh V ∨ es ≠ []) : (st.update V es true).Fresh V := by
  cases es with
  | nil =>
    rcases h with h | h
    · simpa [FileState.update] using h
    · exact absurd rfl h
  | cons e es => simp [FileState.update, FileState.Fresh]

/-- without it the OLD index stays — fresh again exactly because nothing the index reads moved -/
theorem update_noRemap_valueOnly_fresh (V : View α) (st : FileState α) (es : List (Edit α))
    (hf : st.Fresh V) (hv : (st.update V es false).toks.map V.uid = st.toks.map V.uid) :
    (st.update V es false).Fresh V := by
  unfold FileState.Fresh at hf ⊢
  have hi : (st.update V es false).index = st.index := by
    unfold FileState.update; split <;> simp
  rw [hi, hf]
  exact (valueOnly_keeps_index V.uid _ _ hv).symm

/-- value-only edits (each replacement has the ids of the slice it overwrites, position by
    position — what `set_value` on the analysed tokens does) keep the ids of the whole list -/
theorem valueOnly_edits_keep_ids (uid : α → Option Key) (f : List α) (es : List (Edit α))
    (hc : Chain f.length 0 es) (hv : ∀ e ∈ es, e.new.map uid = (old f e).map uid) :
    (Vsgm.update f es).map uid = f.map uid :=
  update_hom (List.map uid) (fun _ _ => List.map_append) f es hc hv

/-- the owners of `_fix_violation` among the rules that switch re-indexing off: all five only
    call `set_value` on a token of the region and hand the same list back -/
def valueOnlyOwners : List String :=
  ["vsg.rules.token_case.token_case",
   "vsg.rules.consistent_token_case.consistent_token_case",
   "vsg.rules.consistent_interface_token_case.consistent_interface_token_case",
   "vsg.rules.consistent_subprogram_parameter_token_case.consistent_subprogram_parameter_token_case",
   "vsg.rules.token_case_formal_part_of_association_element_in_map_between_tokens.token_case_formal_part_of_association_element_in_map_between_tokens"]

/-- table fact: every rule with `remap = False` is unfixable or its `_fix_violation` is one of
    the value-only ones; and such rules run in the last two phases -/
theorem remapFalse_valueOnly : ∀ r ∈ Gen.ruleTable, r.remap = false →
    (r.fixable = false ∨ r.fixVOwner ∈ valueOnlyOwners) ∧ (r.phase = 6 ∨ r.phase = 7) := by
  decide +kernel

/-! ### regions of interest are slices -/

/-- **get_tokens_matching**: every region is the one-token slice at its start and carries the
    line of that token (stale index or not — the token is read at the recorded position) -/
theorem tokensMatching_sliceExact (f : List α) (ix : Index) (cs : List Cls) (r : List (Toi α))
    (h : tokensMatching f ix cs = .ok r) : ∀ t ∈ r, t.Exact f := by
  intro t ht
  obtain ⟨i, _, x, hs, _, hx, htk⟩ := singles_spec f ix _ r h t ht
  exact exact_of_single f t i x hs hx htk

theorem tokensMatching_line (uid : α → Option Key) (f : List α) (cs : List Cls) (r : List (Toi α))
    (h : tokensMatching f (processTokens uid f) cs = .ok r) :
    ∀ t ∈ r, ∃ s : Nat, t.start = some (s : Int) ∧ t.line = lineNo uid f s := by
  intro t ht
  obtain ⟨i, _, x, hs, hl, _, _⟩ := singles_spec f _ _ r h t ht
  exact ⟨i, hs, by simpa using lineOf_fresh uid f i t.line hl⟩

/-- **get_n_token_after_tokens** and **get_tokens_matching_in_range_bounded_by_tokens** end in
    the same loop -/
theorem nTokenAfterTokens_sliceExact (f : List α) (ix : Index) (n : Nat) (cs : List Cls) (r : List (Toi α))
    (h : nTokenAfterTokens f ix n cs = .ok r) : ∀ t ∈ r, t.Exact f := by
  intro t ht
  unfold nTokenAfterTokens at h
  simp only [bind_ok] at h
  obtain ⟨raw, _, h⟩ := h
  obtain ⟨i, _, x, hs, _, hx, htk⟩ := singles_spec f ix _ r h t ht
  exact exact_of_single f t i x hs hx htk

theorem matchingInRange_sliceExact (f : List α) (ix : Index) (cs : List Cls) (a b : Option Key) (r : List (Toi α))
    (h : matchingInRange f ix cs a b = .ok r) : ∀ t ∈ r, t.Exact f := by
  intro t ht
  unfold matchingInRange at h
  obtain ⟨i, _, x, hs, _, hx, htk⟩ := singles_spec f ix _ r h t ht
  exact exact_of_single f t i x hs hx htk

/-- with a fresh index both record the line of the single token they return -/
theorem nTokenAfterTokens_line (uid : α → Option Key) (f : List α) (n : Nat) (cs : List Cls) (r : List (Toi α))
    (h : nTokenAfterTokens f (processTokens uid f) n cs = .ok r) :
    ∀ t ∈ r, ∃ s : Nat, t.start = some (s : Int) ∧ t.line = lineNo uid f s := by
  intro t ht
  unfold nTokenAfterTokens at h
  simp only [bind_ok] at h
  obtain ⟨raw, _, h⟩ := h
  obtain ⟨i, _, x, hs, hl, _, _⟩ := singles_spec f _ _ r h t ht
  exact ⟨i, hs, by simpa using lineOf_fresh uid f i t.line hl⟩

theorem matchingInRange_line (uid : α → Option Key) (f : List α) (cs : List Cls) (a b : Option Key) (r : List (Toi α))
    (h : matchingInRange f (processTokens uid f) cs a b = .ok r) :
    ∀ t ∈ r, ∃ s : Nat, t.start = some (s : Int) ∧ t.line = lineNo uid f s := by
  intro t ht
  unfold matchingInRange at h
  obtain ⟨i, _, x, hs, hl, _, _⟩ := singles_spec f _ _ r h t ht
  exact ⟨i, hs, by simpa using lineOf_fresh uid f i t.line hl⟩

/-- **get_tokens_bounded_by**, all flag combinations: every region is the slice at its start
    (the start token itself is read at that position, so this holds even for a stale index) -/
theorem tokensBoundedBy_sliceExact (f : List α) (ix : Index) (a b : Option Key) (fl : BoundedFlags)
    (r : List (Toi α)) (h : tokensBoundedBy f ix a b fl = .ok r) : ∀ t ∈ r, t.Exact f := by
  intro t ht
  unfold tokensBoundedBy at h
  simp only [bind_ok] at h
  obtain ⟨newStart, hns, newEnd0, _, h⟩ := h
  obtain ⟨sei, hmem, hb⟩ := mem_mapE _ _ _ h t ht
  obtain ⟨s, e, i⟩ := sei
  unfold bbBody at hb
  simp only [bind_ok, pure_ok] at hb
  obtain ⟨line, _, x, hx, _, _, rfl⟩ := hb
  have hs : s ∈ newStart := mem_zip3 _ _ _ _ hmem
  have hs0 : 0 ≤ s := by
    unfold bbNewStart at hns
    by_cases hb : fl.tillBol = true
    · simp only [hb, if_true] at hns
      obtain ⟨s0, _, hg⟩ := mem_filterMapE _ _ _ hns s hs
      simp only [bind_ok, pure_ok] at hg
      obtain ⟨r0, hr0, hm⟩ := hg
      cases r0 with
      | none => simp at hm
      | some y =>
        simp at hm
        have := crBefore_nonneg ix s0 y (by omega) hr0
        omega
    · simp only [hb] at hns
      injection hns with hns
      subst hns
      unfold ints at hs
      obtain ⟨n, _, rfl⟩ := List.mem_map.mp hs
      simp
  exact exact_of_slice f _ s (e + 1) rfl hs0 (Nat.le_of_lt (pyIdx_ok_lt f s x hs0 hx)) rfl

theorem tokensBoundedBy_line (uid : α → Option Key) (f : List α) (a b : Option Key) (fl : BoundedFlags)
    (r : List (Toi α)) (h : tokensBoundedBy f (processTokens uid f) a b fl = .ok r) :
    ∀ t ∈ r, ∃ s : Int, t.start = some s ∧ t.line = lineNo uid f s.toNat := by
  intro t ht
  unfold tokensBoundedBy at h
  simp only [bind_ok] at h
  obtain ⟨newStart, _, newEnd0, _, h⟩ := h
  obtain ⟨sei, _, hb⟩ := mem_mapE _ _ _ h t ht
  obtain ⟨s, e, i⟩ := sei
  unfold bbBody at hb
  simp only [bind_ok, pure_ok] at hb
  obtain ⟨line, hl, x, _, _, _, rfl⟩ := hb
  exact ⟨s, rfl, lineOf_fresh uid f s line hl⟩

/-- **get_tokens_at_beginning_of_line_matching** with a fresh index: the token alone, or the
    whitespace before it and the token, starting where recorded; the recorded line is the line of
    the matched token (in the second case the region starts one token earlier, on the same line
    because that token is whitespace) -/
theorem tokensAtBolMatching_sliceExact (uid : α → Option Key) (f : List α) (cs : List Cls) (r : List (Toi α))
    (h : tokensAtBolMatching f (processTokens uid f) cs = .ok r) : ∀ t ∈ r, t.Exact f := by
  intro t ht
  unfold tokensAtBolMatching at h
  obtain ⟨i, hi, hb⟩ := mem_filterMapE _ _ _ h t ht
  have hlt := fresh_idxsOfList_lt uid f cs i hi
  split at hb
  · simp only [bind_ok, pure_ok, Option.some.injEq] at hb
    obtain ⟨line, _, x, hx, rfl⟩ := hb
    exact exact_of_single f _ i x rfl (pyIdx_nat_ok f i x hx) rfl
  · split at hb
    · rename_i _ hc
      simp only [bind_ok, pure_ok, Option.some.injEq] at hb
      obtain ⟨line, _, rfl⟩ := hb
      have hw : (processTokens uid f).isAt (some wsKey) ((i : Int) - 1) = true := by
        simp only [Bool.and_eq_true] at hc; exact hc.2
      have h1 : 0 ≤ (i : Int) - 1 := isAt_nonneg _ _ _ hw
      exact exact_of_slice f _ ((i : Int) - 1) ((i : Int) + 1) rfl h1 (by omega) rfl
    · simp [pure, Except.pure] at hb

theorem tokensAtBolMatching_line (uid : α → Option Key) (f : List α) (cs : List Cls) (r : List (Toi α))
    (h : tokensAtBolMatching f (processTokens uid f) cs = .ok r) :
    ∀ t ∈ r, ∃ s : Nat, (t.start = some (s : Int) ∧ t.line = lineNo uid f s) ∨
      (t.start = some ((s : Int) - 1) ∧ t.line = lineNo uid f s ∧ t.toks.length ≤ 2) := by
  intro t ht
  unfold tokensAtBolMatching at h
  obtain ⟨i, hi, hb⟩ := mem_filterMapE _ _ _ h t ht
  split at hb
  · simp only [bind_ok, pure_ok, Option.some.injEq] at hb
    obtain ⟨line, hl, x, hx, rfl⟩ := hb
    exact ⟨i, Or.inl ⟨rfl, by simpa using lineOf_fresh uid f i line hl⟩⟩
  · split at hb
    · simp only [bind_ok, pure_ok, Option.some.injEq] at hb
      obtain ⟨line, hl, rfl⟩ := hb
      refine ⟨i, Or.inr ⟨rfl, by simpa using lineOf_fresh uid f i line hl, ?_⟩⟩
      simp only [pySlice, List.length_take, List.length_drop]
      unfold pyNorm; split <;> split <;> omega
    · simp [pure, Except.pure] at hb

/-- **get_token_and_n_tokens_before_it** with a fresh index: the `n + 1` tokens ending in the
    matched one; the recorded line is the line of the MATCHED token (`start + n`), not of the
    start token -/
theorem tokenAndNBefore_sliceExact (uid : α → Option Key) (f : List α) (cs : List Cls) (n : Nat) (r : List (Toi α))
    (h : tokenAndNBefore f (processTokens uid f) cs n = .ok r) :
    ∀ t ∈ r, t.Exact f ∧ ∃ s : Nat, t.start = some (s : Int) ∧ t.line = lineNo uid f (s + n) ∧ t.toks.length = n + 1 := by
  intro t ht
  unfold tokenAndNBefore at h
  obtain ⟨i, hi, hb⟩ := mem_filterMapE _ _ _ h t ht
  have hlt := fresh_idxsOfList_lt uid f cs i hi
  simp only [bind_ok] at hb
  obtain ⟨line, hl, hb⟩ := hb
  split at hb
  · rename_i hge
    simp only [pure_ok, Option.some.injEq] at hb
    subst hb
    have e1 : (i : Int) - (n : Int) = ((i - n : Nat) : Int) := by omega
    have hin : n ≤ i := by omega
    refine ⟨exact_of_slice f _ ((i : Int) - (n : Int)) ((i : Int) + 1) rfl (by omega) (by omega) rfl, i - n, by simp; exact e1, ?_, ?_⟩
    · have := lineOf_fresh uid f i line hl
      simp at this ⊢
      rw [this]; congr 1; omega
    · simp only [pySlice, List.length_take, List.length_drop]
      unfold pyNorm
      have h1 : ¬ ((i : Int) - (n : Int) < 0) := by omega
      have h2 : ¬ ((i : Int) + 1 < 0) := by omega
      simp only [h1, h2, if_false]
      omega
  · simp [pure, Except.pure] at hb

/-- **get_token_and_n_tokens_after_it** with a fresh index: starts at the matched token, whose
    line is recorded -/
theorem tokenAndNAfter_sliceExact (uid : α → Option Key) (f : List α) (cs : List Cls) (n : Nat) (r : List (Toi α))
    (h : tokenAndNAfter f (processTokens uid f) cs n = .ok r) :
    ∀ t ∈ r, t.Exact f ∧ ∃ s : Nat, t.start = some (s : Int) ∧ t.line = lineNo uid f s := by
  intro t ht
  unfold tokenAndNAfter at h
  obtain ⟨i, hi, hb⟩ := mem_mapE _ _ _ h t ht
  have hlt := fresh_idxsOfList_lt uid f cs i hi
  simp only [bind_ok, pure_ok] at hb
  obtain ⟨line, hl, rfl⟩ := hb
  exact ⟨exact_of_slice f _ (i : Int) _ rfl (by omega) (by simp; omega) rfl, i, rfl, by simpa using lineOf_fresh uid f i line hl⟩

/-- **get_m_tokens_before_and_n_tokens_after_token** with a fresh index, on a list without
    pseudo tokens: a slice modulo the `beginning_of_file` token that is prepended when the window
    would start before the file; the recorded line is the line of the matched token -/
theorem mBeforeNAfter_sliceExact (V : View α) (f : List α) (m n : Nat) (cs : List Cls) (r : List (Toi α))
    (hb : V.isBof V.bof = true) (hf : ∀ x ∈ f, V.isBof x = false)
    (h : mBeforeNAfter V f (processTokens V.uid f) m n cs = .ok r) :
    ∀ t ∈ r, t.ExactModBof V f := by
  intro t ht
  unfold mBeforeNAfter at h
  obtain ⟨i, hi, hbody⟩ := mem_mapE _ _ _ h t ht
  have hlt := fresh_idxsOfList_lt V.uid f cs i hi
  simp only [bind_ok] at hbody
  obtain ⟨line, _, hbody⟩ := hbody
  have hdrop : ∀ l : List α, (∀ x ∈ l, x ∈ f) → dropBofV V l = l := by
    intro l hl
    unfold dropBofV
    rw [List.filter_eq_self]
    intro x hx; simp [hf x (hl x hx)]
  have hsub : ∀ (a b : Int), ∀ x ∈ pySlice f a b, x ∈ f := by
    intro a b x hx
    unfold pySlice at hx
    exact List.mem_of_mem_drop (List.mem_of_mem_take hx)
  split at hbody
  · simp only [pure_ok] at hbody
    subst hbody
    have e : dropBofV V (V.bof :: pySlice f 0 ((i : Int) + (n : Int) + 1)) = pySlice f ((0 : Nat) : Int) ((i : Int) + (n : Int) + 1) := by
      have : dropBofV V (V.bof :: pySlice f 0 ((i : Int) + (n : Int) + 1)) = dropBofV V (pySlice f 0 ((i : Int) + (n : Int) + 1)) := by
        unfold dropBofV; simp [hb]
      rw [this, hdrop _ (hsub _ _)]; rfl
    refine ⟨0, rfl, ?_, ?_⟩
    · simp only; rw [e]; exact (pySlice_nat_exact f 0 _ (Nat.zero_le _)).1
    · simp only; rw [e]; exact (pySlice_nat_exact f 0 _ (Nat.zero_le _)).2
  · rename_i hge
    simp only [pure_ok] at hbody
    subst hbody
    have e1 : (i : Int) - (m : Int) = ((i - m : Nat) : Int) := by omega
    refine ⟨i - m, by simp; exact e1, ?_, ?_⟩
    · simp only; rw [hdrop _ (hsub _ _), e1]; exact (pySlice_nat_exact f (i - m) _ (by omega)).1
    · simp only; rw [hdrop _ (hsub _ _), e1]; exact (pySlice_nat_exact f (i - m) _ (by omega)).2

/-- … and the recorded line is the line of the MATCHED token `i`; the region starts `m` tokens
    earlier, or at 0 when that would be before the file -/
theorem mBeforeNAfter_line (V : View α) (f : List α) (m n : Nat) (cs : List Cls) (r : List (Toi α))
    (h : mBeforeNAfter V f (processTokens V.uid f) m n cs = .ok r) :
    ∀ t ∈ r, ∃ i : Nat, t.line = lineNo V.uid f i ∧
      ((m ≤ i ∧ t.start = some ((i - m : Nat) : Int)) ∨ (i < m ∧ t.start = some 0)) := by
  intro t ht
  unfold mBeforeNAfter at h
  obtain ⟨i, _, hbody⟩ := mem_mapE _ _ _ h t ht
  simp only [bind_ok] at hbody
  obtain ⟨line, hl, hbody⟩ := hbody
  have hline : line = lineNo V.uid f i := by simpa using lineOf_fresh V.uid f i line hl
  split at hbody
  · simp only [pure_ok] at hbody
    subst hbody
    exact ⟨i, hline, Or.inr ⟨by omega, rfl⟩⟩
  · simp only [pure_ok] at hbody
    subst hbody
    have e1 : (i : Int) - (m : Int) = ((i - m : Nat) : Int) := by omega
    exact ⟨i, hline, Or.inl ⟨by omega, by simp; exact e1⟩⟩

/-- **get_sequence_of_tokens_matching**, partial: a region whose recorded start is not negative
    is the slice at its start and carries the line of its first token.  The excluded case is
    real: see `sequenceMatching_negative_start` -/
theorem sequenceMatching_sliceExact_partial (V : View α) (f : List α) (cs : List Cls) (ig : Bool) (r : List (Toi α))
    (h : sequenceMatching V f (processTokens V.uid f) cs ig = .ok r) :
    ∀ t ∈ r, ∀ s : Int, t.start = some s → 0 ≤ s → t.Exact f ∧ t.line = lineNo V.uid f s.toNat := by
  intro t ht s hs hs0
  unfold sequenceMatching at h
  simp only [bind_ok] at h
  obtain ⟨idxs, hidx, h⟩ := h
  obtain ⟨i, _, hb⟩ := mem_filterMapE _ _ _ h t ht
  simp only [bind_ok] at hb
  obtain ⟨line, hl, hb⟩ := hb
  split at hb
  · simp [pure, Except.pure] at hb
  · simp only [bind_ok] at hb
    obtain ⟨ok, hok, hb⟩ := hb
    split at hb
    · rename_i hokt
      simp only [pure_ok, Option.some.injEq] at hb
      subst hb
      simp only [Option.some.injEq] at hs
      subst hs
      have hne : cs ≠ [] := by
        intro e; subst e; simp [seqIndexes] at hidx
      obtain ⟨c, cs', rfl⟩ := List.exists_cons_of_ne_nil hne
      subst hokt
      obtain ⟨x, hx⟩ := seqMatches_head V f i c cs' hok
      exact ⟨exact_of_slice f _ i _ rfl hs0 (Nat.le_of_lt (pyIdx_ok_lt f i x hs0 hx)) rfl,
        lineOf_fresh V.uid f i line hl⟩
    · simp [pure, Except.pure] at hb

/-- starts are never negative when the first class of the sequence has an index entry -/
theorem sequenceMatching_start_nonneg (V : View α) (f : List α) (ix : Index) (c0 : Cls) (cs : List Cls) (ig : Bool)
    (r : List (Toi α)) (h0 : ix.get c0.uid ≠ []) (h : sequenceMatching V f ix (c0 :: cs) ig = .ok r) :
    ∀ t ∈ r, ∃ s : Nat, t.start = some (s : Int) := by
  intro t ht
  unfold sequenceMatching at h
  simp only [bind_ok] at h
  obtain ⟨idxs, hidx, h⟩ := h
  obtain ⟨i, hi, hb⟩ := mem_filterMapE _ _ _ h t ht
  have hpos : (ix.get c0.uid).length > 0 := List.length_pos_iff.mpr h0
  have : idxs = ints (ix.get c0.uid) := by
    unfold seqIndexes at hidx
    cases hl : (c0 :: cs).getLast? with
    | none => simp at hl
    | some cl =>
      simp only [List.head?_cons, hl, hpos, if_true] at hidx
      injection hidx with hidx; exact hidx.symm
  subst this
  unfold ints at hi
  obtain ⟨n, _, rfl⟩ := List.mem_map.mp hi
  simp only [bind_ok] at hb
  obtain ⟨line, _, hb⟩ := hb
  split at hb
  · simp [pure, Except.pure] at hb
  · simp only [bind_ok] at hb
    obtain ⟨ok, _, hb⟩ := hb
    split at hb
    · simp only [pure_ok, Option.some.injEq] at hb
      subst hb; exact ⟨n, rfl⟩
    · simp [pure, Except.pure] at hb

/-! #### witnesses: what is NOT a slice -/

/-- tokens of the witnesses: 0 = a carriage return, 1 = a token of class `Y`, 2 = a token of a
    subclass `X'` of class `X` (number 9), 3 = code of length 10 -/
def wView : View Nat where
  uid n := match n with
    | 0 => some crKey
    | 1 => some ("w", "y")
    | 2 => some ("w", "x_sub")
    | _ => some ("w", "code")
  inst n p := (n == 1 && p == 1) || (n == 2 && (p == 2 || p == 9))
  isCr n := n == 0
  isBof n := n == 99
  len n := if n == 3 then 10 else 1
  bof := 99

/-- **get_sequence_of_tokens_matching can record a negative start.**  When no token has exactly
    the id of the first class (`X` is a base class: `isinstance` accepts its subclasses, the
    index lists only exact ids) the positions of the LAST class shifted left are used; for a file
    that begins with `Y` and ends with an `X'` the shifted position is `-1`, Python's negative
    indexing makes the `isinstance` tests succeed on `l[-1]`, `l[0]`, and the region
    `(start = -1, tokens = l[-1:1] = [])` is returned: not a slice at its start -/
theorem sequenceMatching_negative_start :
    (sequenceMatching wView [1, 0, 2] (processTokens wView.uid [1, 0, 2])
        [⟨some ("w", "x"), 9⟩, ⟨some ("w", "y"), 1⟩] false).toOption.map (fun r => r.map (fun t => (t.start, t.line, t.toks)))
      = some [(some (-1), 1, [])] := by
  decide +kernel

/-- **get_lines_with_length_that_exceed_column (length_001) records the LAST token of the line
    as start**, and `None` on the first line: the regions are not slices at their start -/
theorem linesExceeding_notSlice :
    (linesExceeding wView [3, 3, 0, 3, 3, 3, 0] 15).map (fun t => (t.start, t.line, t.toks))
      = [(none, 1, [3, 3]), (some 5, 2, [3, 3, 3])] ∧
    ¬ ∃ t ∈ linesExceeding wView [3, 3, 0, 3, 3, 3, 0] 15, t.ExactModBof wView [3, 3, 0, 3, 3, 3, 0] := by
  constructor
  · decide +kernel
  · have h : linesExceeding wView [3, 3, 0, 3, 3, 3, 0] 15 =
        [{ start := none, line := 1, toks := [3, 3] }, { start := some 5, line := 2, toks := [3, 3, 3] }] := by
      decide +kernel
    rw [h]
    rintro ⟨t, ht, s, hs, hle, _⟩
    simp only [List.mem_cons, List.mem_nil_iff, or_false] at ht
    rcases ht with rfl | rfl
    · simp at hs
    · simp only [Option.some.injEq] at hs
      have : s = 5 := by omega
      subst this
      revert hle
      decide +kernel

/-- **get_line_count_between_tokens (length_003) never records a start**: `tokens.New(None, …)` -/
theorem lineCountBetween_start_none (f : List α) (ix : Index) (a b : Option Key) (r : List (Toi α))
    (h : lineCountBetween f ix a b = .ok r) : ∀ t ∈ r, t.start = none ∧ ∀ V : View α, ¬ t.ExactModBof V f := by
  intro t ht
  unfold lineCountBetween at h
  simp only [bind_ok] at h
  obtain ⟨lines, _, h⟩ := h
  obtain ⟨sl, _, hb⟩ := mem_mapE _ _ _ h t ht
  simp only [bind_ok, pure_ok] at hb
  obtain ⟨x, _, rfl⟩ := hb
  refine ⟨rfl, ?_⟩
  rintro V ⟨s, hs, _⟩
  simp at hs

/-- get_line_preceding_line records the line it was ASKED about, one more than the line its
    region starts on (the region is the line above) -/
theorem linePreceding_line_witness :
    (linePreceding [3, 0, 3, 0, 3, 0] (processTokens wView.uid [3, 0, 3, 0, 3, 0]) 3 1).toOption.map
        (fun t => (t.start, t.line, t.toks)) = some (some 2, 3, [3]) ∧
      lineNo wView.uid [3, 0, 3, 0, 3, 0] 2 = 2 := by
  decide +kernel

/-- **get_line_preceding_line** (without comment skipping) with a fresh index: the slice from
    the token after a line break (or from 0) up to a line break -/
theorem linePreceding_sliceExact (uid : α → Option Key) (f : List α) (line n : Nat) (t : Toi α)
    (h : linePreceding f (processTokens uid f) line n = .ok t) : t.Exact f ∧ t.line = line := by
  unfold linePreceding at h
  simp only [bind_ok] at h
  obtain ⟨s, hs, e, _, h⟩ := h
  simp only [pure_ok] at h
  subst h
  refine ⟨?_, rfl⟩
  unfold linePrecedingStart at hs
  split at hs
  · injection hs with hs
    subst hs
    exact exact_of_slice f _ 0 e rfl (by omega) (by simp) rfl
  · rename_i hsi
    simp only [bind_ok, pure_ok] at hs
    obtain ⟨x, hx, rfl⟩ := hs
    have hsi0 : 0 ≤ (line : Int) - (n : Int) - 2 := by omega
    have e1 : (line : Int) - (n : Int) - 2 = (((line : Int) - (n : Int) - 2).toNat : Int) := by omega
    rw [e1] at hx
    have hm := List.mem_of_getElem? (pyIdx_nat_ok _ _ x hx)
    have := fresh_get_lt uid f (some crKey) x hm
    exact exact_of_slice f _ ((x : Int) + 1) e rfl (by omega) (by omega) rfl

/-- **get_line_above_line_starting_with_token** (without comments) with a fresh index: every
    region is a slice; its recorded line is the line of the matched token, i.e. one MORE than the
    line the region starts on (`linePreceding_line_witness`) -/
theorem lineAboveLineStartingWith_sliceExact (uid : α → Option Key) (f : List α) (cs : List Cls) (r : List (Toi α))
    (h : lineAboveLineStartingWith f (processTokens uid f) cs = .ok r) : ∀ t ∈ r, t.Exact f := by
  intro t ht
  unfold lineAboveLineStartingWith at h
  simp only [bind_ok] at h
  obtain ⟨lines, _, h⟩ := h
  obtain ⟨l, _, hb⟩ := mem_mapE _ _ _ h t ht
  exact (linePreceding_sliceExact uid f l 1 t hb).1

theorem allTokens_sliceExact (f : List α) : (allTokens f).Exact f := by
  refine ⟨0, rfl, ?_, ?_⟩ <;> simp [allTokens]

/-- a literal slice of a list without pseudo tokens is a slice modulo bof -/
theorem exact_exactModBof (V : View α) (f : List α) (t : Toi α) (hf : ∀ x ∈ f, V.isBof x = false)
    (h : t.Exact f) : t.ExactModBof V f := by
  obtain ⟨s, hs, hle, he⟩ := h
  have : dropBofV V t.toks = t.toks := by
    unfold dropBofV
    rw [List.filter_eq_self]
    intro x hx
    rw [he] at hx
    simp [hf x (List.mem_of_mem_drop (List.mem_of_mem_take hx))]
  exact ⟨s, hs, by rw [this]; exact hle, by rw [this]; exact he⟩

/-- the executable checker of the harness decides `ExactModBof` (and the end index) -/
theorem toiCheck_sound [DecidableEq α] (V : View α) (f : List α) (t : Toi α)
    (h : toiCheck V f t.start (t.endIndex V) t.toks = true) : t.ExactModBof V f := by
  unfold toiCheck at h
  cases hs : t.start with
  | none => simp [hs] at h
  | some s =>
    simp only [hs, Bool.and_eq_true, decide_eq_true_eq, beq_iff_eq] at h
    obtain ⟨⟨⟨h0, hle⟩, he⟩, _⟩ := h
    exact ⟨s.toNat, by rw [Int.toNat_of_nonneg h0]; exact hs, hle, he⟩

/-! ### a fix overwrites the tokens that were analysed and no others -/

/-- **update overwrites exactly the analysed tokens.**  `ps` pairs every region of interest
    with the tokens `_fix_violation` left in it.  If the regions are slices modulo bof and do not
    overlap, the updated list is the old list with each analysed slice replaced by its new tokens
    — the gaps untouched — and the slice each edit overwrites is precisely the analysed tokens -/
theorem update_overwrites_analysed (V : View α) (f : List α) (ps : List (Toi α × List α))
    (hx : ∀ p ∈ ps, p.1.ExactModBof V f)
    (hc : Chain f.length 0 (ps.map fun p => p.1.edit V p.2)) :
    Vsgm.update f (ps.map fun p => p.1.edit V p.2) = segs f 0 (ps.map fun p => p.1.edit V p.2) ∧
      ∀ p ∈ ps, old f (p.1.edit V p.2) = dropBofV V p.1.toks := by
  refine ⟨update_segments f _ hc, ?_⟩
  intro p hp
  obtain ⟨s, hs, _, he⟩ := hx p hp
  unfold old Toi.edit Toi.endIndex
  simp only [hs, Option.getD_some, Option.map_some, Int.toNat_natCast]
  have : ((s : Int) + ((dropBofV V p.1.toks).length : Int)).toNat - s = (dropBofV V p.1.toks).length := by omega
  rw [this]; exact he.symm

/-! ### non-vacuity -/

example : ∃ r ∈ Gen.ruleTable, r.remap = false ∧ r.fixable = true := by decide +kernel
example : ∃ r ∈ Gen.ruleTable, r.remap = true ∧ r.fixable = true := by decide +kernel
example : (processTokens wView.uid [1, 0, 2]).dmap.get crKey = [1] := by decide +kernel
example : (tokensMatching [1, 0, 2] (processTokens wView.uid [1, 0, 2]) [⟨some ("w", "y"), 1⟩]).toOption.map
    (fun r => r.map (fun t => (t.start, t.line, t.toks))) = some [(some 0, 1, [1])] := by decide +kernel
example : Plain crKey := plain_cr

/-! ### BEGIN wp2_bfull2 (extractor variants of the indent family; regions of the whole rule) -/

section wp2_bfull2
open BFull2

/-- **get_tokens_at_beginning_of_line_matching_between_tokens** (fresh index): every region is the slice of the
    file that starts where recorded; the recorded line is the line of the matched token -/
theorem tokensAtBolBetween_sliceExact (uid : α → Option Key) (f : List α) (cs : List Cls) (a b : Cls) (incl : Bool)
    (r : List (Toi α)) (h : tokensAtBolBetween f (processTokens uid f) cs a b incl = .ok r) :
    ∀ t ∈ r, t.Exact f ∧ ∃ i : Nat, t.line = lineNo uid f i ∧
      ((t.start = some (i : Int) ∧ t.toks.length = 1) ∨ (t.start = some ((i : Int) - 1) ∧ t.toks.length ≤ 2)) := by
  intro t ht
  obtain ⟨he, i, _, hl⟩ := tokensAtBolOf_sliceExact uid f _ r h t ht
  exact ⟨he, i, hl⟩

/-- **get_tokens_at_beginning_of_line_matching_between_tokens_unless_between_tokens** -/
theorem tokensAtBolBetweenUnless_sliceExact (uid : α → Option Key) (f : List α) (cs : List Cls) (a b : Cls)
    (u : List (Cls × Cls)) (incl : Bool) (r : List (Toi α))
    (h : tokensAtBolBetweenUnless f (processTokens uid f) cs a b u incl = .ok r) :
    ∀ t ∈ r, t.Exact f ∧ ∃ i : Nat, t.line = lineNo uid f i ∧
      ((t.start = some (i : Int) ∧ t.toks.length = 1) ∨ (t.start = some ((i : Int) - 1) ∧ t.toks.length ≤ 2)) := by
  intro t ht
  obtain ⟨he, i, _, hl⟩ := tokensAtBolOf_sliceExact uid f _ r h t ht
  exact ⟨he, i, hl⟩

/-- **get_tokens_at_beginning_of_line_matching_unless_between_tokens** -/
theorem tokensAtBolUnless_sliceExact (uid : α → Option Key) (f : List α) (cs : List Cls) (u : List (Cls × Cls))
    (r : List (Toi α)) (h : tokensAtBolUnless f (processTokens uid f) cs u = .ok r) :
    ∀ t ∈ r, t.Exact f ∧ ∃ i : Nat, t.line = lineNo uid f i ∧
      ((t.start = some (i : Int) ∧ t.toks.length = 1) ∨ (t.start = some ((i : Int) - 1) ∧ t.toks.length ≤ 2)) := by
  intro t ht
  obtain ⟨he, i, _, hl⟩ := tokensAtBolOf_sliceExact uid f _ r h t ht
  exact ⟨he, i, hl⟩

/-- the variants only FILTER the candidate positions of the plain extractor: their regions are regions of
    `get_tokens_at_beginning_of_line_matching` on the same file (any index) -/
theorem tokensAtBol_variants_sub (f : List α) (ix : Index) (cs : List Cls) (a b : Cls) (u : List (Cls × Cls)) (incl : Bool) :
    (∀ i ∈ (idxsOfList ix cs).filter (fun i => isBetweenIdx i (ix.pairIndexes a.uid b.uid).1 (ix.pairIndexes a.uid b.uid).2 incl),
        i ∈ idxsOfList ix cs) ∧
    (∀ i ∈ filterUnless ix (idxsOfList ix cs) u, i ∈ idxsOfList ix cs) := by
  constructor
  · intro i hi; exact (List.mem_filter.mp hi).1
  · intro i hi
    unfold filterUnless at hi
    simp only at hi
    split at hi
    · exact hi
    · exact (List.mem_filter.mp hi).1

/-- **the whole `token_indent` rule (all four variants)**: every violation the model's analysis reports carries
    the slice of the file that starts at its start index (what `vhdlFile.update` overwrites) -/
theorem bfull2_indent_viols_exact (uid : Tok → Option Key) (P : Params) (ind : Oracle) (f : List Tok) :
    ∀ v ∈ (sem uid P ind).analyze f,
      v.start + v.toks.length ≤ f.length ∧ v.toks = (f.drop v.start).take v.toks.length := by
  intro v hv
  unfold sem at hv
  simp only at hv
  cases ha : analyzeE uid P ind f with
  | error e => rw [ha] at hv; cases hv
  | ok vs =>
    rw [ha] at hv
    obtain ⟨vs', hvs', rfl⟩ := List.mem_map.mp hv
    unfold analyzeE analyzeWith at ha
    cases ht : toisWith P f (processTokens uid f) with
    | error e => rw [ht] at ha; cases ha
    | ok ts =>
      rw [ht] at ha
      simp only [liftTM] at ha
      have hex : ∀ t ∈ ts, t.Exact f := by
        intro t htm
        unfold toisWith at ht
        cases hvar : P.variant with
        | plain => rw [hvar] at ht; exact tokensAtBolMatching_sliceExact uid f P.cs ts ht t htm
        | between a b incl => rw [hvar] at ht; exact (tokensAtBolBetween_sliceExact uid f P.cs a b incl ts ht t htm).1
        | betweenUnless a b u incl => rw [hvar] at ht; exact (tokensAtBolBetweenUnless_sliceExact uid f P.cs a b u incl ts ht t htm).1
        | unlessBetween u => rw [hvar] at ht; exact (tokensAtBolUnless_sliceExact uid f P.cs u ts ht t htm).1
      -- every violation comes from one region
      have hmem : ∀ (l : List (Toi Tok)) (out : List (Viol × Str)), fmE (violOf uid P ind f) l = .ok out →
          ∀ x ∈ out, ∃ t ∈ l, violOf uid P ind f t = .ok (some x) := by
        intro l
        induction l with
        | nil => intro out h x hx; simp [fmE] at h; subst h; cases hx
        | cons t l ih =>
          intro out h x hx
          unfold fmE at h
          cases hg : violOf uid P ind f t with
          | error e => rw [hg] at h; cases h
          | ok c =>
            rw [hg] at h
            cases hr : fmE (violOf uid P ind f) l with
            | error e => rw [hr] at h; cases h
            | ok cs' =>
              rw [hr] at h
              simp only [Except.ok.injEq] at h
              subst h
              cases c with
              | none =>
                obtain ⟨t', ht', e⟩ := ih cs' hr x hx
                exact ⟨t', List.mem_cons_of_mem _ ht', e⟩
              | some y =>
                rw [List.mem_cons] at hx
                rcases hx with rfl | hx
                · exact ⟨t, List.mem_cons_self .., hg⟩
                · obtain ⟨t', ht', e⟩ := ih cs' hr x hx
                  exact ⟨t', List.mem_cons_of_mem _ ht', e⟩
      obtain ⟨t, htm, hvo⟩ := hmem ts vs ha vs' hvs'
      obtain ⟨s, hs, hlen, htk⟩ := hex t htm
      unfold violOf at hvo
      rw [hs] at hvo
      simp only at hvo
      cases hj : judge P.style P.size (fun k => indAt uid ind f ((s : Int).toNat + k)) t.toks with
      | none => rw [hj] at hvo; cases hvo
      | some al =>
        rw [hj] at hvo
        simp only at hvo
        cases hsol : solution P.style P.size al.1 al.2 with
        | error e => rw [hsol] at hvo; cases hvo
        | ok sol =>
          rw [hsol] at hvo
          simp only [Except.ok.injEq, Option.some.injEq] at hvo
          subst hvo
          simp only [Int.toNat_natCast]
          exact ⟨hlen, htk⟩

/-- executable form of `CsOk` -/
def csOkB (cs : List Cls) : Bool :=
  decide (cs.map (·.uid)).Nodup &&
    cs.all fun c => match c.uid with
      | some k => decide (k ≠ (kLogical, kLogical)) && decide (k ≠ commaKey) && decide (k ≠ openParenKey) &&
          decide (k ≠ wsKey) && decide (k ≠ crKey)
      | none => false

theorem csOkB_sound (cs : List Cls) (h : csOkB cs = true) : CsOk cs := by
  unfold csOkB at h
  simp only [Bool.and_eq_true, decide_eq_true_eq, List.all_eq_true] at h
  refine ⟨h.1, ?_⟩
  intro c hc
  have := h.2 c hc
  cases hu : c.uid with
  | none => rw [hu] at this; cases this
  | some k =>
    rw [hu] at this
    simp only [Bool.and_eq_true, decide_eq_true_eq] at this
    exact ⟨k, rfl, ⟨this.1.1.1.1, this.1.1.1.2, this.1.1.2⟩, this.1.2, this.2⟩

/-- **table fact, all 102 indent rules** (generated from the rule objects): the `lTokens` of every rule satisfy the
    guard of the whole-rule theorems — distinct ids, no alias key, neither whitespace nor carriage return -/
theorem bfull2_indentRule_csOk :
    ∀ r ∈ Gen.indentRuleTable, csOkB (r.cs.map fun c => ({ uid := Gen.classUidList.getD c none, idx := c } : Cls)) = true := by
  decide +kernel

/-- … and the class the fix creates is `parser.whitespace`; 93 rules use the plain extractor, 9 a variant -/
theorem bfull2_indent_table :
    Gen.classUidList.getD Gen.wsCls none = some wsKey ∧
    (Gen.indentRuleTable.filter (·.variant == 0)).length = 93 ∧ Gen.indentRuleTable.length = 102 := by
  decide +kernel

example : CsOk [({ uid := some ("signal_declaration", "signal_keyword"), idx := 3 } : Cls)] := csOkB_sound _ (by decide +kernel)

end wp2_bfull2

/-! ### END wp2_bfull2 -/


end Vsgm.C18

/-! =====================================================================================
    WP3 — the extractors of `VsgModel/Engine/Extract2.lean` (proofs: `Lemmas/Extract2*.lean`)
    ===================================================================================== -/
namespace Vsgm.C18
open Vsgm Vsgm.TM Vsgm.TM.Lemmas Vsgm.TM.X Vsgm.TM.X.Lemmas

variable {α : Type}

/-- **get_line_succeeding_line** with a fresh index: the region starts right after the line break
    that ends line `iLine`; the recorded line is `iLine + 1` -/
theorem lineSucceeding_sliceExact (uid : α → Option Key) (f : List α) (line num : Nat) (t : Toi α)
    (h : lineSucceeding f (processTokens uid f) line num = .ok (some t)) : t.Exact f ∧ t.line = line + 1 :=
  lineSucceeding_exact uid f line num t h

/-- **get_line_below_line_ending_with_token** -/
theorem lineBelowLineEndingWith_sliceExact (uid : α → Option Key) (f : List α) (cs : List Cls) (r : List (Toi α))
    (h : lineBelowLineEndingWith f (processTokens uid f) cs = .ok r) : ∀ t ∈ r, t.Exact f :=
  lineBelowLineEndingWith_exact uid f cs r h

/-- **get_line_below_line_ending_with_token_with_hierarchy**: every region it hands out (it can
    also append `None`) is a slice -/
theorem lineBelowLineEndingWithHier_sliceExact (uid : α → Option Key) (f : List α) (hier : α → Option Int)
    (cs : List Cls) (lh : List Int) (r : List (Option (Toi α)))
    (h : lineBelowLineEndingWithHier f (processTokens uid f) hier cs lh = .ok r) : ∀ t, some t ∈ r → t.Exact f :=
  lineBelowLineEndingWithHier_exact uid f hier cs lh r h

/-- **get_line_preceding_line**, both modes (with `bSkipComments` the region is the last line
    above that is not made of whitespace / comments only) -/
theorem linePreceding2_sliceExact (uid : α → Option Key) (f : List α) (line n : Nat) (skip : Bool) (t : Toi α)
    (h : linePreceding2 f (processTokens uid f) line n skip = .ok t) : t.Exact f := by
  unfold linePreceding2 at h
  split at h
  · exact linePrecedingSkip_exact uid f line t h
  · exact (linePreceding_sliceExact uid f line n t h).1

/-- **get_line_above_line_starting_with_token**, both modes -/
theorem lineAbove_sliceExact (uid : α → Option Key) (f : List α) (cs : List Cls) (incl : Bool) (r : List (Toi α))
    (h : lineAbove f (processTokens uid f) cs incl = .ok r) : ∀ t ∈ r, t.Exact f := by
  intro t ht
  unfold lineAbove at h
  simp only [bind_ok] at h
  obtain ⟨lines, _, h⟩ := h
  obtain ⟨l, _, hb⟩ := mem_mapE _ _ _ h t ht
  exact linePreceding2_sliceExact uid f l 1 incl t hb

/-- **get_line_above_line_starting_with_token_with_hierarchy** -/
theorem lineAboveHier_sliceExact (uid : α → Option Key) (f : List α) (hier : α → Option Int) (cs : List Cls)
    (lh : List Int) (incl : Bool) (r : List (Toi α))
    (h : lineAboveHier f (processTokens uid f) hier cs lh incl = .ok r) : ∀ t ∈ r, t.Exact f := by
  intro t ht
  unfold lineAboveHier at h
  simp only [bind_ok] at h
  obtain ⟨idxs, _, lines, _, h⟩ := h
  obtain ⟨l, _, hb⟩ := mem_mapE _ _ _ h t ht
  exact linePreceding2_sliceExact uid f l 1 incl t hb

/-- **get_tokens_bounded_by_unless_between** -/
theorem boundedByUnless_sliceExact (uid : α → Option Key) (f : List α) (a b : Option Key)
    (un : List (Option Key × Option Key)) (r : List (Toi α))
    (h : boundedByUnless f (processTokens uid f) a b un = .ok r) : ∀ t ∈ r, t.Exact f :=
  fun t ht => (boundedByUnless_exact uid f a b un r h t ht).1

theorem boundedByUnless_line (uid : α → Option Key) (f : List α) (a b : Option Key)
    (un : List (Option Key × Option Key)) (r : List (Toi α))
    (h : boundedByUnless f (processTokens uid f) a b un = .ok r) :
    ∀ t ∈ r, ∃ s : Nat, t.start = some (s : Int) ∧ t.line = lineNo uid f s :=
  fun t ht => (boundedByUnless_exact uid f a b un r h t ht).2

/-- **get_tokens_between_tokens_inclusive_while_storing_value_from_token** -/
theorem storingValue_sliceExact (uid : α → Option Key) (f : List α) (l r v : Option Key) (res : List (Toi α))
    (h : storingValue f (processTokens uid f) l r v = .ok res) : ∀ t ∈ res, t.Exact f :=
  fun t ht => (storingValue_exact uid f l r v res h t ht).1

theorem storingValue_line (uid : α → Option Key) (f : List α) (l r v : Option Key) (res : List (Toi α))
    (h : storingValue f (processTokens uid f) l r v = .ok res) :
    ∀ t ∈ res, ∃ s : Nat, t.start = some (s : Int) ∧ t.line = lineNo uid f s :=
  fun t ht => (storingValue_exact uid f l r v res h t ht).2

/-- **get_interface_elements_between_tokens**, for every `isinstance` relation: each element — cut
    at the semicolons, trailing whitespace / line breaks / comments of the last one stripped — is the
    slice that starts at the recorded position -/
theorem interfaceElements_sliceExact (V : View α) (P : PCls) (semi : Nat) (f : List α) (a b : Option Key)
    (r : List (Toi α)) (h : interfaceElements V P semi f (processTokens V.uid f) a b = .ok r) : ∀ t ∈ r, t.Exact f :=
  interfaceElements_exact V P semi f a b r h

/-- **get_tokens_between_non_whitespace_token_and_token** -/
theorem betweenNonWsAndToken_sliceExact (uid : α → Option Key) (f : List α) (right : Option Key) (r : List (Toi α))
    (h : betweenNonWsAndToken f (processTokens uid f) right = .ok r) : ∀ t ∈ r, t.Exact f :=
  fun t ht => (betweenNonWsAndToken_exact uid f right r h t ht).1

theorem betweenNonWsAndToken_line (uid : α → Option Key) (f : List α) (right : Option Key) (r : List (Toi α))
    (h : betweenNonWsAndToken f (processTokens uid f) right = .ok r) :
    ∀ t ∈ r, ∃ s : Nat, t.start = some (s : Int) ∧ t.line = lineNo uid f s :=
  fun t ht => (betweenNonWsAndToken_exact uid f right r h t ht).2

/-- **get_tokens_from_line**: a slice (empty, after the last line break, for line 1 — Python's
    `l[-1]`); the line number is the one asked for -/
theorem tokensFromLine_sliceExact (uid : α → Option Key) (f : List α) (line : Nat) (t : Toi α)
    (h : tokensFromLine f (processTokens uid f) line = .ok t) : t.Exact f ∧ t.line = line :=
  tokensFromLine_exact uid f line t h

/-- **get_n_tokens_before_and_after_tokens** (after the repair of the extractor: `if iStart >= 0`):
    every region is the slice at its recorded start, which is `i - n` for a matched position `i ≥ n`
    whose line is recorded.  (Before the repair the statement carried the guard `n ≤ i` and the
    witness `nBeforeAndAfter_negative_start`: start `-1`, tokens `l[-1:2] = []`.) -/
theorem nBeforeAndAfter_sliceExact (uid : α → Option Key) (f : List α) (n : Nat) (cs : List Cls)
    (r : List (Toi α)) (h : nBeforeAndAfter f (processTokens uid f) n cs = .ok r) :
    ∀ t ∈ r, t.Exact f ∧ ∃ i : Nat, n ≤ i ∧ t.start = some ((i : Int) - (n : Int)) ∧ t.line = lineNo uid f i := by
  intro t ht
  obtain ⟨he, i, hn, hs, hl⟩ := nBeforeAndAfter_exact uid f n cs r h t ht
  exact ⟨he, i, hn, by rw [hs]; congr 1; omega, hl⟩

/-- the input of the former witness — a matched token closer than `n` to the beginning of the file —
    gets no region any more (the real extractor is asked the same question on every run) -/
theorem nBeforeAndAfter_short_prefix_skipped :
    (nBeforeAndAfter [1, 0, 2] (processTokens wView.uid [1, 0, 2]) 1 [⟨some ("w", "y"), 1⟩]).toOption.map
      (fun r => r.map (fun t => (t.start, t.line, t.toks))) = some [] := by
  decide +kernel

/-- **get_tokens_bounded_by_token_when_between_tokens** -/
theorem boundedWhenBetween_sliceExact (uid : α → Option Key) (f : List α) (l r a b : Option Key) (tw : Bool)
    (res : List (Toi α)) (h : boundedWhenBetween f (processTokens uid f) l r a b tw = .ok res) : ∀ t ∈ res, t.Exact f :=
  fun t ht => (boundedWhenBetween_exact uid f l r a b tw res h t ht).1

theorem boundedWhenBetween_line (uid : α → Option Key) (f : List α) (l r a b : Option Key) (tw : Bool)
    (res : List (Toi α)) (h : boundedWhenBetween f (processTokens uid f) l r a b tw = .ok res) :
    ∀ t ∈ res, ∃ s : Nat, t.start = some (s : Int) ∧ t.line = lineNo uid f s :=
  fun t ht => (boundedWhenBetween_exact uid f l r a b tw res h t ht).2

/-- … whose flag `include_trailing_whitespace` changes nothing (the code calls
    `is_token_at_index(iRight + 1, parser.whitespace)` with the arguments swapped) -/
theorem boundedWhenBetween_flag_ignored (f : List α) (ix : Index) (l r a b : Option Key) (tw : Bool) :
    boundedWhenBetween f ix l r a b tw = boundedWhenBetween f ix l r a b false := rfl

/-! #### non-vacuity (WP3): 0 line break, 1 whitespace, 2 comment, 3 identifier, 4 `(`, 5 `)`, 6 `;`,
    7 blank line, 8 keyword; `isinstance` = same number -/

def xView : View Nat where
  uid n := match n with
    | 0 => some crKey
    | 1 => some wsKey
    | 2 => some commentKey
    | 3 => some ("w", "id")
    | 4 => some ("w", "open")
    | 5 => some ("w", "close")
    | 6 => some ("w", "semi")
    | 7 => some blankKey
    | _ => some ("w", "kw")
  inst n p := n == p
  isCr n := n == 0
  isBof n := n == 99
  len _ := 1
  bof := 99

def xP : PCls := { ws := 1, cr := 0, comment := 2, blank := 7, preproc := 98 }

/-- `kw ( id ; ws id cr ) ; cr  cr  ws kw cr` -/
def xFile : List Nat := [8, 4, 3, 6, 1, 3, 0, 5, 6, 0, 7, 0, 1, 8, 0]

def xShow (r : Except PyErr (List (Toi Nat))) : Option (List (Option Int × Nat × List Nat)) :=
  r.toOption.map fun l => l.map fun t => (t.start, t.line, t.toks)

/-- `id cr kw cr` and `id cr kw` (`decide` cannot run `List.mergeSort` on two or more elements: every sorted
    list of the examples has at most one) -/
def yFile : List Nat := [3, 0, 8, 0]
def zFile : List Nat := [3, 0, 8]

example : (lineSucceeding xFile (processTokens xView.uid xFile) 1 1).toOption.map (fun o => o.map fun t => (t.start, t.line, t.toks))
    = some (some (some 7, 2, [5, 6])) := by decide +kernel
example : xShow (lineBelowLineEndingWith yFile (processTokens xView.uid yFile) [⟨some ("w", "id"), 3⟩])
    = some [(some 2, 2, [8])] := by decide +kernel
example : (lineBelowLineEndingWithHier yFile (processTokens xView.uid yFile) (fun _ => some 0) [⟨some ("w", "id"), 3⟩] [0]).toOption.map
    (fun l => l.map fun o => o.map fun t => (t.start, t.line, t.toks)) = some [some (some 2, 2, [8])] := by decide +kernel
example : (linePreceding2 zFile (processTokens xView.uid zFile) 2 1 true).toOption.map (fun t => (t.start, t.line, t.toks))
    = some (some 0, 2, [3]) := by decide +kernel
example : xShow (lineAbove zFile (processTokens xView.uid zFile) [⟨some ("w", "kw"), 8⟩] true)
    = some [(some 0, 2, [3])] := by decide +kernel
example : xShow (lineAboveHier zFile (processTokens xView.uid zFile) (fun _ => some 0) [⟨some ("w", "kw"), 8⟩] [0] false)
    = some [(some 0, 2, [3])] := by decide +kernel
example : xShow (boundedByUnless xFile (processTokens xView.uid xFile) (some ("w", "open")) (some ("w", "close")) [])
    = some [(some 1, 1, [4, 3, 6, 1, 3, 0, 5])] := by decide +kernel
example : (storingValue xFile (processTokens xView.uid xFile) (some ("w", "open")) (some ("w", "close")) (some ("w", "kw"))).toOption.map
    (fun l => l.map fun t => (t.start, t.line, t.value)) = some [(some 1, 1, some 0)] := by decide +kernel
example : xShow (interfaceElements xView xP 6 xFile (processTokens xView.uid xFile) (some ("w", "open")) (some ("w", "close")))
    = some [(some 2, 1, [3]), (some 5, 1, [3])] := by decide +kernel
example : xShow (betweenNonWsAndToken xFile (processTokens xView.uid xFile) (some ("w", "close")))
    = some [(some 5, 1, [3, 0, 5])] := by decide +kernel
example : (tokensFromLine xFile (processTokens xView.uid xFile) 2).toOption.map (fun t => (t.start, t.line, t.toks))
    = some (some 7, 2, [5, 6, 0]) := by decide +kernel
example : xShow (nBeforeAndAfter xFile (processTokens xView.uid xFile) 1 [⟨some ("w", "close"), 5⟩])
    = some [(some 6, 2, [0, 5, 6])] := by decide +kernel
example : xShow (boundedWhenBetween [4, 3, 6, 5, 0] (processTokens xView.uid [4, 3, 6, 5, 0]) (some ("w", "id")) (some ("w", "semi"))
      (some ("w", "open")) (some ("w", "close")) true) = some [(some 1, 1, [3, 6])] := by decide +kernel

end Vsgm.C18

/-! =====================================================================================
    WP3, second part — the extractors of `VsgModel/Engine/Extract3.lean` (proofs: `Lemmas/Extract3*.lean`)
    ===================================================================================== -/
namespace Vsgm.C18
open Vsgm Vsgm.TM Vsgm.TM.Lemmas Vsgm.TM.X Vsgm.TM.X.Lemmas

variable {α : Type}

/-- **get_tokens_from_beginning_of_line_containing_token_to_the_next_non_whitespace_token_to_the_right**:
    a slice that starts at the line break before the line of the matched token (or at the token on
    the first line); the recorded line is the line of the MATCHED token, `start + iTokenIndex` -/
theorem bolToNextNonWs_sliceExact (uid : α → Option Key) (f : List α) (tok : Option Key) (r : List (Toi α))
    (h : bolToNextNonWs f (processTokens uid f) tok = .ok r) : ∀ t ∈ r, t.Exact f :=
  fun t ht => (bolToNextNonWs_exact uid f tok r h t ht).1

theorem bolToNextNonWs_line (uid : α → Option Key) (f : List α) (tok : Option Key) (r : List (Toi α))
    (h : bolToNextNonWs f (processTokens uid f) tok = .ok r) :
    ∀ t ∈ r, ∃ s v : Int, t.start = some s ∧ t.value = some v ∧ t.line = lineNo uid f (s + v).toNat :=
  fun t ht => (bolToNextNonWs_exact uid f tok r h t ht).2

/-- **get_token_and_n_tokens_before_it_in_between_tokens**: unlike `get_token_and_n_tokens_before_it`
    the recorded line is the line of the START position -/
theorem nBeforeInBetween_sliceExact (uid : α → Option Key) (f : List α) (cs : List Cls) (n : Nat) (a b : Option Key)
    (r : List (Toi α)) (h : nBeforeInBetween f (processTokens uid f) cs n a b = .ok r) :
    ∀ t ∈ r, t.Exact f ∧ ∃ s : Nat, t.start = some (s : Int) ∧ t.line = lineNo uid f s :=
  windowsBefore_exact uid f n _ r (fresh_filterBetween_lt uid f cs a b) h

/-- **get_token_and_n_tokens_before_it_in_between_tokens_unless_between_tokens** -/
theorem nBeforeInBetweenUnless_sliceExact (uid : α → Option Key) (f : List α) (cs : List Cls) (n : Nat) (a b : Option Key)
    (un : List (Option Key × Option Key)) (r : List (Toi α))
    (h : nBeforeInBetweenUnless f (processTokens uid f) cs n a b un = .ok r) :
    ∀ t ∈ r, t.Exact f ∧ ∃ s : Nat, t.start = some (s : Int) ∧ t.line = lineNo uid f s :=
  windowsBefore_exact uid f n _ r
    (fun i hi => fresh_filterBetween_lt uid f cs a b i (mem_filterUnless _ _ un i hi)) h

/-- **get_token_and_n_tokens_before_it_in_between_tokens_unless_token_is_found** -/
theorem nBeforeInBetweenUnlessStop_sliceExact (uid : α → Option Key) (f : List α) (cs : List Cls) (n : Nat)
    (a b stop : Option Key) (r : List (Toi α))
    (h : nBeforeInBetweenUnlessStop f (processTokens uid f) cs n a b stop = .ok r) :
    ∀ t ∈ r, t.Exact f ∧ ∃ s : Nat, t.start = some (s : Int) ∧ t.line = lineNo uid f s :=
  windowsBefore_exact uid f n _ r (fresh_filterBetweenUnlessStop_lt uid f cs a b stop) h

/-- **get_token_and_n_tokens_after_it_when_between_tokens** -/
theorem nAfterWhenBetween_sliceExact (uid : α → Option Key) (f : List α) (cs : List Cls) (n : Nat) (a b : Option Key)
    (r : List (Toi α)) (h : nAfterWhenBetween f (processTokens uid f) cs n a b = .ok r) :
    ∀ t ∈ r, t.Exact f ∧ ∃ s : Nat, t.start = some (s : Int) ∧ t.line = lineNo uid f s :=
  windowsAfter_exact uid f n _ r (fresh_filterBetween_lt uid f cs a b) h

/-- **get_token_and_n_tokens_after_it_when_between_tokens_unless_between_tokens** -/
theorem nAfterWhenBetweenUnless_sliceExact (uid : α → Option Key) (f : List α) (cs : List Cls) (n : Nat) (a b : Option Key)
    (un : List (Option Key × Option Key)) (r : List (Toi α))
    (h : nAfterWhenBetweenUnless f (processTokens uid f) cs n a b un = .ok r) :
    ∀ t ∈ r, t.Exact f ∧ ∃ s : Nat, t.start = some (s : Int) ∧ t.line = lineNo uid f s :=
  windowsAfter_exact uid f n _ r
    (fun i hi => fresh_filterBetween_lt uid f cs a b i (mem_filterUnless _ _ un i hi)) h

/-- **get_tokens_matching_in_range_bounded_by_tokens_unless_between_tokens** (stale index or not) -/
theorem matchingInRangeUnless_sliceExact (f : List α) (ix : Index) (cs : List Cls) (a b : Option Key)
    (un : List (Option Key × Option Key)) (r : List (Toi α))
    (h : matchingInRangeUnless f ix cs a b un = .ok r) : ∀ t ∈ r, t.Exact f :=
  singles_exact f ix _ r h

theorem matchingInRangeUnless_line (uid : α → Option Key) (f : List α) (cs : List Cls) (a b : Option Key)
    (un : List (Option Key × Option Key)) (r : List (Toi α))
    (h : matchingInRangeUnless f (processTokens uid f) cs a b un = .ok r) :
    ∀ t ∈ r, ∃ s : Nat, t.start = some (s : Int) ∧ t.line = lineNo uid f s :=
  singles_line uid f _ r h

/-- **get_n_tokens_before_and_after_tokens_bounded_by_tokens** (after the repair of the extractor, the same as for
    its unbounded sibling): every region is the slice at its recorded start `i - n`, `i ≥ n` a matched position whose
    line is recorded.  (Before: guard `n ≤ i`, witness `nBeforeAndAfterBounded_negative_start`.) -/
theorem nBeforeAndAfterBounded_sliceExact (uid : α → Option Key) (f : List α) (n : Nat) (cs : List Cls)
    (a b : Option Key) (r : List (Toi α)) (h : nBeforeAndAfterBounded f (processTokens uid f) n cs a b = .ok r) :
    ∀ t ∈ r, t.Exact f ∧ ∃ i : Nat, n ≤ i ∧ t.start = some ((i : Int) - (n : Int)) ∧ t.line = lineNo uid f i := by
  intro t ht
  obtain ⟨he, i, hn, hs, hl⟩ := nBeforeAndAfterBounded_exact uid f n cs a b r h t ht
  exact ⟨he, i, hn, by rw [hs]; congr 1; omega, hl⟩

/-- the input of the former witness, `( id ) cr` with `n = 2` (start `-1`, tokens `l[-1:4]` = the last token of
    the file): no region any more -/
theorem nBeforeAndAfterBounded_short_prefix_skipped :
    (nBeforeAndAfterBounded [4, 3, 5, 0] (processTokens xView.uid [4, 3, 5, 0]) 2 [⟨some ("w", "id"), 3⟩]
        (some ("w", "open")) (some ("w", "close"))).toOption.map
      (fun r => r.map (fun t => (t.start, t.line, t.toks))) = some [] := by
  decide +kernel

/-- **get_line_which_includes_tokens**: a slice; the recorded line is the line of the matched token,
    which sits at `start + token_index` -/
theorem lineWhichIncludes_sliceExact (uid : α → Option Key) (f : List α) (cs : List Cls) (r : List (Toi α))
    (h : lineWhichIncludes f (processTokens uid f) cs = .ok r) : ∀ t ∈ r, t.Exact f :=
  fun t ht => (lineWhichIncludes_exact uid f cs r h t ht).1

theorem lineWhichIncludes_line (uid : α → Option Key) (f : List α) (cs : List Cls) (r : List (Toi α))
    (h : lineWhichIncludes f (processTokens uid f) cs = .ok r) :
    ∀ t ∈ r, ∃ s v : Int, t.start = some s ∧ t.value = some v ∧ t.line = lineNo uid f (s + v).toNat :=
  fun t ht => (lineWhichIncludes_exact uid f cs r h t ht).2

/-- … but on the FIRST line of a file the region does not contain the token it was asked for:
    `get_index_of_carriage_return_before_index` answers with the position itself (its `l[-1]`), the
    region starts after the token and `token_index` is `-1` -/
theorem lineWhichIncludes_first_line :
    (lineWhichIncludes [4, 3, 6, 5, 0] (processTokens xView.uid [4, 3, 6, 5, 0]) [⟨some ("w", "semi"), 6⟩]).toOption.map
      (fun r => r.map (fun t => (t.start, t.line, t.toks, t.value))) = some [(some 3, 1, [5], some (-1))] := by
  decide +kernel

/-- **get_sequence_of_tokens_matching_bounded_by_tokens** (stale index or not: the first token of
    the sequence is read at the recorded position) -/
theorem sequenceMatchingBounded_sliceExact (V : View α) (f : List α) (ix : Index) (cs : List Cls) (a b : Option Key)
    (r : List (Toi α)) (h : sequenceMatchingBounded V f ix cs a b = .ok r) : ∀ t ∈ r, t.Exact f :=
  sequenceMatchingBounded_exact V f ix cs a b r h

theorem sequenceMatchingBounded_line (V : View α) (f : List α) (cs : List Cls) (a b : Option Key)
    (r : List (Toi α)) (h : sequenceMatchingBounded V f (processTokens V.uid f) cs a b = .ok r) :
    ∀ t ∈ r, ∃ s : Nat, t.start = some (s : Int) ∧ t.line = lineNo V.uid f s :=
  Vsgm.TM.X.Lemmas.sequenceMatchingBounded_line V f cs a b r h

/-- **get_tokens_matching_not_at_beginning_or_ending_of_line** -/
theorem matchingNotAtLineEnds_sliceExact (f : List α) (ix : Index) (cs : List Cls) (r : List (Toi α))
    (h : matchingNotAtLineEnds f ix cs = .ok r) : ∀ t ∈ r, t.Exact f :=
  singles_exact f ix _ r h

theorem matchingNotAtLineEnds_line (uid : α → Option Key) (f : List α) (cs : List Cls) (r : List (Toi α))
    (h : matchingNotAtLineEnds f (processTokens uid f) cs = .ok r) :
    ∀ t ∈ r, ∃ s : Nat, t.start = some (s : Int) ∧ t.line = lineNo uid f s :=
  singles_line uid f _ r h

/-- **get_tokens_from_non_whitespace_token_until_tokens**, partial: a region that has a start is the
    slice at it.  The start can be `None`: `fromNonWsUntil_start_none` -/
theorem fromNonWsUntil_sliceExact_partial (uid : α → Option Key) (f : List α) (cs : List Cls) (r : List (Toi α))
    (h : fromNonWsUntil f (processTokens uid f) cs = .ok r) : ∀ t ∈ r, t.start ≠ none → t.Exact f :=
  fromNonWsUntil_exact_partial uid f cs r h

/-- `id ; cr`: the backwards search for a non-whitespace token never looks at position 0
    (`range(i - 1, 0, -1)`), so the region before the `;` at position 1 gets the start `None` -/
theorem fromNonWsUntil_start_none :
    (fromNonWsUntil [3, 6, 0] (processTokens xView.uid [3, 6, 0]) [⟨some ("w", "semi"), 6⟩]).toOption.map
      (fun r => r.map (fun t => (t.start, t.line, t.toks))) = some [(none, 1, [3])] := by
  decide +kernel

/-- **get_if_statement_conditions** (after the repair of `remove_leading_…` / `remove_trailing_whitespace_and_comments`
    and of the extractor): every region is the slice at its recorded start, the recorded line is the
    line of that start, and with `fRemoveWhitespace` no region is empty.  (Before the repair the slice
    part carried the guard "the region contains anything but whitespace / line breaks / comments" and
    the witness `ifConditions_blank_condition`: start 0, tokens `[comment, ws]`.) -/
theorem ifConditions_sliceExact (V : View α) (P : PCls) (f : List α) (ifK elsifK thenK : Option Key) (rm : Bool)
    (r : List (Toi α)) (h : ifConditions V P f (processTokens V.uid f) ifK elsifK thenK rm = .ok r) :
    ∀ t ∈ r, (∃ s : Int, t.start = some s ∧ t.line = lineNo V.uid f s.toNat) ∧ t.Exact f ∧
      (rm = true → t.toks ≠ []) :=
  ifConditions_exact V P f ifK elsifK thenK rm r h

/-- the input of the former witness, `if ws comment then cr`: no condition, no region — if_002 has
    nothing to overwrite (`if then` used to become `() then`) -/
theorem ifConditions_blank_condition_skipped :
    (ifConditions xView xP [8, 1, 2, 5, 0] (processTokens xView.uid [8, 1, 2, 5, 0]) (some ("w", "kw")) (some ("w", "open"))
        (some ("w", "close")) true).toOption.map
      (fun r => r.map (fun t => (t.start, t.line, t.toks))) = some [] := by
  decide +kernel

/-- … and without `fRemoveWhitespace` the same input yields the untrimmed slice after the keyword -/
theorem ifConditions_blank_condition_untrimmed :
    (ifConditions xView xP [8, 1, 2, 5, 0] (processTokens xView.uid [8, 1, 2, 5, 0]) (some ("w", "kw")) (some ("w", "open"))
        (some ("w", "close")) false).toOption.map
      (fun r => r.map (fun t => (t.start, t.line, t.toks))) = some [(some 1, 1, [1, 2])] := by
  decide +kernel

/-- **get_association_elements_between_tokens**: a second `formal_part` token inside one element
    moves the recorded start but keeps the stored tokens — start 2, tokens from position 1 -/
theorem associationElements_restart :
    (associationElements xView { formal := 3, actual := 8, comma := 6, cr := 0 } [4, 3, 3, 6, 5, 0]
        (processTokens xView.uid [4, 3, 3, 6, 5, 0]) (some ("w", "open")) (some ("w", "close"))).toOption.map
      (fun o => o.map fun r => r.map (fun t => (t.start, t.line, t.toks))) = some (some [(some 2, 1, [3, 3, 6])]) := by
  decide +kernel

/-! #### non-vacuity (WP3, second part) -/

def wFile : List Nat := [4, 3, 6, 5, 0]

example : (bolToNextNonWs xFile (processTokens xView.uid xFile) (some ("w", "close"))).toOption.map
    (fun r => r.map (fun t => (t.start, t.line, t.toks, t.value))) = some [(some 6, 2, [0, 5, 6], some 1)] := by decide +kernel
example : xShow (nBeforeInBetween wFile (processTokens xView.uid wFile) [⟨some ("w", "semi"), 6⟩] 1 (some ("w", "open")) (some ("w", "close")))
    = some [(some 1, 1, [3, 6])] := by decide +kernel
example : xShow (nBeforeInBetweenUnless wFile (processTokens xView.uid wFile) [⟨some ("w", "semi"), 6⟩] 1 (some ("w", "open")) (some ("w", "close")) [])
    = some [(some 1, 1, [3, 6])] := by decide +kernel
example : xShow (nBeforeInBetweenUnlessStop wFile (processTokens xView.uid wFile) [⟨some ("w", "semi"), 6⟩] 1 (some ("w", "open"))
    (some ("w", "close")) (some ("w", "kw"))) = some [(some 1, 1, [3, 6])] := by decide +kernel
example : xShow (nAfterWhenBetween wFile (processTokens xView.uid wFile) [⟨some ("w", "id"), 3⟩] 1 (some ("w", "open")) (some ("w", "close")))
    = some [(some 1, 1, [3, 6])] := by decide +kernel
example : xShow (nAfterWhenBetweenUnless wFile (processTokens xView.uid wFile) [⟨some ("w", "id"), 3⟩] 1 (some ("w", "open")) (some ("w", "close")) [])
    = some [(some 1, 1, [3, 6])] := by decide +kernel
example : xShow (matchingInRangeUnless wFile (processTokens xView.uid wFile) [⟨some ("w", "id"), 3⟩] (some ("w", "open")) (some ("w", "close")) [])
    = some [(some 1, 1, [3])] := by decide +kernel
example : xShow (nBeforeAndAfterBounded wFile (processTokens xView.uid wFile) 1 [⟨some ("w", "id"), 3⟩] (some ("w", "open")) (some ("w", "close")))
    = some [(some 0, 1, [4, 3, 6])] := by decide +kernel
example : (lineWhichIncludes xFile (processTokens xView.uid xFile) [⟨some ("w", "close"), 5⟩]).toOption.map
    (fun r => r.map (fun t => (t.start, t.line, t.toks, t.value))) = some [(some 7, 2, [5, 6], some 0)] := by decide +kernel
example : xShow (sequenceMatchingBounded xView wFile (processTokens xView.uid wFile) [⟨some ("w", "id"), 3⟩, ⟨some ("w", "semi"), 6⟩]
    (some ("w", "open")) (some ("w", "close"))) = some [(some 1, 1, [3, 6])] := by decide +kernel
example : (associationElements xView { formal := 3, actual := 8, comma := 6, cr := 0 } [4, 3, 1, 8, 6, 3, 5, 0]
      (processTokens xView.uid [4, 3, 1, 8, 6, 3, 5, 0]) (some ("w", "open")) (some ("w", "close"))).toOption.map
    (fun o => o.map fun r => r.map (fun t => (t.start, t.line, t.toks))) = some (some [(some 1, 1, [3, 1, 8, 6]), (some 5, 1, [3, 5])]) := by
  decide +kernel
example : xShow (matchingNotAtLineEnds wFile (processTokens xView.uid wFile) [⟨some ("w", "semi"), 6⟩])
    = some [(some 2, 1, [6])] := by decide +kernel
example : xShow (fromNonWsUntil wFile (processTokens xView.uid wFile) [⟨some ("w", "close"), 5⟩])
    = some [(some 2, 1, [6])] := by decide +kernel
example : xShow (ifConditions xView xP [8, 1, 3, 1, 5, 0] (processTokens xView.uid [8, 1, 3, 1, 5, 0]) (some ("w", "kw")) (some ("w", "open"))
    (some ("w", "close")) true) = some [(some 2, 1, [3])] := by decide +kernel

end Vsgm.C18

/-! =====================================================================================
    WP3, third part — the extractors of `VsgModel/Engine/Extract4.lean` (proofs: `Lemmas/Extract4Thms.lean`)
    ===================================================================================== -/
namespace Vsgm.C18
open Vsgm Vsgm.TM Vsgm.TM.Lemmas Vsgm.TM.X Vsgm.TM.X.Lemmas

variable {α : Type}

/-- **get_blank_lines_above_line_starting_with_token**: a slice (it starts at the line break that
    ends the last non-blank line above); the recorded line is the line of a MATCHED token -/
theorem blankAbove_sliceExact (uid : α → Option Key) (f : List α) (cs : List Cls) (r : List (Toi α))
    (h : blankAbove f (processTokens uid f) cs = .ok r) : ∀ t ∈ r, t.Exact f :=
  fun t ht => (blankLinesAboveIdx_exact uid f _ r h t ht).1

theorem blankAbove_line (uid : α → Option Key) (f : List α) (cs : List Cls) (r : List (Toi α))
    (h : blankAbove f (processTokens uid f) cs = .ok r) :
    ∀ t ∈ r, ∃ i ∈ idxsOfList (processTokens uid f) cs, t.line = lineNo uid f i := by
  intro t ht
  obtain ⟨i, hi, hl⟩ := (blankLinesAboveIdx_exact uid f _ r h t ht).2
  exact ⟨i, (List.mem_filter.mp hi).1, hl⟩

/-- **get_blank_lines_above_line_starting_with_token_when_between_tokens** -/
theorem blankAboveWhenBetween_sliceExact (uid : α → Option Key) (f : List α) (cs : List Cls) (a b : Option Key)
    (r : List (Toi α)) (h : blankAboveWhenBetween f (processTokens uid f) cs a b = .ok r) : ∀ t ∈ r, t.Exact f :=
  fun t ht => (blankLinesAboveIdx_exact uid f _ r h t ht).1

/-- **get_blank_lines_below_line_ending_with_token** (with or without hierarchy limits) -/
theorem blankBelow_sliceExact (uid : α → Option Key) (f : List α) (hier : α → Option Int) (cs : List Cls)
    (lh : Option (List Int)) (r : List (Toi α)) (h : blankBelow f (processTokens uid f) hier cs lh = .ok r) :
    ∀ t ∈ r, t.Exact f :=
  blankBelow_exact uid f hier cs lh r h

/-- **get_tokens_at_beginning_of_line_matching_unless_between_tokens** -/
theorem bolUnless_sliceExact (uid : α → Option Key) (f : List α) (cs : List Cls) (un : List (Option Key × Option Key))
    (r : List (Toi α)) (h : bolUnless f (processTokens uid f) cs un = .ok r) : ∀ t ∈ r, t.Exact f :=
  bolAt_exact uid f _ r h

/-- **get_tokens_at_beginning_of_line_matching_between_tokens** -/
theorem bolBetween_sliceExact (uid : α → Option Key) (f : List α) (cs : List Cls) (a b : Option Key) (incl : Bool)
    (r : List (Toi α)) (h : bolBetween f (processTokens uid f) cs a b incl = .ok r) : ∀ t ∈ r, t.Exact f :=
  bolAt_exact uid f _ r h

/-- **get_tokens_at_beginning_of_line_matching_between_tokens_unless_between_tokens** -/
theorem bolBetweenUnless_sliceExact (uid : α → Option Key) (f : List α) (cs : List Cls) (a b : Option Key)
    (un : List (Option Key × Option Key)) (incl : Bool) (r : List (Toi α))
    (h : bolBetweenUnless f (processTokens uid f) cs a b un incl = .ok r) : ∀ t ∈ r, t.Exact f :=
  bolAt_exact uid f _ r h

/-- **get_function_subprogram_body / get_procedure_subprogram_body** (and get_subprogram_body):
    whenever the code gets as far as returning, every region is the slice at its start and carries
    the line of its start -/
theorem subprogramBodyOf_sliceExact (V : View α) (f : List α) (K : SubKeys) (kw desig : Nat) (r : List (Toi α))
    (h : subprogramBodyOf V f (processTokens V.uid f) K kw desig = .ok (some r)) : ∀ t ∈ r, t.Exact f :=
  fun t ht => (subprogramBodyOf_exact V f K kw desig r h t ht).1

theorem subprogramBodyOf_line (V : View α) (f : List α) (K : SubKeys) (kw desig : Nat) (r : List (Toi α))
    (h : subprogramBodyOf V f (processTokens V.uid f) K kw desig = .ok (some r)) :
    ∀ t ∈ r, ∃ s : Nat, t.start = some (s : Int) ∧ t.line = lineNo V.uid f s :=
  fun t ht => (subprogramBodyOf_exact V f K kw desig r h t ht).2

def xK : SubKeys := { declSemi := some ("w", "close"), bodySemi := some ("w", "semi"), procKw := some ("w", "open"), funcKw := some ("w", "kw") }

/-- `extract_inner_pair` starts its minimum search at `lEndIndexes[-1]` (a position) and compares
    DIFFERENCES with it strictly: a subprogram keyword at position 0 whose body ends at the last
    semicolon is never selected and `lPair` stays unbound (`UnboundLocalError`; `none` in the model) -/
theorem subprogramBody_unbound_witness :
    (subprogramBodyOf xView [8, 3, 6, 0] (processTokens xView.uid [8, 3, 6, 0]) xK 8 3).toOption.map
      (fun o => o.map fun r => r.map (fun t => (t.start, t.line, t.toks))) = some none := by
  decide +kernel

/-! #### non-vacuity (WP3, third part) -/

def vFile : List Nat := [4, 3, 0, 7, 0, 8, 0]

example : xShow (blankAbove vFile (processTokens xView.uid vFile) [⟨some ("w", "kw"), 8⟩]) = some [(some 2, 3, [0, 7])] := by
  decide +kernel
example : xShow (blankAboveWhenBetween [4, 3, 0, 7, 0, 8, 5, 0] (processTokens xView.uid [4, 3, 0, 7, 0, 8, 5, 0]) [⟨some ("w", "kw"), 8⟩]
    (some ("w", "open")) (some ("w", "close"))) = some [(some 2, 3, [0, 7])] := by decide +kernel
example : xShow (blankBelow vFile (processTokens xView.uid vFile) (fun _ => none) [⟨some ("w", "id"), 3⟩] none)
    = some [(some 3, 1, [7, 0])] := by decide +kernel
example : xShow (bolUnless vFile (processTokens xView.uid vFile) [⟨some ("w", "kw"), 8⟩] []) = some [(some 5, 3, [8])] := by
  decide +kernel
example : xShow (bolBetween [4, 3, 0, 8, 5, 0] (processTokens xView.uid [4, 3, 0, 8, 5, 0]) [⟨some ("w", "kw"), 8⟩]
    (some ("w", "open")) (some ("w", "close")) false) = some [(some 3, 2, [8])] := by decide +kernel
example : xShow (bolBetweenUnless [4, 3, 0, 8, 5, 0] (processTokens xView.uid [4, 3, 0, 8, 5, 0]) [⟨some ("w", "kw"), 8⟩]
    (some ("w", "open")) (some ("w", "close")) [] false) = some [(some 3, 2, [8])] := by decide +kernel
example : (subprogramBodyOf xView [0, 8, 3, 6, 0] (processTokens xView.uid [0, 8, 3, 6, 0]) xK 8 3).toOption.map
    (fun o => o.map fun r => r.map (fun t => (t.start, t.toks, t.value))) = some (some [(some 1, [8, 3, 6], some 2)]) := by
  decide +kernel

end Vsgm.C18

/-! =====================================================================================
    WP3, fourth part — `VsgModel/Engine/Extract5.lean` (proofs: `Lemmas/Extract5Thms.lean`)
    ===================================================================================== -/
namespace Vsgm.C18
open Vsgm Vsgm.TM Vsgm.TM.Lemmas Vsgm.TM.X Vsgm.TM.X.Lemmas

variable {α : Type}

/-- **get_tokens_starting_with_token_and_ending_with_one_of_possible_tokens** (after the repair of the two
    trimming helpers): every region is the slice at its recorded start.  (Before the repair: guard "the
    region holds anything but whitespace / line breaks / comments", witness `startingEnding_blank_region`.) -/
theorem startingEnding_sliceExact (V : View α) (P : PCls) (f : List α) (startCs endCs : List Cls)
    (inclStart inclEnd earliest : Bool) (r : List (Toi α))
    (h : startingEnding V P f (processTokens V.uid f) startCs endCs inclStart inclEnd earliest = .ok r) :
    ∀ t ∈ r, t.Exact f :=
  startingEnding_exact V P f startCs endCs inclStart inclEnd earliest r h

/-- the input of the former witness, `kw ws comment ) cr` without the bounding tokens: the empty
    region at the position of the end token (it used to be recorded at the START token with its
    tokens reversed) -/
theorem startingEnding_blank_region_empty :
    (startingEnding xView xP [8, 1, 2, 5, 0] (processTokens xView.uid [8, 1, 2, 5, 0]) [⟨some ("w", "kw"), 8⟩]
        [⟨some ("w", "close"), 5⟩] false false false).toOption.map
      (fun r => r.map (fun t => (t.start, t.line, t.toks))) = some [(some 3, 1, [])] := by
  decide +kernel

example : xShow (startingEnding xView xP [8, 1, 3, 1, 5, 0] (processTokens xView.uid [8, 1, 3, 1, 5, 0]) [⟨some ("w", "kw"), 8⟩]
    [⟨some ("w", "close"), 5⟩] false false false) = some [(some 2, 1, [3])] := by decide +kernel

end Vsgm.C18

/-! =====================================================================================
    WP3b — the extractors of `VsgModel/Engine/Extract6.lean` (proofs: `Lemmas/Extract6*.lean`)
    ===================================================================================== -/
namespace Vsgm.C18
open Vsgm Vsgm.TM Vsgm.TM.Lemmas Vsgm.TM.X Vsgm.TM.X.Lemmas

variable {α : Type}

/-- **get_line_below_line_ending_with_several_possible_tokens** -/
theorem lineBelowSeveral_sliceExact (uid : α → Option Key) (f : List α) (start : Option Key) (endCs : List Cls)
    (r : List (Toi α)) (h : lineBelowSeveral f (processTokens uid f) start endCs = .ok r) : ∀ t ∈ r, t.Exact f :=
  lineBelowSeveral_exact uid f start endCs r h

/-- **get_blank_lines_below_line_ending_with_several_possible_tokens** -/
theorem blankBelowSeveral_sliceExact (uid : α → Option Key) (f : List α) (start : Option Key) (endCs : List Cls)
    (r : List (Toi α)) (h : blankBelowSeveral f (processTokens uid f) start endCs = .ok r) : ∀ t ∈ r, t.Exact f :=
  blankBelowSeveral_exact uid f start endCs r h

/-- **get_consecutive_lines_starting_with_token** -/
theorem consecutiveLines_sliceExact (uid : α → Option Key) (f : List α) (tok : Option Key) (n : Nat) (r : List (Toi α))
    (h : consecutiveLines f (processTokens uid f) tok n = .ok r) : ∀ t ∈ r, t.Exact f :=
  consecutiveLines_exact uid f tok n r h

/-- **get_consecutive_lines_starting_with_token_and_stopping_when_token_starting_line_is_found** -/
theorem consecutiveLinesStopping_sliceExact (uid : α → Option Key) (f : List α) (search stop : Option Key) (r : List (Toi α))
    (h : consecutiveLinesStopping f (processTokens uid f) search stop = .ok r) : ∀ t ∈ r, t.Exact f :=
  fun t ht => (consecutiveLinesStopping_exact uid f search stop r h t ht).1

theorem consecutiveLinesStopping_line (uid : α → Option Key) (f : List α) (search stop : Option Key) (r : List (Toi α))
    (h : consecutiveLinesStopping f (processTokens uid f) search stop = .ok r) :
    ∀ t ∈ r, ∃ s : Nat, t.start = some (s : Int) ∧ t.line = lineNo uid f s :=
  fun t ht => (consecutiveLinesStopping_exact uid f search stop r h t ht).2

/-- **get_column_of_token_index** (an int, not a region): whenever it returns, the column is the
    summed value length of the tokens from one past some line break of the file up to the token … -/
theorem columnOf_anchor (V : View α) (f : List α) (i : Int) (c : Nat)
    (h : columnOf V f (processTokens V.uid f) i = .ok c) :
    ∃ p : Nat, p ∈ (processTokens V.uid f).get (some crKey) ∧ c = ((pySlice f ((p : Int) + 1) i).map V.len).sum :=
  columnOf_spec V f i c h

/-- … and for a token that is not on the first line that line break is the LAST one before the
    token: the column is the width of the text between the beginning of the token's line and the
    token -/
theorem columnOf_spec_partial (V : View α) (f : List α) (i : Nat) (c : Nat)
    (h : columnOf V f (processTokens V.uid f) (i : Int) = .ok c)
    (h2 : ∃ n, (processTokens V.uid f).lineOf (i : Int) = .ok n ∧ 2 ≤ n) :
    ∃ p : Nat, p < i ∧ p ∈ (processTokens V.uid f).get (some crKey) ∧
      (∀ q ∈ (processTokens V.uid f).get (some crKey), q < i → q ≤ p) ∧
      c = ((pySlice f ((p : Int) + 1) (i : Int)).map V.len).sum :=
  columnOf_lastCr V f i c h h2

/-- the excluded case is real: on the FIRST line `lCarriageReturns[line - 2]` is
    `lCarriageReturns[-1]`, the last line break of the file, the slice is empty and every token of
    the first line has column 0 (here the third token of `kw ( id ; …`, true column 3) -/
theorem columnOf_first_line : columnOf xView xFile (processTokens xView.uid xFile) 3 = .ok 0 := by
  decide +kernel

/-! #### non-vacuity (WP3b) -/

example : xShow (lineBelowSeveral yFile (processTokens xView.uid yFile) (some ("w", "id")) [⟨some ("w", "open"), 4⟩])
    = some [(some 2, 2, [8])] := by decide +kernel
example : xShow (blankBelowSeveral [3, 8, 0, 7, 0, 3, 0] (processTokens xView.uid [3, 8, 0, 7, 0, 3, 0]) (some ("w", "id")) [⟨some ("w", "kw"), 8⟩])
    = some [(some 3, 1, [7, 0])] := by decide +kernel
example : xShow (consecutiveLines xFile (processTokens xView.uid xFile) (some ("w", "close")) 1)
    = some [(some 7, 2, [5, 6])] := by decide +kernel
example : xShow (consecutiveLinesStopping [3, 0, 5, 0, 8, 0] (processTokens xView.uid [3, 0, 5, 0, 8, 0]) (some ("w", "close")) (some ("w", "kw")))
    = some [(some 2, 2, [5, 0, 8])] := by decide +kernel
example : columnOf xView xFile (processTokens xView.uid xFile) 8 = .ok 1 := by decide +kernel

end Vsgm.C18

/-! =====================================================================================
    WP3b, second part — `VsgModel/Engine/Extract7.lean` (proofs: `Lemmas/Extract7Thms.lean`)
    ===================================================================================== -/
namespace Vsgm.C18
open Vsgm Vsgm.TM Vsgm.TM.Lemmas Vsgm.TM.X Vsgm.TM.X.Lemmas

variable {α : Type}

/-- **get_tokens_in_declarative_parts** (eight `get_tokens_bounded_by` calls, `extract_tokens(1, …)` on
    two of them, merged by start position): every region is the slice at its start — stale index or
    not, because `get_tokens_bounded_by` reads the start token at the recorded position -/
theorem declarativeParts_sliceExact (V : View α) (f : List α) (ix : Index) (K : DeclKeys) (r : List (Toi α))
    (h : declarativeParts V f ix K = .ok r) : ∀ t ∈ r, t.Exact f :=
  declarativeParts_exact V f ix K r h

def xNo : Option Key × Option Key := (some ("w", "absent"), some ("w", "absent"))

example : xShow (declarativeParts xView wFile (processTokens xView.uid wFile)
      { prot := (some ("w", "open"), some ("w", "close")), arch := (some ("w", "open"), some ("w", "close")),
        pkgBody := xNo, subp := xNo, pkg := xNo, process := xNo, entity := xNo, block := xNo })
    = some [(some 0, 1, [4, 3, 6, 5]), (some 1, 1, [3, 6, 5])] := by decide +kernel

end Vsgm.C18

/-! =====================================================================================
    WP3b, third part — `VsgModel/Engine/Extract8.lean` (proofs: `Lemmas/Extract8Thms.lean`)
    ===================================================================================== -/
namespace Vsgm.C18
open Vsgm Vsgm.TM Vsgm.TM.Lemmas Vsgm.TM.X Vsgm.TM.X.Lemmas

variable {α : Type}

/-- **get_blank_lines_above_line_starting_with_use_clause**: every region is the slice at its start;
    its recorded line is the line of a matched token; the tokens whose values are stored as
    `previous_library` / `current_library` are tokens of the file -/
theorem blankAboveUseClause_sliceExact (uid : α → Option Key) (f : List α) (cs : List Cls) (semis : List (Option Key))
    (lib : Option Key) (r : List (Toi α × Option Nat × Nat))
    (h : blankAboveUseClause f (processTokens uid f) cs semis lib = .ok r) : ∀ x ∈ r, x.1.Exact f :=
  fun x hx => (blankAboveUseClause_exact uid f cs semis lib r h x hx).1

theorem blankAboveUseClause_line (uid : α → Option Key) (f : List α) (cs : List Cls) (semis : List (Option Key))
    (lib : Option Key) (r : List (Toi α × Option Nat × Nat))
    (h : blankAboveUseClause f (processTokens uid f) cs semis lib = .ok r) :
    ∀ x ∈ r, (∃ i ∈ idxsOfList (processTokens uid f) cs, x.1.line = lineNo uid f i) ∧
      (∀ p, x.2.1 = some p → p < f.length) ∧ x.2.2 < f.length :=
  fun x hx => (blankAboveUseClause_exact uid f cs semis lib r h x hx).2

example : (blankAboveUseClause [4, 3, 0, 7, 0, 8, 3, 0] (processTokens xView.uid [4, 3, 0, 7, 0, 8, 3, 0]) [⟨some ("w", "kw"), 8⟩]
      [some ("w", "semi")] (some ("w", "id"))).toOption.map (fun r => r.map fun x => (x.1.start, x.1.toks, x.2.2))
    = some [(some 2, [0, 7], 6)] := by decide +kernel

end Vsgm.C18

/-! =====================================================================================
    WP3b, fourth part — recorded line numbers of the line-below / line-above / blank-lines-below
    families against the line of the recorded start (proofs: `Lemmas/Extract9*.lean`)
    ===================================================================================== -/
namespace Vsgm.C18
open Vsgm Vsgm.TM Vsgm.TM.Lemmas Vsgm.TM.X Vsgm.TM.X.Lemmas

variable {α : Type}

/-- the token after the `k`-th line break of a file (counted from 0) is on line `k + 2` -/
theorem lineNo_after_lineBreak (uid : α → Option Key) (f : List α) (k x : Nat)
    (hk : ((processTokens uid f).get (some crKey))[k]? = some x) : lineNo uid f (x + 1) = k + 2 :=
  lineNo_after_cr uid f k x hk

/-- **get_line_succeeding_line** (asked about a line ≥ 1): the recorded line is the line of the start -/
theorem lineSucceeding_line (uid : α → Option Key) (f : List α) (line num : Nat) (t : Toi α) (h1 : 1 ≤ line)
    (h : lineSucceeding f (processTokens uid f) line num = .ok (some t)) :
    ∃ s : Nat, t.start = some (s : Int) ∧ t.line = lineNo uid f s :=
  lineSucceeding_lineOfStart uid f line num t h1 h

/-- **get_line_below_line_ending_with_token** -/
theorem lineBelowLineEndingWith_line (uid : α → Option Key) (f : List α) (cs : List Cls) (r : List (Toi α))
    (h : lineBelowLineEndingWith f (processTokens uid f) cs = .ok r) :
    ∀ t ∈ r, ∃ s : Nat, t.start = some (s : Int) ∧ t.line = lineNo uid f s :=
  lineBelowLineEndingWith_lineOfStart uid f cs r h

/-- **get_line_below_line_ending_with_token_with_hierarchy** -/
theorem lineBelowLineEndingWithHier_line (uid : α → Option Key) (f : List α) (hier : α → Option Int) (cs : List Cls)
    (lh : List Int) (r : List (Option (Toi α)))
    (h : lineBelowLineEndingWithHier f (processTokens uid f) hier cs lh = .ok r) :
    ∀ t, some t ∈ r → ∃ s : Nat, t.start = some (s : Int) ∧ t.line = lineNo uid f s :=
  lineBelowLineEndingWithHier_lineOfStart uid f hier cs lh r h

/-- **get_line_below_line_ending_with_several_possible_tokens** -/
theorem lineBelowSeveral_line (uid : α → Option Key) (f : List α) (start : Option Key) (endCs : List Cls) (r : List (Toi α))
    (h : lineBelowSeveral f (processTokens uid f) start endCs = .ok r) :
    ∀ t ∈ r, ∃ s : Nat, t.start = some (s : Int) ∧ t.line = lineNo uid f s :=
  lineBelowSeveral_lineOfStart uid f start endCs r h

/-- **get_blank_lines_below_line_ending_with_token**: the recorded line is the line of the matched
    token, ONE LESS than the line the region starts on -/
theorem blankBelow_line (uid : α → Option Key) (f : List α) (hier : α → Option Int) (cs : List Cls)
    (lh : Option (List Int)) (r : List (Toi α)) (h : blankBelow f (processTokens uid f) hier cs lh = .ok r) :
    ∀ t ∈ r, ∃ s : Nat, t.start = some (s : Int) ∧ t.line + 1 = lineNo uid f s := by
  unfold blankBelow at h
  simp only [bind_ok] at h
  obtain ⟨idxs, _, h⟩ := h
  exact blankBelowIdx_lineOfStart uid f idxs r h

/-- **get_blank_lines_below_line_ending_with_several_possible_tokens** -/
theorem blankBelowSeveral_line (uid : α → Option Key) (f : List α) (start : Option Key) (endCs : List Cls) (r : List (Toi α))
    (h : blankBelowSeveral f (processTokens uid f) start endCs = .ok r) :
    ∀ t ∈ r, ∃ s : Nat, t.start = some (s : Int) ∧ t.line + 1 = lineNo uid f s :=
  blankBelowIdx_lineOfStart uid f _ r h

/-- **get_line_preceding_line** with `bSkipComments`: the recorded line is ONE MORE than the line
    the region starts on -/
theorem linePrecedingSkip_line (uid : α → Option Key) (f : List α) (line : Nat) (t : Toi α)
    (h : linePrecedingSkip f (processTokens uid f) line = .ok t) :
    ∃ s : Nat, t.start = some (s : Int) ∧ t.line = lineNo uid f s + 1 :=
  linePrecedingSkip_lineOfStart uid f line t h

/-- **get_line_preceding_line** without it, partial: asked for a line that has `n` lines above it
    (`n + 1 ≤ line`) the recorded line is `n` more than the line the region starts on.  Otherwise:
    `linePreceding_line_first_line` -/
theorem linePreceding_line_partial (uid : α → Option Key) (f : List α) (line n : Nat) (t : Toi α) (hn : n + 1 ≤ line)
    (h : linePreceding f (processTokens uid f) line n = .ok t) :
    ∃ s : Nat, t.start = some (s : Int) ∧ t.line = lineNo uid f s + n :=
  linePreceding_lineOfStart uid f line n t hn h

/-- asked about line 1: start 0 (line 1), recorded line 1, not `1 + 1` -/
theorem linePreceding_line_first_line :
    (linePreceding yFile (processTokens xView.uid yFile) 1 1).toOption.map (fun t => (t.start, t.line)) = some (some 0, 1) ∧
      lineNo xView.uid yFile 0 = 1 := by
  decide +kernel

/-- **get_line_above_line_starting_with_token**, both modes: the recorded line is the line of the
    matched token, ONE MORE than the line the region starts on (a token that starts a line is on
    line 2 or later) -/
theorem lineAbove_line (uid : α → Option Key) (f : List α) (cs : List Cls) (incl : Bool) (r : List (Toi α))
    (h : lineAbove f (processTokens uid f) cs incl = .ok r) :
    ∀ t ∈ r, ∃ s : Nat, t.start = some (s : Int) ∧ t.line = lineNo uid f s + 1 :=
  lineAbove_lineOfStart uid f cs incl r h

/-- **get_line_above_line_starting_with_token_with_hierarchy** -/
theorem lineAboveHier_line (uid : α → Option Key) (f : List α) (hier : α → Option Int) (cs : List Cls) (lh : List Int)
    (incl : Bool) (r : List (Toi α)) (h : lineAboveHier f (processTokens uid f) hier cs lh incl = .ok r) :
    ∀ t ∈ r, ∃ s : Nat, t.start = some (s : Int) ∧ t.line = lineNo uid f s + 1 :=
  lineAboveHier_lineOfStart uid f hier cs lh incl r h

example : ((processTokens xView.uid yFile).get (some crKey))[1]? = some 3 := by decide +kernel

end Vsgm.C18

/-! =====================================================================================
    WP3b, fifth part — the line recorded by `get_interface_elements_between_tokens` (`Lemmas/Extract9Ie.lean`)
    ===================================================================================== -/
namespace Vsgm.C18
open Vsgm Vsgm.TM Vsgm.TM.Lemmas Vsgm.TM.X Vsgm.TM.X.Lemmas

variable {α : Type}

/-- **get_interface_elements_between_tokens**: every element carries the line of its first token —
    the loop counts the line breaks it walks over — provided `isinstance(·, parser.carriage_return)`
    agrees with the index key of the token and the opening token is not itself a line break -/
theorem interfaceElements_line (V : View α) (P : PCls) (semi : Nat) (f : List α) (a b : Option Key) (r : List (Toi α))
    (hcr : ∀ x, V.inst x P.cr = decide (V.uid x = some crKey))
    (hopen : ∀ s ∈ ((processTokens V.uid f).pairIndexes a b).1, ∀ x, f[s]? = some x → V.uid x ≠ some crKey)
    (h : interfaceElements V P semi f (processTokens V.uid f) a b = .ok r) :
    ∀ t ∈ r, ∃ s : Nat, t.start = some (s : Int) ∧ t.line = lineNo V.uid f s :=
  interfaceElements_lineOfStart V P semi f a b r hcr hopen h

/-- the hypotheses are satisfiable: the view of the examples, and an element on the second line -/
example : ∀ x, xView.inst x xP.cr = decide (xView.uid x = some crKey) := by
  intro x
  rcases x with _ | _ | _ | _ | _ | _ | _ | _ | _ | x <;> simp [xView, xP, crKey, wsKey, commentKey, blankKey]

example : xShow (interfaceElements xView xP 6 [4, 0, 3, 5, 0] (processTokens xView.uid [4, 0, 3, 5, 0]) (some ("w", "open")) (some ("w", "close")))
    = some [(some 2, 2, [3])] ∧ lineNo xView.uid [4, 0, 3, 5, 0] 2 = 2 := by decide +kernel

end Vsgm.C18
