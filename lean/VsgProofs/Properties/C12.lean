/-
  C12 — configuration is obeyed with the documented precedence.
  ONLY property theorems and their non-vacuity examples live here.  The model is
  VsgModel/Engine/Config.lean (namespace Vsgm.Cfg), the specification is Vsgm.Cfg.Spec.
-/
import VsgModel.Engine.Config
import VsgModel.Engine.RuleRun
import VsgModel.Generated.Rules
import VsgProofs.Lemmas.Config
import VsgProofs.Lemmas.Engine
import VsgProofs.Properties.C03
namespace Vsgm.C12
open Vsgm Vsgm.Cfg Vsgm.Cfg.Lemmas

/-! ### one configuration (the merged `dConfig`): most specific level wins -/

/-- `apply_rules.configure_rules` on the merged configuration `c` for file `fname`.  If it succeeds, then
    for every rule `r` of the list (position kept) and every attribute `a` of the rule object
    (`a ∈ r.__dict__`, not `severity`, not the `debug` flag), the configured value is the one of the most
    specific level that mentions `a`, in the order
      file_rules[fname].rule (id, group, global) > file_list[fname].rule (id, group, global)
        > rule (id, group, global) > the rule's default,
    where the global level counts only if `a ∈ r.configuration` (the code's guard), the group level is the
    last mention among the groups of the rule in the order the groups are WRITTEN, and a per-file entry
    is the entry at the index of the file's first occurrence in the list.  `severity` obeys the same
    order by NAME; the name is looked up in the severity list (None if unknown — no error), and a
    successful run implies that no applicable per-file level mentions `severity` at all. -/
theorem effective_precedence (c : Config) (rs rs' : List RuleObj) (fname : String)
    (h : configureRules c rs fname = .ok rs') :
    rs'.length = rs.length ∧
    ∀ (i : Nat) (r r' : RuleObj), rs[i]? = some r → rs'[i]? = some r' →
      r'.id = r.id ∧
      (∀ a, a ≠ "severity" → a ≠ "debug" → dhas r.dict a = true →
        dget r'.dict a = Spec.effective c.doc fname r a) ∧
      r'.severity = Spec.effectiveSeverity c.sevs c.doc fname r := by
  unfold configureRules at h
  simp only [bind, Except.bind] at h
  cases h1 : ruleListConfigure (some c.sevs) c.doc.rule c.doc.debug rs with
  | error e => simp [h1] at h
  | ok rs1 =>
    simp only [h1] at h
    cases h2 : configurePerOption c.doc.fileList fname rs1 with
    | error e => simp [h2] at h
    | ok rs2 =>
      simp only [h2] at h
      obtain ⟨l1, p1⟩ := ruleListConfigure_spec _ _ _ _ _ h1
      obtain ⟨l2, p2⟩ := configurePerOption_spec _ _ _ _ h2
      obtain ⟨l3, p3⟩ := configurePerOption_spec _ _ _ _ h
      refine ⟨by omega, ?_⟩
      intro i r r' hr hr'
      obtain ⟨r1, hr1⟩ := getElem?_of_length_eq rs rs1 i r l1 hr
      obtain ⟨r2, hr2⟩ := getElem?_of_length_eq rs1 rs2 i r1 l2 hr1
      have q1 := p1 i r r1 hr hr1
      have q2 := p2 i r1 r2 hr1 hr2
      have q3 := p3 i r2 r' hr2 hr'
      refine ⟨q3.id.trans (q2.id.trans q1.id), ?_, ?_⟩
      · intro a ha hdbg hd
        have hd1 := q1.mono a hd
        have hd2 := q2.mono a hd1
        rw [q3.dict a ha hdbg hd2, q2.dict a ha hdbg hd1, q1.dict a ha hdbg hd]
        rw [optSecLevels_congr _ r r2 a (q2.id.trans q1.id) (q2.groups.trans q1.groups)
              (q2.configuration.trans q1.configuration) (by rw [hd2, hd]),
            optSecLevels_congr _ r r1 a q1.id q1.groups q1.configuration (by rw [hd1, hd])]
        unfold Spec.effective Spec.chosen Spec.docLevels
        rw [← firstSome_append, ← firstSome_append]
        generalize Spec.firstSome _ = x
        cases x <;> rfl
      · rw [q3.sev, q2.sev, q1.sev]
        have s3 := q3.sevOk rfl
        have s2 := q2.sevOk rfl
        rw [optSecLevels_sev_congr _ r r2 (q2.id.trans q1.id) (q2.groups.trans q1.groups)] at s3
        rw [optSecLevels_sev_congr _ r r1 q1.id q1.groups] at s2
        unfold Spec.effectiveSeverity Spec.chosen Spec.docLevels
        rw [List.append_assoc, firstSome_append_none _ _ s3, firstSome_append_none _ _ s2]
        cases Spec.firstSome (Spec.optSecLevels c.doc.rule r "severity") <;> simp

/-- rule in two groups: the group written LATER wins, whichever is more specific -/
example :
    let r : RuleObj := { id := "architecture_004", groups := ["case", "case::keyword"], configuration := ["case"],
                         dict := [("case", .str "lower")], severity := some ⟨"Error", "error"⟩, options := [], deprecated := false }
    let sec : RuleSec := [("group", .groups [("case::keyword", [("case", .str "upper")]), ("case", [("case", .str "lower")])])]
    (ruleConfigure (some builtinSevs) sec r).toOption.map (fun p => dget p.1.dict "case") = some (some (.str "lower")) := by
  decide

/-! ### several configuration files -/

/-- EXACT description of `process_config_file` on the `rule` dictionary: for every key (`global`, `group`,
    a rule id) the merged entry is the later file's WHOLE entry if the later file has the key, the earlier
    one otherwise — entries are never merged attribute by attribute -/
theorem merge_replaces_whole_entry (base : Option RuleSec) (tmp : RuleSec) (k : String) :
    dget ((mergeRule base tmp).getD []) k = pick (dlast tmp k) (dget (base.getD []) k) :=
  mergeRule_get tmp base k

/-- PARTIAL form of "later files override earlier ones, per attribute", true on the code as it is: if no
    key of the `rule` dictionary (`global`, `group`, a rule id) occurs in both files, every level of the
    merged section gives the later file's value if the later file mentions the attribute at that level
    and the earlier file's value otherwise -/
theorem later_file_overrides_partial (s1 s2 : RuleSec) (hn : NodupKeys s2)
    (hdisj : ∀ k, dhas s1 k = true → dhas s2 k = true → False) (r : RuleObj) (a : String) :
    let m := (mergeRule (some s1) s2).getD []
    Spec.idLevel m r a = pick (Spec.idLevel s2 r a) (Spec.idLevel s1 r a) ∧
    Spec.groupLevel m r a = pick (Spec.groupLevel s2 r a) (Spec.groupLevel s1 r a) ∧
    Spec.globalLevel m a = pick (Spec.globalLevel s2 a) (Spec.globalLevel s1 a) := by
  refine ⟨?_, ?_, ?_⟩
  · exact level_of_merge s1 s2 hn hdisj
      (fun o => match o with
        | some (.attrs av) => dlast av a
        | _ => none) rfl r.id
  · exact level_of_merge s1 s2 hn hdisj
      (fun o => match o with
        | some (.groups gs) => dlast (Spec.groupAttrs r.groups gs) a
        | _ => none) rfl "group"
  · exact level_of_merge s1 s2 hn hdisj
      (fun o => match o with
        | some (.attrs av) => dlast av a
        | _ => none) rfl "global"

/-- the property for stacks of files: after `config.New` over `style :: docs` and `configure_rules`, every
    attribute has the value of the most specific level that mentions it in ANY file, the later file
    winning at the same level (`Spec.specEffective`) -/
def LaterFileOverrides : Prop :=
  ∀ (env : Env) (style : Doc) (docs : List Doc) (dbg : Bool) (c : Config) (rs rs' : List RuleObj) (fname : String),
    newConfig env style docs dbg = .ok c → configureRules c rs fname = .ok rs' →
    ∀ (i : Nat) (r r' : RuleObj), rs[i]? = some r → rs'[i]? = some r' →
      ∀ a, a ≠ "severity" → a ≠ "debug" → dhas r.dict a = true →
        dget r'.dict a = Spec.specEffective c.doc (style :: docs) fname r a

def wEnv : Env := { glob := fun n => [n], indentNorm := fun o => o.getD "", pragmaNorm := fun o => o.getD "" }

def wRule : RuleObj :=
  { id := "architecture_013", groups := ["case", "case::name"],
    configuration := ["indent_style", "indent_size", "phase", "disable", "fixable", "severity", "user_error_message", "case"],
    dict := [("indent_style", .str "spaces"), ("indent_size", .int 2), ("phase", .int 6), ("subphase", .int 1),
             ("disable", .bool false), ("fixable", .bool true), ("user_error_message", .str ""), ("case", .str "lower")],
    severity := some ⟨"Error", "error"⟩, options := [], deprecated := false }

/-- c1 = {rule: {architecture_013: {disable: true, case: upper}, global: {indent_size: 4}}} -/
def c1 : Doc := { rule := some [("architecture_013", .attrs [("disable", .bool true), ("case", .str "upper")]),
                                ("global", .attrs [("indent_size", .int 4)])] }
/-- c2 = {rule: {architecture_013: {case: lower}, global: {indent_style: spaces}}} -/
def c2 : Doc := { rule := some [("architecture_013", .attrs [("case", .str "lower")]),
                                ("global", .attrs [("indent_style", .str "spaces")])] }

/-- the witness evaluated on the model: with `-c c1 c2` the rule ends up enabled with indent_size 2,
    the property demands disabled with indent_size 4 -/
theorem later_file_overrides_witness :
    ∃ c r', newConfig wEnv {} [c1, c2] false = .ok c ∧ configureRules c [wRule] "a.vhd" = .ok [r'] ∧
      dget r'.dict "disable" = some (.bool false) ∧
      Spec.specEffective c.doc [{}, c1, c2] "a.vhd" wRule "disable" = some (.bool true) ∧
      dget r'.dict "indent_size" = some (.int 2) ∧
      Spec.specEffective c.doc [{}, c1, c2] "a.vhd" wRule "indent_size" = some (.int 4) ∧
      dget r'.dict "case" = some (.str "lower") ∧
      Spec.specEffective c.doc [{}, c1, c2] "a.vhd" wRule "case" = some (.str "lower") := by
  refine ⟨_, _, rfl, rfl, ?_⟩
  decide

/-- the full statement is FALSE on the faithful model (finding: attributes only the earlier file
    mentions are lost) -/
theorem later_file_overrides_fails : ¬ LaterFileOverrides := by
  intro h
  obtain ⟨c, r', hc, hr, hd, hs, _⟩ := later_file_overrides_witness
  have := h wEnv {} [c1, c2] false c [wRule] [r'] "a.vhd" hc hr 0 wRule r' rfl rfl "disable"
    (by decide) (by decide) (by decide)
  rw [hd, hs] at this
  exact absurd this (by decide)

/-! ### rules that do not exist, deprecated rules -/

/-- a configuration whose `rule` dictionary names something that is neither `global`, `group` nor the id
    of a rule of the list is a ConfigurationError (never ignored), whatever else it contains -/
theorem unknown_rule_error (sevs : Option (List Sev)) (sec : RuleSec) (dbg : Option Bool) (rs : List RuleObj)
    (h : ∃ ke ∈ sec, ke.1 ≠ "global" ∧ ke.1 ≠ "group" ∧ ke.1 ∉ rs.map (·.id)) :
    ∃ k, ruleListConfigure sevs (some sec) dbg rs = .error (.config "unknownRule" k) ∧ k ∉ rs.map (·.id) := by
  obtain ⟨k, hk, hn⟩ := validate_error (rs.map (·.id)) sec h
  refine ⟨k, ?_, hn⟩
  unfold ruleListConfigure
  simp [bind, Except.bind, hk]

/-- configuring the id of a deprecated rule is never accepted: `rule_list.configure` does not return -/
theorem deprecated_rule_error (sevs : Option (List Sev)) (sec : RuleSec) (dbg : Option Bool) (rs rs' : List RuleObj)
    (r : RuleObj) (hr : r ∈ rs) (hd : r.deprecated = true) (hk : dhas sec r.id = true) :
    ruleListConfigure sevs (some sec) dbg rs ≠ .ok rs' := by
  intro h
  obtain ⟨hl, hp⟩ := ruleListConfigure_spec sevs (some sec) dbg rs rs' h
  obtain ⟨i, hi, hget⟩ := List.getElem_of_mem hr
  have h1 : rs[i]? = some r := by rw [List.getElem?_eq_getElem hi, hget]
  obtain ⟨r', hr'⟩ := getElem?_of_length_eq rs rs' i r hl h1
  exact (hp i r r' h1 hr').notDeprecatedNamed sec rfl ⟨hd, hk⟩

/-- … and when nothing else is wrong the outcome is the ConfigurationError that lists the rule -/
example :
    let dep : RuleObj := { id := "architecture_002", groups := [], configuration := [], dict := [("disable", .bool true)],
                           severity := some ⟨"Error", "error"⟩, options := [], deprecated := true }
    ruleListConfigure (some builtinSevs) (some [("architecture_002", .attrs [("disable", .bool false)])]) (some false) [wRule, dep]
      = .error (.config "deprecated" "ERROR [config-001] Rule architecture_002 has been deprecated.") := by
  rfl

/-! ### severity names that do not exist (after the repo repair of the severity look-up in rule.py) -/

/-- one look-up (`get_configured_severity`): a name no severity of the list has is a ConfigurationError —
    the sibling of `unknown_rule_error`.  Before the repair the rule's severity became None here and the run
    ended in an AttributeError traceback when the rule list read `severity.type` -/
theorem unknown_severity_error (sl : List Sev) (r : RuleObj) (v : Val) (h : getSeverityNamed sl v = none) :
    setSeverity (some sl) r v = .error (.config "unknownSeverity" (sevNameStr v)) := by
  simp [setSeverity, h]

/-- … and a look-up that returns never leaves the rule without a severity -/
theorem configured_severity_defined (sl : List Sev) (r r' : RuleObj) (v : Val)
    (h : setSeverity (some sl) r v = .ok r') : ∃ s, r'.severity = some s ∧ getSeverityNamed sl v = some s := by
  unfold setSeverity at h
  cases hg : getSeverityNamed sl v with
  | none => simp [hg] at h
  | some s =>
    simp only [hg, Except.ok.injEq] at h
    subst h
    exact ⟨s, rfl, rfl⟩

/-- the rule's own entry `severity: <a name no severity has>`: `Rule.configure` does not return, the outcome
    is that configuration error, whatever else the entry holds behind it -/
theorem unknown_severity_rule_entry_error (sl : List Sev) (r : RuleObj) (v : Val) (rest : Attrs)
    (hd : r.deprecated = false) (h1 : r.id ≠ "global") (h2 : r.id ≠ "group") (h : getSeverityNamed sl v = none) :
    ruleConfigure (some sl) [(r.id, .attrs (("severity", v) :: rest))] r =
      .error (.config "unknownSeverity" (sevNameStr v)) := by
  unfold ruleConfigure
  simp [hd, configureGlobal, configureGroup, configureRuleAttrs, dget, h1, h2, bind, Except.bind, pure, Except.pure,
    List.foldlM_cons, assignRule, assignDict, setSeverity, h, Except.map]

/-- the reproduction of the former finding `severity.create_list.get_severity_named / traceback` on the model:
    `architecture_013: {severity: Critical}` without a `severity` section -/
example :
    ruleListConfigure (some builtinSevs) (some [("architecture_013", .attrs [("severity", .str "Critical")])]) (some false) [wRule]
      = .error (.config "unknownSeverity" "Critical") := by
  rfl

/-- non-vacuity: a built-in name is found -/
example : ∃ r', setSeverity (some builtinSevs) wRule (.str "Warning") = .ok r' ∧ r'.severity = some ⟨"Warning", "warning"⟩ :=
  ⟨_, rfl, rfl⟩

/-! ### the effective value is the one the engine acts on -/

/-- a rule whose effective `disable` is true is never invoked by a fix run, whatever its semantics -/
theorem disable_silences (r' : RuleObj) (prereq : Bool) (cfg : RuleCfg) (sem : RuleSem) (v : Val)
    (hcfg : toRuleCfg r' prereq = some cfg) (hv : dget r'.dict "disable" = some v) (ht : v.truthy = true)
    (rs : List Rule) (fixPhase : Nat) (skip : List Nat) : some (cfg, sem) ∉ schedule rs fixPhase skip := by
  intro hm
  have := (C03.schedule_sound rs fixPhase skip (cfg, sem) hm).2.1
  unfold toRuleCfg at hcfg
  split at hcfg
  · rename_i s p sp d f _ _ _ hd _
    simp only [Option.some.injEq] at hcfg
    subst hcfg
    rw [hv] at hd
    cases hd
    simp [ht] at this
  · cases hcfg

/-- … nor analysed by `check_rules` -/
theorem disable_silences_check (r' : RuleObj) (prereq : Bool) (cfg : RuleCfg) (sem : RuleSem) (v : Val)
    (hcfg : toRuleCfg r' prereq = some cfg) (hv : dget r'.dict "disable" = some v) (ht : v.truthy = true)
    (rs : List Rule) (p s : Nat) : (cfg, sem) ∉ subphaseRulesCheck rs p s := by
  intro hm
  unfold subphaseRulesCheck at hm
  simp only [List.mem_filter, Bool.not_eq_true'] at hm
  have := hm.2
  unfold toRuleCfg at hcfg
  split at hcfg
  · rename_i s p sp d f _ _ _ hd _
    simp only [Option.some.injEq] at hcfg
    subst hcfg
    rw [hv] at hd
    cases hd
    simp [ht] at this
  · cases hcfg

/-- a rule whose effective `fixable` is false is report-only: `Rule.fix` returns the file unchanged and
    does not set had_violations -/
theorem fixable_false_report_only (r' : RuleObj) (prereq : Bool) (cfg : RuleCfg) (sem : RuleSem) (v : Val)
    (hcfg : toRuleCfg r' prereq = some cfg) (hv : dget r'.dict "fixable" = some v) (ht : v.truthy = false)
    (fo : Option FixOnly) (f : List Tok) : ruleFix cfg sem fo f = (f, false) := by
  apply C03.ruleFix_unfixable
  unfold toRuleCfg at hcfg
  split at hcfg
  · rename_i s p sp d fx _ _ _ _ hf
    simp only [Option.some.injEq] at hcfg
    subst hcfg
    rw [hv] at hf
    cases hf
    exact ht
  · cases hcfg

/-- a rule whose effective severity is of the warning type is only analysed inside a fix run -/
theorem severity_warning_not_fixed (r' : RuleObj) (prereq : Bool) (cfg : RuleCfg) (sem : RuleSem) (s : Sev)
    (hcfg : toRuleCfg r' prereq = some cfg) (hs : r'.severity = some s) (ht : s.type ≠ "error")
    (fo : Option FixOnly) (st : List Tok × Bool) : stepRule fo st (cfg, sem) = st := by
  apply C03.stepRule_warning
  unfold toRuleCfg at hcfg
  split at hcfg
  · rename_i s' p sp d fx hs' _ _ _ _
    simp only [Option.some.injEq] at hcfg
    subst hcfg
    rw [hs] at hs'
    cases hs'
    simp [ht]
  · cases hcfg

/-! ### table facts, re-checked against the regenerated rule table -/

/-- every name in a rule's `configuration` list is an attribute of the rule object, so the global-level
    guard (`in self.configuration`) never creates an attribute and the guards of the three levels agree
    on configurable attributes -/
theorem configuration_in_dict : ∀ r ∈ Gen.ruleTable, r.configInDict = true := by decide +kernel

/-- no rule is called `global` or `group` -/
theorem no_reserved_ids : ∀ r ∈ Gen.ruleTable, r.id ≠ "global" ∧ r.id ≠ "group" := by decide +kernel

end Vsgm.C12
