/-
  C13 — phase gating, --all_phases, --fix_phase and skip_phase mean what they say.
  ONLY property theorems and their non-vacuity examples live here.

  `checkRun ap skip rs f` is `clear_violations(); check_rules(bAllPhases=ap, lSkipPhase=skip)` on the
  rule objects `rs` and the token list `f` (any rule semantics, any configuration of phase /
  sub-phase / disable / severity).  A check run is read-only on `f`: every analysis of the run,
  in whichever phase, sees the same token list.  `reportRecs` is `dRunInfo["violations"]`.
-/
import VsgModel.Engine.CheckRules
import VsgModel.Engine.Report
import VsgModel.Engine.Stub
import VsgProofs.Lemmas.Engine
import VsgProofs.Lemmas.CheckRules
import VsgProofs.Lemmas.Report
import VsgProofs.Lemmas.FixTrace
import VsgProofs.Lemmas.EngineReport
namespace Vsgm.C13
open Vsgm Vsgm.Lemmas

/-! ### closed form of `check_rules` -/

/-- which rules `check_rules --all_phases` analyses: enabled, phase 1 … 7 and not skipped, sub-phase 0 … 5 -/
def analysedAllPhases (skip : List Nat) (r : CRule) : Prop :=
  (1 ≤ r.cfg.phase ∧ r.cfg.phase ≤ 7) ∧ (∀ p ∈ skip, (p : Int) ≠ r.cfg.phase) ∧
  (0 ≤ r.cfg.subphase ∧ r.cfg.subphase ≤ 5) ∧ r.cfg.disabled = false

/-- `check_rules` analyses (once) exactly the rules selected by `ranBy` and leaves every other
    rule object untouched; the list order of the rule objects is kept.  For any initial content
    of `rule.violations` and any `lastPhaseRan`. -/
theorem check_rules_closed_form (ap : Bool) (skip : List Nat) (rs : List CRule) (f : List Tok) (last0 : Nat) :
    (checkRules ap skip rs f last0).rules = rs.map (fun r => if ranBy ap skip rs f r then r.analyze f else r) :=
  checkRules_rules ap skip rs f last0

theorem analysed_allPhases_iff (skip : List Nat) (rs : List CRule) (f : List Tok) (r : CRule) :
    ranBy true skip rs f r = true ↔ analysedAllPhases skip r :=
  ranBy_allPhases_iff skip rs f r

/-- gated: the rules of an all-phases run whose phase is at most the first failing phase -/
theorem analysed_gated_iff (skip : List Nat) (rs : List CRule) (f : List Tok) (r : CRule) :
    ranBy false skip rs f r = true ↔
      analysedAllPhases skip r ∧ uptoFirstFailing (firstFailing skip rs f) r.cfg.phase = true := by
  rw [ranBy_gated, Bool.and_eq_true, analysed_allPhases_iff]

/-- the first failing phase is a non-skipped phase 1 … 7 in which an error-type violation is
    counted, and no earlier non-skipped phase has one -/
theorem firstFailing_spec (skip : List Nat) (rs : List CRule) (f : List Tok) (p : Nat)
    (h : firstFailing skip rs f = some p) :
    (1 ≤ p ∧ p ≤ 7) ∧ p ∉ skip ∧ 0 < errIn rs f p ∧
      ∀ q, (1 ≤ q ∧ q ≤ 7) → q ∉ skip → q < p → errIn rs f q = 0 := by
  unfold firstFailing at h
  have hmem := List.mem_of_find?_eq_some h
  have hp := List.find?_some h
  rw [mem_activePhases] at hmem
  refine ⟨hmem.1, hmem.2, by simpa using hp, ?_⟩
  intro q hq hqs hlt
  -- `activePhases` is sorted: every active phase before `p` was rejected by `find?`
  have hsorted : (activePhases skip).Pairwise (· < ·) := List.Pairwise.filter _ allPhasesList_sorted
  have hqa : q ∈ activePhases skip := (mem_activePhases skip q).mpr ⟨hq, hqs⟩
  generalize activePhases skip = l at h hsorted hqa
  induction l with
  | nil => simp at h
  | cons a l ih =>
    have hs := List.pairwise_cons.mp hsorted
    rw [List.find?_cons] at h
    by_cases ha : decide (errIn rs f a > 0) = true
    · simp only [ha] at h
      cases h
      rcases List.mem_cons.mp hqa with rfl | hq'
      · omega
      · have := hs.1 q hq'; omega
    · simp only [ha] at h
      rcases List.mem_cons.mp hqa with rfl | hq'
      · simpa using ha
      · exact ih h hs.2 hq'

/-- an error-type violation is counted in phase `p` iff some enabled error-type rule of that
    phase (sub-phase 0 … 5) holds a violation after its analysis -/
theorem errIn_pos_iff (rs : List CRule) (f : List Tok) (p : Nat) :
    0 < errIn rs f p ↔ ∃ r ∈ rs, r.runsIn p = true ∧ r.cfg.sevError = true ∧ (r.analyze f).viols ≠ [] := by
  unfold errIn
  rw [sum_map_pos_iff]
  constructor
  · rintro ⟨s, hs, h⟩
    rw [sum_map_pos_iff] at h
    obtain ⟨r, hr, he⟩ := h
    rw [List.mem_filter] at hr
    refine ⟨r, hr.1, ?_, ?_, ?_⟩
    · exact List.any_eq_true.mpr ⟨s, hs, hr.2⟩
    · unfold errOf at he; by_cases hse : r.cfg.sevError = true
      · exact hse
      · simp [hse] at he
    · unfold errOf at he
      intro hnil
      rw [hnil] at he
      split at he <;> simp at he
  · rintro ⟨r, hr, hrun, hse, hne⟩
    obtain ⟨s, hs, hin⟩ := List.any_eq_true.mp hrun
    refine ⟨s, hs, ?_⟩
    rw [sum_map_pos_iff]
    refine ⟨r, List.mem_filter.mpr ⟨hr, hin⟩, ?_⟩
    unfold errOf
    simp only [hse, if_true]
    exact List.length_pos_iff.mpr hne

/-! ### the gated report is the phase-prefix of the all-phases report -/

/-- per rule object: a gated run leaves in `rule.violations` what the all-phases run leaves,
    emptied for the rules of phases after the first failing phase -/
theorem gated_rules_eq (skip : List Nat) (rs : List CRule) (f : List Tok) :
    (checkRun false skip rs f).rules =
      (checkRun true skip rs f).rules.map (fun r =>
        if uptoFirstFailing (firstFailing skip (clearViolations rs) f) r.cfg.phase then r else r.clear) := by
  unfold checkRun
  rw [checkRules_rules, checkRules_rules, List.map_map]
  apply List.map_congr_left
  intro r hr
  have hv := clear_viols rs r hr
  simp only [Function.comp, anaIf]
  rw [ranBy_gated]
  by_cases ha : ranBy true skip (clearViolations rs) f r = true
  · by_cases hu : uptoFirstFailing (firstFailing skip (clearViolations rs) f) r.cfg.phase = true
    · have : uptoFirstFailing (firstFailing skip (clearViolations rs) f) (r.analyze f).cfg.phase = true := hu
      simp [ha, hu, this]
    · have : ¬ uptoFirstFailing (firstFailing skip (clearViolations rs) f) (r.analyze f).cfg.phase = true := hu
      simp only [ha, hu, Bool.and_false, Bool.false_eq_true, if_false, if_true, this]
      cases r; simp only [CRule.clear, CRule.analyze] at hv ⊢; simp [hv]
  · by_cases hu : uptoFirstFailing (firstFailing skip (clearViolations rs) f) r.cfg.phase = true
    · simp [ha, hu]
    · simp only [ha, Bool.false_and, Bool.false_eq_true, if_false, hu]
      cases r; simp only [CRule.clear] at hv ⊢; simp [hv]

/-- **gating**: the report without `--all_phases` is the report with `--all_phases` restricted to
    the rules whose phase is at most the first failing phase `p*` (everything when no phase fails).
    The stable sort by line commutes with the restriction.  For every rule list, rule semantics,
    phase / sub-phase / disable / severity configuration, skip set and input. -/
theorem gated_is_prefix (skip : List Nat) (rs : List CRule) (f : List Tok) :
    reportRecs (checkRun false skip rs f).rules =
      (reportRecs (checkRun true skip rs f).rules).filter
        (fun rec => uptoFirstFailing (firstFailing skip (clearViolations rs) f) rec.phase) := by
  rw [reportRecs_eq, reportRecs_eq, sortByLine_filter, gated_rules_eq,
    allRecs_map_clear_filter (fun ph => uptoFirstFailing (firstFailing skip (clearViolations rs) f) ph)]

/-- the exit flag (`oRules.violations`) is the same with and without `--all_phases`, for any
    initial content of the rule objects -/
theorem gated_exit_eq_allphases_exit (skip : List Nat) (rs : List CRule) (f : List Tok) (last0 : Nat) :
    (checkRules false skip rs f last0).viol = (checkRules true skip rs f last0).viol := by
  rw [checkRules_viol, checkRules_viol, checkRules_failures, checkRules_failures]
  congr 1
  apply propext
  rw [gt_iff_lt, gt_iff_lt, sum_map_pos_iff, sum_map_pos_iff]
  unfold executed
  simp only [Bool.false_eq_true, if_false, if_true, List.mem_filter]
  constructor
  · rintro ⟨p, ⟨hp, _⟩, he⟩; exact ⟨p, hp, he⟩
  · rintro ⟨p, hp, he⟩
    cases hff : firstFailing skip rs f with
    | none => exact ⟨p, ⟨hp, by simp [uptoFirstFailing]⟩, he⟩
    | some q =>
      have hq := firstFailing_spec skip rs f q hff
      refine ⟨q, ⟨(mem_activePhases skip q).mpr ⟨hq.1, hq.2.1⟩, by simp [uptoFirstFailing]⟩, hq.2.2.1⟩

/-! ### skipped / out-of-range phases -/

/-- a skipped phase is not reported, and every reported violation comes from an enabled rule of a
    phase 1 … 7 and a sub-phase 0 … 5 (with or without `--all_phases`) -/
theorem skip_not_reported (ap : Bool) (skip : List Nat) (rs : List CRule) (f : List Tok) (rec : Rec)
    (h : rec ∈ reportRecs (checkRun ap skip rs f).rules) :
    (∀ p ∈ skip, (p : Int) ≠ rec.phase) ∧ 1 ≤ rec.phase ∧ rec.phase ≤ 7 := by
  obtain ⟨r, _, hran, hph, _⟩ := report_origin ap skip rs f rec h
  have ha : analysedAllPhases skip r := by
    cases ap with
    | true => exact (analysed_allPhases_iff ..).mp hran
    | false => exact ((analysed_gated_iff ..).mp hran).1
  rw [hph]
  exact ⟨ha.2.1, ha.1.1, ha.1.2⟩

/-- a rule whose phase is outside 1 … 7, or skipped, or whose sub-phase is outside 0 … 5, or which
    is disabled, is never analysed by `check_rules`: its rule object is returned unchanged -/
theorem out_of_range_phase_never_runs (ap : Bool) (skip : List Nat) (rs : List CRule) (f : List Tok) (r : CRule)
    (h : ¬ analysedAllPhases skip r) : ranBy ap skip rs f r = false := by
  rw [Bool.eq_false_iff]
  intro hran
  cases ap with
  | true => exact h ((analysed_allPhases_iff ..).mp hran)
  | false => exact h ((analysed_gated_iff ..).mp hran).1

/-- counters: `iNumberRulesRan` is the number of rules analysed, `lastPhaseRan` the last executed
    phase (unchanged when every phase is skipped) -/
theorem rules_ran_count (ap : Bool) (skip : List Nat) (rs : List CRule) (f : List Tok) (last0 : Nat) :
    (checkRules ap skip rs f last0).nran = ((executed ap skip rs f).map (ranIn rs)).sum ∧
    (checkRules ap skip rs f last0).lastPhase = ((executed ap skip rs f).getLast?).getD last0 := by
  refine ⟨checkRules_nran ap skip rs f last0, ?_⟩
  rw [checkRules_eq_runPhases, runPhases_lastPhase]; rfl

/-! ### `--fix_phase N` and skipped phases in a fix run -/

/-- every `_fix_violation` invoked by `rule_list.fix(N, skip, dFixOnly)` belongs to an enabled,
    fixable, error-type rule of a phase 1 … N that is not skipped and a sub-phase 0 … 5: no rule of
    a phase > N, of a skipped phase or of an out-of-range (sub-)phase fixes anything -/
theorem fixRun_phase_bound (rs : List Rule) (fixPhase : Nat) (skip : List Nat) (fo : Option FixOnly)
    (post : List Tok → List Tok) (f : List Tok) (ev : FixEv) (h : ev ∈ fixTrace rs fixPhase skip fo post f) :
    ev.rule ∈ rs ∧ ev.rule.1.disabled = false ∧ (1 : Int) ≤ ev.rule.1.phase ∧ ev.rule.1.phase ≤ (fixPhase : Int) ∧
      (∀ p ∈ skip, (p : Int) ≠ ev.rule.1.phase) ∧ (0 : Int) ≤ ev.rule.1.subphase ∧ ev.rule.1.subphase ≤ 5 ∧
      ev.rule.1.sevError = true ∧ ev.rule.1.fixable = true := by
  obtain ⟨hmem, hse, hfx, _⟩ := mem_traceFrom fo post _ f ev h
  obtain ⟨h1, h2, h3, h4, h5, h6, h7⟩ := schedule_sound rs fixPhase skip ev.rule hmem
  exact ⟨h1, h2, h3, h4, h5, h6, h7, hse, hfx⟩

/-- `had_violations` (which alone triggers the write-back) is set exactly when some
    `_fix_violation` is invoked -/
theorem had_violations_iff_fixed (rs : List Rule) (fixPhase : Nat) (skip : List Nat) (fo : Option FixOnly)
    (post : List Tok → List Tok) (f : List Tok) :
    (fixRun rs fixPhase skip fo post f).2 = (fixTrace rs fixPhase skip fo post f).any (fun ev => !ev.fixed.isEmpty) := by
  unfold fixRun fixTrace
  rw [foldl_stepOpt_had]; simp

/-! ### non-vacuity -/

def exRule (id : String) (phase : Int) (sevError : Bool) (k : StubKind) : CRule :=
  { cfg := { id := id, phase := phase, subphase := 1, disabled := false, fixable := true, sevError := sevError, prereq := false },
    sem := k.sem, sevName := if sevError then "Error" else "Warning", userMsg := "", sol := k.sol, viols := [] }

def exFile : List Tok := [⟨7, .code, ['A']⟩, ⟨1, .ws, [' ', ' ']⟩, ⟨7, .code, ['b']⟩, ⟨2, .cr, ['\n']⟩, ⟨7, .code, ['C']⟩]

def exRules : List CRule :=
  [exRule "late_001" 6 true (.setVal 7 ['b']), exRule "warn_001" 1 false (.delete 1), exRule "ws_001" 2 true (.setVal 1 [' ']),
   exRule "never_001" 8 true (.delete 7)]

/-- a gated run that stops after phase 2 and reports a strict part of the all-phases report -/
example : firstFailing [] (clearViolations exRules) exFile = some 2 := by decide
example : (reportRecs (checkRun false [] exRules exFile).rules).length = 2 ∧
    (reportRecs (checkRun true [] exRules exFile).rules).length = 4 := by decide
example : (checkRun false [] exRules exFile).lastPhase = 2 ∧ (checkRun true [] exRules exFile).lastPhase = 7 := by decide
example : (fixTrace (exRules.map CRule.toRule) 2 [] none id exFile).length = 1 := by decide

end Vsgm.C13
