/-
  C09 — fixing converges: a second --fix changes nothing.
  Full statement:  for all accepted inputs x and configurations c,
      fix_c (fix_c x) = fix_c x,  and the sequence fix_cⁿ x is eventually constant with no cycle.
  The convergence of the real rule set is emergent from ~960 unmodelled analyses; what is proved
  here is the REDUCTION the harness evaluates on every explored first output `out = fix_c x`:
    (H1) every scheduled, error-type, fixable rule reports nothing fixable on `out`
         (its analysis, after the --fix_only filter, is empty),
    (H2) the post-phase-1 normalisation (fix_blank_lines ∘ fix_trailing_whitespace) is the identity on `out`,
    (H3) parsing the written text gives `out` back (C08),
  ⇒ the second run returns `out` and does not even set `had_violations` (`fixRun_fixpoint`);
  and, for any function, a fixpoint after one step excludes every cycle (`no_cycle_of_fixpoint`),
  two equal neighbours make the sequence constant, and a repetition without equal neighbours is a
  genuine cycle — which is exactly what the bounded detector of the harness reports
  (`classify_converged_sound`, `classify_cycle_sound`).
  ONLY property theorems and their non-vacuity examples live here.
-/
import VsgModel.Engine.RuleRun
import VsgProofs.Lemmas.Engine
import VsgProofs.Lemmas.Iterate
import VsgProofs.Lemmas.SortByStart
import VsgProofs.Properties.C10   -- wp2c_selstable
namespace Vsgm.C09
open Vsgm Vsgm.Iter

/-- a rule whose (filtered) analysis is empty leaves the file alone and does not set had_violations -/
theorem ruleFix_of_no_violation (r : RuleCfg) (sem : RuleSem) (fo : Option FixOnly) (f : List Tok)
    (h : filterFixOnly fo r.id (sem.analyze f) = []) : ruleFix r sem fo f = (f, false) := by
  have h' := (Lemmas.filterFixOnly_sort_nil fo r.id (sem.analyze f)).mpr h
  unfold ruleFix
  split
  · simp [h', update]
  · rfl

/-- **reduction, engine part** (`_partial`: the hypotheses are about the real analyses and are
    evaluated by the harness on each explored output, they are not proved for the ~960 rules):
    if every scheduled error-type fixable rule finds nothing to fix on `out` and the
    post-phase-1 normalisation is the identity on `out`, then a whole fix run on `out` returns
    `out` unchanged and reports `had_violations = false` (so the file is not even rewritten) -/
theorem fixRun_fixpoint (rs : List Rule) (fixPhase : Nat) (skip : List Nat) (fo : Option FixOnly)
    (post : List Tok → List Tok) (out : List Tok)
    (hr : ∀ r, some r ∈ schedule rs fixPhase skip → r.1.sevError = true → r.1.fixable = true →
      filterFixOnly fo r.1.id (r.2.analyze out) = [])
    (hp : post out = out) : fixRun rs fixPhase skip fo post out = (out, false) := by
  unfold fixRun
  suffices h : ∀ (l : List (Option Rule)), (∀ o ∈ l, o ∈ schedule rs fixPhase skip) →
      l.foldl (stepOpt fo post) (out, false) = (out, false) from h _ (fun _ ho => ho)
  intro l
  induction l with
  | nil => intro _; rfl
  | cons o l ih =>
    intro hl
    have ho := hl o (List.mem_cons_self ..)
    have hstep : stepOpt fo post (out, false) o = (out, false) := by
      cases o with
      | none => simp [stepOpt, hp]
      | some r =>
        simp only [stepOpt, stepRule]
        split
        · rename_i hs
          by_cases hf : r.1.fixable = true
          · rw [ruleFix_of_no_violation _ _ _ _ (hr r ho hs hf)]; rfl
          · have hf' : r.1.fixable = false := by simpa using hf
            simp [ruleFix, hf']
        · rfl
    rw [List.foldl_cons, hstep]
    exact ih (fun o' ho' => hl o' (List.mem_cons_of_mem _ ho'))

/-- the same with the third hypothesis made explicit: what the user's second `vsg --fix` works
    on is the fresh parse of the written text -/
theorem second_fix_unchanged_partial (rs : List Rule) (fixPhase : Nat) (skip : List Nat)
    (fo : Option FixOnly) (post reparse : List Tok → List Tok) (out : List Tok)
    (hre : reparse out = out)
    (hr : ∀ r, some r ∈ schedule rs fixPhase skip → r.1.sevError = true → r.1.fixable = true →
      filterFixOnly fo r.1.id (r.2.analyze out) = [])
    (hp : post out = out) :
    fixRun rs fixPhase skip fo post (reparse out) = (out, false) := by
  rw [hre]; exact fixRun_fixpoint rs fixPhase skip fo post out hr hp

/-- `fix (fix x) = fix x` ⇒ the sequence `fixⁿ x` is constant from `n = 1` on -/
theorem no_cycle_of_fixpoint {α : Type} (fix : α → α) (x : α) (h : fix (fix x) = fix x) :
    ∀ n, 1 ≤ n → iter fix n x = fix x :=
  fun n hn => const_after fix x 1 h n hn

/-- … in particular there is no 2-cycle or longer cycle through `fix x`: any two elements of
    the sequence from index 1 on are equal -/
theorem no_cycle_of_fixpoint_pair {α : Type} (fix : α → α) (x : α) (h : fix (fix x) = fix x)
    (n m : Nat) (hn : 1 ≤ n) (hm : 1 ≤ m) : iter fix n x = iter fix m x := by
  rw [no_cycle_of_fixpoint fix x h n hn, no_cycle_of_fixpoint fix x h m hm]

/-- two equal neighbours anywhere make the sequence constant from there on -/
theorem eventually_constant_of_consecutive_eq {α : Type} (fix : α → α) (x : α) (n : Nat)
    (h : iter fix (n + 1) x = iter fix n x) : ∀ m, n ≤ m → iter fix m x = iter fix n x :=
  const_after fix x n h

/-- a repetition `fixⁿ x = fixᵐ x` (`n < m`) with no equal neighbours in between is a genuine
    cycle: the sequence is periodic and never becomes constant -/
theorem genuine_cycle {α : Type} (fix : α → α) (x : α) (n m : Nat) (hnm : n < m)
    (h : iter fix n x = iter fix m x)
    (hne : ∀ i, n ≤ i → i < m → iter fix (i + 1) x ≠ iter fix i x) :
    (∀ k, iter fix (n + k) x = iter fix (m + k) x) ∧ (∀ j, n ≤ j → iter fix (j + 1) x ≠ iter fix j x) :=
  ⟨fun k => shift_eq fix x n m k h, cycle_never_constant fix x n m hnm h hne⟩

/-- **what the harness detects, 1**: if the detector, run on the observed prefix
    `x, fix x, …, fix^N x`, answers `converged k`, the whole infinite sequence is constant from `k` on -/
theorem classify_converged_sound {α : Type} [DecidableEq α] (fix : α → α) (x : α) (N k : Nat)
    (h : classify (observed fix x N) = .converged k) : ∀ m, k ≤ m → iter fix m x = iter fix k x := by
  unfold classify at h
  split at h
  · rename_i k' hk
    cases h
    obtain ⟨j, hj, a, h1, h2⟩ := firstConsecEq_spec _ 0 k hk
    have hjk : j = k := by omega
    subst hjk
    obtain ⟨_, e1⟩ := observed_get fix x N j a h1
    obtain ⟨_, e2⟩ := observed_get fix x N (j + 1) a h2
    exact const_after fix x j (by rw [← e2, ← e1])
  · split at h <;> cases h

/-- **what the harness detects, 2**: if the detector answers `cycle n m`, then `n < m ≤ N`,
    `fixⁿ x = fixᵐ x`, and the sequence never becomes constant — a genuine cycle -/
theorem classify_cycle_sound {α : Type} [DecidableEq α] (fix : α → α) (x : α) (N n m : Nat)
    (h : classify (observed fix x N) = .cycle n m) :
    n < m ∧ m ≤ N ∧ iter fix n x = iter fix m x ∧ ∀ j, n ≤ j → iter fix (j + 1) x ≠ iter fix j x := by
  unfold classify at h
  split at h
  · cases h
  · rename_i hnone
    split at h
    · rename_i n' m' hrep
      cases h
      obtain ⟨hnm, hm, heq⟩ := findRepeat_spec _ n m hrep
      have hlen : (observed fix x N).length = N + 1 := by simp [observed]
      have hmN : m ≤ N := by omega
      have hgm : (observed fix x N)[m]? = some (iter fix m x) := by
        simp [observed, List.getElem?_map, List.getElem?_range (by omega : m < N + 1)]
      have hgn : (observed fix x N)[n]? = some (iter fix n x) := by
        simp [observed, List.getElem?_map, List.getElem?_range (by omega : n < N + 1)]
      have heq' : iter fix n x = iter fix m x := by
        rw [hgm, hgn] at heq; exact Option.some.inj heq
      refine ⟨hnm, hmN, heq', ?_⟩
      apply cycle_never_constant fix x n m hnm heq'
      intro i hi1 hi2
      have hgi : (observed fix x N)[i]? = some (iter fix i x) := by
        simp [observed, List.getElem?_map, List.getElem?_range (by omega : i < N + 1)]
      have hgi1 : (observed fix x N)[i + 1]? = some (iter fix (i + 1) x) := by
        simp [observed, List.getElem?_map, List.getElem?_range (by omega : i + 1 < N + 1)]
      exact fun e => firstConsecEq_none_ne _ 0 hnone i _ _ hgi hgi1 e.symm
    · cases h

/-! ### non-vacuity -/

/-- a converging map: detector says converged at 1 -/
example : classify (observed (fun n : Nat => n / 2 * 2) 5 5) = .converged 1 := by decide

/-- a 2-cycle (the shape of the findings: two rules undoing each other): detector says cycle -/
example : classify (observed (fun n : Nat => if n = 1 then 2 else 1) 0 5) = .cycle 1 3 := by decide

/-- the hypotheses of `fixRun_fixpoint` are satisfiable with a rule that does fix something
    elsewhere: a rule deleting every token of class 7 has nothing to do on a list without one -/
example :
    let sem : RuleSem := { analyze := fun f => (f.zipIdx.filter (fun p => p.1.cls == 7)).map (fun p => ⟨0, p.2, [p.1], 0⟩), fixV := fun _ => [] }
    let r : Rule := (⟨"r", 1, 0, false, true, true, false⟩, sem)
    let t (c : Nat) : Tok := ⟨c, .code, ['a']⟩
    (fixRun [r] 7 [] none id [t 1, t 7, t 2]).1 = [t 1, t 2] ∧
    fixRun [r] 7 [] none id [t 1, t 2] = ([t 1, t 2], false) := by decide

/-! ### BEGIN wp2c_selstable (token_indent, 102 rules: one-step convergence of the rule's own fix) -/

section wp2c_selstable
open BFull2

/-- **one-step convergence for the whole indent family**: iterating a token_indent rule's `Rule.fix` (any of the four
    extractors) the sequence of files is constant from the first application on — no oscillation, no growth — for every
    token list, indent assignment, size and both styles (guards as in `C10.bfull2_indent_idem_all`) -/
theorem bfull2_indent_converges (r : RuleCfg) (uid : Tok → Option TM.Key) (P : Params) (ind : Oracle) (f : List Tok)
    (hf : r.fixable = true) (hcs : CsOk P.cs) (hs : StyleOk P) (hu : UidOk uid P) (hP : VarOk P)
    (hb : ∀ t ∈ f, t.isBof = false) :
    ∀ n, 1 ≤ n → iter (fun x => (ruleFix r (sem uid P ind) none x).1) n f = (ruleFix r (sem uid P ind) none f).1 := by
  apply no_cycle_of_fixpoint
  have := C10.bfull2_indent_second_fix_all r uid P ind f hf hcs hs hu hP hb
  show (ruleFix r (sem uid P ind) none (ruleFix r (sem uid P ind) none f).1).1 = (ruleFix r (sem uid P ind) none f).1
  rw [this]

end wp2c_selstable

/-! ### END wp2c_selstable -/


end Vsgm.C09
