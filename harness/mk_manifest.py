"""Writes /verif/MANIFEST.json from the table below (development aid, run by hand)."""
import json
import os

VERIF = os.path.dirname(os.path.dirname(os.path.abspath(__file__)))

COMMON_NOTE = (
    "Trusted base: Lean 4.33 kernel (axioms of every property theorem audited on each run to be within propext / Classical.choice / "
    "Quot.sound; no sorry, native_decide, bv_decide or own axioms — grep on each run); the hand-written Lean models under lean/VsgModel "
    "(tied to /repo only by the correspondence runs of the check, on the explored inputs); the translator harness/gen_tables.py (prints "
    "instantiated rule objects, token classes, docs labels, CPython str predicates as Lean tables, regenerated on every run); the Python "
    "harness (instrumentation by wrapping from outside, wire encoding, canonicalisation); CPython, PyYAML, POSIX file semantics. "
)

CHECKS = {
    "C01": {
        "text": "Lean theorems (for all token lists, edits, rule semantics): vhdlFile.update over a sorted disjoint in-range chain of violations preserves any concatenation-compatible projection or congruence (update_hom / update_rel), instantiated for the folded code-token sequence; layout-only and case-only steps preserve it; soundness of the certificate checker's edit classes (insert/delete/parens/split: subsequence facts). Tie: every changed step of instrumented full-rule-set fix runs (all 2609 corpus files + re-layout variants + random configurations) is replayed through the Lean model of update (must reproduce the real token list) and judged by the Lean step checker against the edit class of the rule's _fix_violation owner. P-full for the engine; rules' own _fix_violation functions are layer U: decided per explored run (certificate), not for all inputs.",
        "technique": "Lean 4 proof (update homomorphism, relation algebra) + Lean-checked trace certificates of real fix runs",
        "ref": "DESIGN.md §2.2, §3 C01",
    },
    "C02": {
        "text": "Lean theorems: update preserves the comment/pragma/preprocessor sequence when every violation does; layout-only and case-only steps preserve it; commentEndsLine characterises 'the token after a -- comment is a line break'. Tie: same replayed runs as C01; per step the Lean checker compares comment sequences (modulo blanks for the two documented comment-whitespace rules, removal only for the documented remover base classes) and tests that no comment starts absorbing code. Engine P-full; rule bodies certificate-only.",
        "technique": "Lean 4 proof (update homomorphism for the comment projection) + Lean-checked trace certificates",
        "ref": "DESIGN.md §3 C02",
    },
    "C03": {
        "text": "Lean theorems for ANY rule semantics: unfixable / fixable:false rules and warning severities never change the file (ruleFix_unfixable, stepRule_warning), every rule invoked by rule_list.fix is enabled and inside phases 1..fixPhase minus skipped, sub-phases 0..5 (schedule_sound), invariant principle for whole runs, inert runs are the identity; update lifts per-violation layout-only to the file; table facts re-proved by `decide +kernel` against the regenerated table of all 1049 rules (phase 7 unfixable; only unfixable rules override fix; docs labels state the real phase and severity; group ↔ phase). Tie: per step of real runs the Lean checker decides identical / layout-only / case-only from the rule's group and its configured fixable/disable/severity.",
        "technique": "Lean 4 proof (engine for all rule semantics, decide over regenerated rule table) + Lean-checked trace certificates",
        "ref": "DESIGN.md §3 C03",
    },
    "C04": {
        "text": "Lean theorems for ALL Unicode strings and all character tables: tokens.create only regroups characters (create_flatten, every one of the nine passes), never yields an empty token (create_no_empty), never indexes out of range; the line layer (read_vhdlfile line splitting, rstrip, blank / whitespace / comment / delimited-comment / preprocessor classification with its cross-line state) is lossless and total for every line and state (classifyLine_flatten, classifyLine_total, readLines_line_end_independent); emit∘parse = identity on the lines read under the per-file contract that the productions refine tokens value-preservingly (getLines_processLines_partial; contract checked per parsed file); the file is written iff --fix and some _fix_violation was invoked (write_iff, no_fix_no_write, clean_file_no_write). Tie: pass-by-pass correspondence of the tokenizer model with vsg/tokens.py exhaustively over all strings up to length 4 (thorough: 5) over a 25-symbol delimiter alphabet plus random Unicode and every corpus line; token-by-token correspondence of the line layer on corpus, variants and comment/line-end stress files through real temp files; real apply_rules / CLI runs with stat before and after.",
        "technique": "Lean 4 proof for all strings (tokenizer, line layer) + exhaustive-to-a-bound correspondence with the Python implementation",
        "ref": "DESIGN.md §2.1, §3 C04",
        "note": "The 246 classifier productions are not modelled: their value-preservation is the explicit Refines contract, checked on every parsed file of the run.",
    },
    "C05": {
        "text": "What is proved in Lean, for all token lists: the classifier's navigation primitives (find_next_token, find_next_non_whitespace_token, are_next/previous_consecutive_token_types_ignoring_whitespace, is_next_token) factor through the code view of the list (prims_*), with `decide` witnesses for the primitives and call patterns that do NOT (direct neighbour look-ups, value scans that read delimited-comment text); the four post passes commute with re-layout under three explicit guards each shown necessary (postPasses_relayout_partial); resizing a whitespace token of tokens.create's output changes no other token under two guards shown necessary (create_relayout_partial, 2 900 lines of lemmas). The 246 classifier productions (~8 300 lines) are NOT modelled: for them the property is decided per explored (file, re-layout) pair on the real parser — all 2 609 corpus files × re-layout families (whitespace, tabs, line splits/joins, comments at line ends and on own lines incl. delimited comments, case) produced by a generator whose output an independent scanner certifies to be a pure re-layout — with the role comparison executed by the Lean driver (compareRoles_same_iff) and a watchdog for non-terminating parses. Correspondence of every modelled primitive and post pass against the real functions on real classified lists.",
        "technique": "Lean 4 proof (primitives, post passes, tokenizer under re-layout) + Lean-compared role sequences of re-laid-out corpus files through the real parser",
        "ref": "DESIGN.md §3 C05",
        "note": "This is where the technique reaches least: the productions are layer U. set_token_indent is not modelled.",
    },
    "C08": {
        "text": "Lean theorems: emit_retokenise_partial — a line whose values are quote/backslash-free, alternate single whitespace values with segments that re-tokenise to themselves, is given back unchanged by the tokenizer model (for all tables satisfying TablesOk, proved for /repo's tables), via the compositionality lemma create_ws_compositional; whitespace_resize_retokenises; report_after_fix_eq (if the fresh parse equals the in-memory model, the report printed after --fix is the report of a fresh check); `decide` examples of lines that do not re-tokenise. Tie/search on the real code: after a real fix run the emitted text is parsed afresh and compared per token (class, value, indent) with the in-memory model, the first diverging step localised by bisection over an instrumented run; every emitted line goes through the Lean retok mode (well-formedness + re-tokenisation, 0 disagreements with the real tokenizer); reports of the fix run vs a fresh run, also with --fix_phase < 4 and phase 4 skipped; CLI fix-then-check runs.",
        "technique": "Lean 4 proof (re-tokenisation of emitted lines, report reduction) + reparse comparison of real fix outputs",
        "ref": "DESIGN.md §3 C08",
        "note": "Class agreement of the fresh parse is layer U (classifier productions); decided per explored run.",
    },
    "C09": {
        "text": "Lean theorems: fixRun_fixpoint (if every scheduled error-type fixable rule reports nothing on the output and the post-phase-1 normalisation is the identity on it, a second fix run returns it unchanged and writes nothing), second_fix_unchanged_partial, no_cycle_of_fixpoint, eventually_constant_of_consecutive_eq, genuine_cycle, and soundness of the bounded sequence classifier the harness uses (classify_converged_sound, classify_cycle_sound). Convergence of the real rule set is emergent from ~960 unmodelled analyses, so the theorem is a reduction; the harness evaluates its hypotheses on every first output and checks that whenever they hold the second fix indeed changes nothing (correspondence of the reduction), and searches: corpus × variants × configurations fixed up to five times through re-parsing, cycle detection, minimisation of the non-converging rule set by delta debugging.",
        "technique": "Lean 4 proof (fixpoint reduction, sequence classifier) + iterated real fix runs with rule-set minimisation",
        "ref": "DESIGN.md §3 C09",
        "note": "Findings are identified by the base class of the first rule that still changes the file in the second run; the minimal interacting rule set is kept in the replay detail.",
    },
    "C11": {
        "text": "Lean model of the code-tag state machine (code_tags.New.update, set_code_tags with its three stamping orders, str.split over CPython's whitespace table, ':' remarks, prefix matching, next-line tags), has_code_tag, violation.has_code_tag and Rule.add_violation, and an independent declarative specification (backwards scan for the governing tag comment). Theorems for all token sequences, positions and rule ids: stamp_spec (suppressed by the stamped tags ⇔ suppressed by the specification), report_filter (the violations add_violation keeps are exactly those none of whose tokens is suppressed), bare_off_whole_file, bare_off_region, next_line_one_break (a next-line tag governs exactly up to the second following line break), spec_off_region; for the pre-repair has_code_tag the statement is refuted by `decide` witnesses and kept under an explicit guard. Tie: random tag/comment sequences through the real set_code_tags vs the driver; tagged vs neutrally-commented variants of corpus files through the real check and fix engine, every violation offered to add_violation judged against the Lean specification.",
        "technique": "Lean 4 proof (state machine = declarative spec) + differential testing of tagged vs neutral files",
        "ref": "DESIGN.md §3 C11",
    },
    "C06": {
        "text": "Lean reductions with the frame hypothesis as an explicit structure (analyses read the token list through a view they keep): check_rules is read-only, repeatable, per-rule results are independent of the other rules (checkRules_solo), disabling a set removes exactly its violations from the all-phases report (checkRules_disable, report_disable) and permuting rules inside a sub-phase permutes nothing observable (checkRules_order); counter-models by `decide` show each statement fails when an analysis leaks state through a token attribute, and that the disable clause needs --all_phases. Tie (the frame hypothesis is TESTED on the real code): attribute snapshots of every token, rule object and module global around every rule's analyze; repeated checks; random and targeted disabled subsets with bisection to the interfering pair; shuffled intra-sub-phase order; analysis order, counters and logs compared with the Lean driver.",
        "technique": "Lean 4 proof (reduction to a frame hypothesis, counter-models) + frame hypothesis tested on the real analyses",
        "ref": "DESIGN.md §3 C06",
        "note": "Partial by nature: Lean proves the reduction; that the ~960 real analyses satisfy the frame hypothesis is decided on explored inputs.",
    },
    "C12": {
        "text": "Lean model of config.New's merge of -c files, Rule.configure (global / group / rule with the real guards and KeyError control flow, severity by name), rule_list.configure (unknown and deprecated rule errors) and apply_rules.configure_rules (file_list / file_rules). Theorems for all documents and rules: effective_precedence (the value after configuration is the one of the highest-priority level that sets it, nine levels, guards exactly as coded), merge_replaces_whole_entry and later_file_overrides_partial (per-attribute merging across files holds only when no rule key occurs in two files; the full statement is refuted by a `decide` witness reproduced on the CLI), unknown_rule_error, deprecated_rule_error, and the behavioural corollaries (disabled rules are never scheduled, fixable:false is report-only, warnings are not fixed) through the engine model; table facts over all 1049 rules. Tie: random layered configuration stacks through the real config.New + rule_list + configure_rules, every attribute of sampled rules compared with the Lean driver; behaviour clauses and error outcomes on the CLI.",
        "technique": "Lean 4 proof (configuration precedence model) + differential testing of random layered configurations against the model",
        "ref": "DESIGN.md §3 C12",
    },
    "C13": {
        "text": "Lean model of check_rules / report_violations / fix scheduling with rule semantics as a parameter. Theorems for all rule lists, semantics, skip sets, initial states: check_rules_closed_form, analysed_allPhases_iff / analysed_gated_iff, firstFailing_spec, gated_is_prefix (the gated report is the all-phases report filtered by phase ≤ first failing phase; the stable sort by line commutes with the filter), gated_exit_eq_allphases_exit, skip_not_reported, out_of_range_phase_never_runs, fixRun_phase_bound (no _fix_violation of a rule beyond --fix_phase, in a skipped phase, disabled, unfixable or non-error), had_violations_iff_fixed. Tie: 2000 (thorough 10^5) random stub-rule scenarios through the REAL Rule.fix / check_rules / update code with stub rule classes whose semantics are also defined in Lean, every observable compared with the driver; real-rule runs gated vs -ap, --fix_phase 1..7, skip_phase from configuration, CLI.",
        "technique": "Lean 4 proof (phase gating model) + stub-rule differential testing through the real engine",
        "ref": "DESIGN.md §3 C13",
    },
    "C14": {
        "text": "Lean model of the three stdout formats, JSON, JUnit and quality report as projections of one per-rule violation list, and of main's exit status. Theorems: formats_project_same_set, junit_is_error_filter, counts_eq_length, exit_zero_iff (exit flag false iff no error-type record, user-defined severities included), warnings_only_exit_zero, main_exit_zero_iff, main_stops_at_config_error; where the code keys on the severity NAME 'Error' instead of the type the full statements are refuted by `decide` witnesses (summary status word, quality-report severity) and kept as _partial. Tie: stub scenarios through the real report code with parsers back to records; real CLI runs with all formats at once under four severity set-ups, warnings-only inputs, a parse-failing file among good ones.",
        "technique": "Lean 4 proof (report projections, exit status) + differential testing of all output formats",
        "ref": "DESIGN.md §3 C14",
    },
    "C15": {
        "text": "Lean scheduler model: any assignment of files to workers and any interleaving is an event list; under the frame hypothesis that processing a file does not change state other files read, the pool and the serial loop both produce files.map solo truncated at the first stop, in command-line order, and the exit status is the OR (sched_indep, sched_position, stop_truncates, stops_iff over apply_rules' four return sites); counter-models show independence fails when state leaks, also depending on the worker assignment. Tie (hypothesis tested): apply_rules in-process over permuted batches vs fresh-interpreter solo runs (exit, stdout, JSON, JUnit, fixed text); deep comparison of module-level state (config.dPragmas, default_conf, class attributes of rule and token classes, module globals of vsg.rules.*) around every call; CLI with -p 1/2/8, permutations, --stdin.",
        "technique": "Lean 4 proof (scheduler reduction, counter-models) + frame hypothesis tested on the real code and CLI",
        "ref": "DESIGN.md §3 C15",
        "note": "OS scheduling and multiprocessing internals are parameters of the model.",
    },
    "C17": {
        "text": "Lean model of Rule.get_configuration / rule_list.get_configuration / the -oc document and of reading it back. Theorems: oc_roundtrip (configuring a fresh rule with the emitted fragment reproduces every configurable attribute and the severity, given the name resolves), oc_idempotent, oc_rule_section_idempotent for the whole file (guards: distinct ids, configuration ⊆ __dict__ — table facts proved over all rules — built-in severities); the full property is refuted for user-defined severities by a witness (-oc omits the severity section). Tie: styles × random stacks through the real -oc path, emitted JSON fed back with no style, re-emitted and byte-compared; effective attributes of all rules, violations and fixed text on real files under both configurations; -rc fragments.",
        "technique": "Lean 4 proof (emit/read-back round trip) + real -oc round trips compared byte for byte",
        "ref": "DESIGN.md §3 C17",
    },
    "C18": {
        "text": "Lean model of token_map.process_tokens (alias rules and guards as coded), every bisect look-up, 13 extraction helpers (the six that serve 58% of the rules first, all flag combinations of get_tokens_bounded_by) and update with the remap switch. Theorems: processTokens_spec (each key holds exactly the sorted positions of its tokens, so the index equals its recomputation), bisectLeft_eq_countLt and agreement with C07's line function, update_remap_fresh, valueOnly_keeps_index, remapFalse_valueOnly (`decide +kernel` over the regenerated rule table: every remap-false rule is unfixable or owned by one of five value-only _fix_violation owners), a *_sliceExact theorem per modelled extractor (modulo the beginning_of_file pseudo token) with the recorded line stated exactly, update_overwrites_analysed; negations proved for the extractors that do not return slices. Tie: at every extract call and every _get_tokens_of_interest of instrumented fix + check runs Lean recomputes the index from the token list and judges every region (identity of token objects by serial numbers); index, look-ups (incl. raising ones) and every modelled extractor call replayed through the driver.",
        "technique": "Lean 4 proof (index and extractor models) + Lean-judged invariant at every analysis point of real runs",
        "ref": "DESIGN.md §3 C18",
    },
    "C20": {
        "text": "Lean theorems on the fix-only filter and the fix engine for all rule semantics and dictionaries: fixOnly_none_is_plain, fixOnly_filter_spec, fixOnly_lines (what is fixed = what is analysed at the moment the rule runs, filtered by the listed lines), fixOnly_all_eq_plain (same token list, same had_violations, same _fix_violation calls), fixOnly_empty_untouched (no _fix_violation invoked, only the post-phase-1 normalisation, nothing written), the KeyError paths. Tie: stub-rule scenarios through the real Rule.fix(dFixOnly) compared with the driver; real rules with all-rules:'all' (= plain fix), empty selection (= untouched) and random (rule, lines) selections where every changed line must be explained.",
        "technique": "Lean 4 proof (fix-only filter) + stub-rule and real-rule differential testing",
        "ref": "DESIGN.md §3 C20",
    },
    "C07": {
        "text": "Lean theorems: line of a position = 1 + carriage returns before it; extract_tokens' line recomputation is that; update preserves the line count when every violation does; a case-only step keeps every token on its line. Tie: for every step of a whitespace / indent / alignment / case rule in the replayed runs the Lean checker compares the set of changed lines with the set of reported lines and the line count. Partial: the analyses that choose the reported line are not modelled (certificate-only).",
        "technique": "Lean 4 proof (line arithmetic, update homomorphism for line breaks) + Lean-checked trace certificates",
        "ref": "DESIGN.md §3 C07",
    },
    "C10": {
        "text": "Lean theorems (any rule semantics): if the re-analysis after a rule's own fix offers nothing that passes the fix-only filter, the second Rule.fix is the identity and does not set had_violations (second_fix_identity); violations whose _fix_violation hands back the analysed slice unchanged make a chain update the identity (unrepairable_noop), hence a second fix is the identity as soon as everything still reported is unrepairable. Tie: inside instrumented phase-ordered fix runs over the corpus, re-layout variants and random configurations, every rule that changed the token list is immediately applied again (its real fix) to a deep copy of the model; the copy's (class, value) sequence must not change. Partial: the rules' analyses/fixes are layer U, so idempotence of a given rule is decided on the explored (state, rule) pairs, not for all inputs.",
        "technique": "Lean 4 proof (engine reduction) + re-application of every fired rule on a deep copy inside real fix runs",
        "ref": "DESIGN.md §3 C10",
    },
    "C16": {
        "text": "Lean model of write_vhdl_file / apply_rules' write decision / --backup as a file-system state machine in which every OS call may succeed, raise PermissionError, raise another OSError or be the crash point (incl. partial writes, buffered or not). Theorems for ALL fault schedules, contents, modes and stale .tmp/.bak files: at every crash point and at the end the target holds the original or the complete fixed content with the original mode (writeBack_safe); tmp is removed unless os.remove itself fails (tmp_cleaned, with the excluded case proved as a witness and reproduced on the real code); the backup is faithful; parse/config errors, no --fix, no violations and a raising rule perform no write. Tie: the real apply_rules runs on temp files with faults injected at every os/open/write/chmod/replace/remove/copy2 call index (exceptions in-process, crashes via os._exit in a child, plus genuine kernel faults: RLIMIT_FSIZE, unprivileged uid + read-only directory); op trace and final file system state compared with the Lean driver's prediction for the same schedule, and the property judged on the real bytes and st_mode.",
        "technique": "Lean 4 proof over all fault schedules + fault/crash injection on the real write path compared with the Lean model",
        "ref": "DESIGN.md §3 C16",
        "note": "os.replace is atomic by definition of the model (POSIX rename); no fsync before replace, so power loss is outside the model; runs as root, so 0o444 targets stay writable (real PermissionErrors come from the setuid scenarios).",
    },
    "C19": {
        "text": "Lean theorems: the outcome structure of apply_rules and of main's file loop — a rejected file yields the located 'Error while processing' message, exit contribution 1 and the loop goes on (reject_reports_and_goes_on, loop_continues_after_reject, exit_nonzero_of_reject); a traceback can only come from an exception other than ClassifyError / ConfigurationError / the local-rules OSError (traceback_only_from_uncaught); the tokenizer model is total, lossless and never yields an empty token for all Unicode strings; a fix run is a fold over a finite schedule. Search on the real code: every exception and every slow step of instrumented full-rule-set fix runs (every rule on every corpus file, re-layout variants, random configurations incl. all rules enabled); randomly corrupted corpus files through the real apply_rules under a wall-clock alarm (accepted, or rejected with the documented outcome tuple; anything else is a finding); CLI runs with a rejected file among good ones. Partial by nature: totality of the ~960 rule bodies and 246 productions is decided on explored inputs only.",
        "technique": "Lean 4 proof (outcome model, tokenizer totality) + exhaustive rule×file crash/hang search on the real code",
        "ref": "DESIGN.md §3 C19",
    },
}

NOT_YET = "check under construction in this session (model/proofs not merged yet); see DESIGN.md §3"


LAYER_P = ("Layer P: all 549 functions of vsg/vhdlFile/classify/*.py and vsg/vhdlFile/utils.py are REGENERATED on every run by the translator harness/gen_prog.py (Python ast -> deep-embedded "
           "program table lean/VsgModel/Generated/ClassifyProg.lean, 542 translated, 7 opaque and named) and run by a fuel-based total interpreter (lean/VsgModel/Prog); the interpreter is compared with the "
           "real productions token by token (class, value, lower value, exception type, full ClassifyError message) on the whole corpus + re-layouts + corrupted inputs (3 606 runs, 459 functions executed). ")

ADDENDA = {
    "C01": "Added: all 77 _fix_violation owners are modelled; the whole token_indent family (extractor + analysis + fix) keeps the code sequence for all inputs; the case, line-structure and multi-line-structure families' own synthetic correspondence (real classes vs Lean functions), Lean-witness replay and defect search run inside this check; configuration family `exceptions` (prefix/suffix/whole-word case exception lists drawn from the input's identifiers).",
    "C02": "Added: remove_carriage_return_after_token keeps preprocessor lines on lines of their own (repo repair f4baa2a, bfix_removeCrAfter_preprocSafe with both hypotheses shown necessary); multiline_structure model follows the repo repairs (keepGuard), theorem bfix_multiStruct_remove_keeps_comments for all regions; line-structure and multi-line families' correspondence + defect search (comment / preprocessor line absorbs code) run inside this check.",
    "C03": "Added: token_prefix / token_suffix whole rules (52 rules: affix_analyze_spec, never fix, table facts); the case family no longer excludes extended identifiers (repo repair 42fe06d, bfull_case_extended_identifier_untouched) and its analysis can no longer raise a TypeError (repo repair 7698b24, C19.bfull_case_analysis_errors); whole-rule theorems for the token_indent family (bfull2_indent_layoutOnly for every token list, indent assignment and indent_size) with the whole-rule correspondence BFULL2 (787 k rule x file x option runs); B-full case family correspondence and search at the excluded points (extended identifiers, non-ASCII case pairs).",
    "C04": LAYER_P + "Theorems generic over the program table (one induction on fuel, inv_run): token-count bookkeeping of every call incl. exceptional exits (prog_call_length), no pop/insert => length unchanged (prog_call_length_noLen), and BY NAME the 18 functions outside that fragment (decide +kernel on the regenerated table). Values: prog_retag_exact and prog_call_values (for every table passing Chk.value every token keeps its text or carries the fixed text of some class, also on exceptional exits; the 26 functions outside the fragment by name), prog_call_link (a masked-table call that avoids `unmodelled` equals the full-table call) with the harness re-running every run on the masked tables (3 384 of 3 606 runs inside both fragments).",
    "C05": LAYER_P + "The roles of every (file, re-layout) pair are therefore produced twice (real parser and translated productions) and compared; the interpreted find_next_token / is_next_token / object_value_is / assign_next_token* of the generated table are proved equal to the hand models / array specifications (symbolic execution of the generated bodies, tied by name), so the prims_* layout theorems are statements about the translated code; layout blindness is proved for straight-line productions, chains with conditionals on is_next_token and detectors (26 functions of the generated table by name: prog_chain_layout_partial, prog_ifchain_layout_partial, prog_detect_layout_partial); the full statement C05.LayoutBlindCall (if / while / calls of other productions) is NOT proved, so the property is still decided per explored pair for them. set_token_indent is modelled and proved layout-blind (setIndent_layoutBlind).",
    "C06": "Added: for the 52 token_prefix / token_suffix rules the analysis is a function of the token list alone (bfull2_affix_frame, bfull2_affix_disable), checked against the real rules; one rule list object is checked, configured again with a subset disabled, cleared and checked again.",
    "C07": "Added: token_indent family whole rule: line count kept and the fixed file is the concatenation of consecutive pieces of which exactly the reported ones change (bfull2_indent_lineCount, bfull2_indent_pieces), for all inputs.",
    "C09": "Added: the whole token_indent family (102 rules) converges in one application for all inputs (bfull2_indent_converges); findings are identified by the base class of the culprit rule of the minimal non-converging rule set.",
    "C10": "Added: token_indent family: the analysis of the file after Rule.fix is empty and the second fix is the identity, for every token list, indent assignment (None, negative) and indent_size, guards CsOk, VarOk (both proved for all 102 generated rule rows), StyleOk, UidOk (bfull2_indent_idem_all, bfull2_indent_second_fix_all, bfull2_ruleFix_eq; the between / unless variants via bfull2_pairing_order_equivariant: extract_start_end_indexes commutes with monotone renamings of positions); blank_line_below / blank_line_above / previous_line whole file for styles require_blank_line and no_blank_line (below_idem, above_idem, belowNo_idem, aboveNo_idem, previous_idem); other vertical-spacing rules at region level; the second-fix search is not applied under a --fix_only file that lists lines.",
    "C12": "Added: an unknown severity name is a configuration error like an unknown rule (repo repair 3e490c4; unknown_severity_error, configured_severity_defined); names that rules hold without listing them as configurable are part of the global / group pools of the random stacks.",
    "C15": "Added: the process-wide state picture taken around every file covers module globals, class attributes and the mutable default arguments, keyword defaults and closure cells of every function and method of every vsg module.",
    "C18": "Added (after the repo repairs 81358d6 / b6a24e5 the guards of nBeforeAndAfter_sliceExact, ifConditions_sliceExact and startingEnding_sliceExact are gone): 41 further extractors transcribed (all 55 entry points rules use; Extract2 … 8), recorded-line theorems for the line-above / line-below families and interface elements, with slice-exactness / recorded-line theorems or the exact guard plus a decide witness replayed on the real extractor (8 extractor defects found this way); every real extractor call of the instrumented runs (80 k per quick run) and 187 k synthetic calls are replayed through the Lean driver.",
    "C19": LAYER_P + "Theorems: the interpreter's result is a value or one of the enumerated outcomes (prog_result_enumerated); the only raise sites of the regenerated table are utils.print_error_message and print_missing_error_message (by name, decide +kernel). Error origin: prog_error_origin with instances prog_no_classifyError / prog_no_indexError; by name, every ClassifyError of the generated productions comes out of those two functions and every IndexError out of 82 functions (467 cannot originate one). Totality of the productions is still decided by the crash/hang search (first-line syntax errors included; a crash while building the syntax message has an identity of its own).",
}
NOTE_OVERRIDE = {
    "C04": "The 246 classifier productions are translated, not hand-modelled: the translator gen_prog.py and the interpreter's semantics of the Python subset are trusted as far as the per-token correspondence runs validate them (83 of 542 translated functions are never executed by the corpus and are listed as untested in the evidence).",
    "C05": "This is where the technique reaches least: the productions are in the model by translation and compared per token, but their layout-blindness is not yet a theorem.",
}


def main():
    props = [json.loads(l)["id"] for l in open(os.path.join(VERIF, "properties.jsonl"))]
    checks = []
    na = []
    for p in props:
        c = CHECKS.get(p)
        if c is None:
            na.append({"property_id": p, "reason": NOT_YET})
            continue
        c = dict(c)
        if p in ADDENDA:
            c["text"] = c["text"] + " " + ADDENDA[p]
        if p in NOTE_OVERRIDE:
            c["note"] = NOTE_OVERRIDE[p]
        checks.append(
            {
                "property_id": p,
                "quick_cmd": "./check %s quick" % p,
                "thorough_cmd": "./check %s thorough" % p,
                "evidence_file": "evidence/%s.json" % p,
                "replay_cmd_template": "./check %s --replay {path}" % p,
                "engine": "lean-vsgmodel",
                "level_claimed": {"category": "proof", "text": c["text"], "design_ref": c["ref"]},
                "level_note": COMMON_NOTE + c.get("note", ""),
                "technique": c["technique"],
            }
        )
    m = {
        "version": 1,
        "setup_cmd": "cd lean && lake build VsgModel VsgProofs driver",
        "hooks": {
            "guard": "VSG_VERIF",
            "enable": "no source hooks in /repo: the harness instruments the real code from outside (wrapping Rule.fix, Rule.analyze, vhdlFile.update, os/open calls in-process); ./check sets VSG_VERIF=1 for its own processes only",
            "baseline_off_cmd": "cd /repo && /venv/bin/python -m pytest -ra -q -p no:cacheprovider --timeout=900 --continue-on-collection-errors",
            "source_commits": [],
            "add_only": True,
        },
        "engines": [{"name": "lean-vsgmodel", "path": "lean", "serves_properties": [c["property_id"] for c in checks], "kind_free_text": "Lean 4 model + proofs (lake project, libs VsgModel / VsgProofs) with a compiled line-protocol driver; Python harness under harness/"}],
        "checks": checks,
        "not_applicable": na,
        "notes": "Genuine defects of the pinned tree that were not repaired are listed in known_findings.json; repaired ones are `fix:` commits in /repo recorded there as fixed.",
    }
    with open(os.path.join(VERIF, "MANIFEST.json"), "w") as f:
        json.dump(m, f, indent=1)
    print("MANIFEST: %d checks, %d not claimed" % (len(checks), len(na)))


if __name__ == "__main__":
    main()
