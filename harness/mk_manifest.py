"""Writes /verif/MANIFEST.json from the table below (development aid, run by hand)."""
import json
import os

VERIF = os.path.dirname(os.path.dirname(os.path.abspath(__file__)))

COMMON_NOTE = (
    "Trusted base: Lean 4.33 kernel (axioms of every property theorem audited on each run to be within propext / Classical.choice / "
    "Quot.sound; no sorry, native_decide, bv_decide or own axioms — grep on each run); the hand-written Lean models under lean/VsgModel "
    "(tied to /repo only by the correspondence runs of the check, on the explored inputs); the translator harness/gen_tables.py (prints "
    "instantiated rule objects, token classes, docs labels, CPython str predicates as Lean tables, regenerated on every run); the Python "
    "harness (instrumentation by wrapping from outside, wire encoding, canonicalisation); CPython, PyYAML, POSIX file semantics. "
)

CHECKS = {
    "C01": {
        "text": "Lean theorems (for all token lists, edits, rule semantics): vhdlFile.update over a sorted disjoint in-range chain of violations preserves any concatenation-compatible projection or congruence (update_hom / update_rel), instantiated for the folded code-token sequence; layout-only and case-only steps preserve it; soundness of the certificate checker's edit classes (insert/delete/parens/split: subsequence facts). Tie: every changed step of instrumented full-rule-set fix runs (all 2609 corpus files + re-layout variants + random configurations) is replayed through the Lean model of update (must reproduce the real token list) and judged by the Lean step checker against the edit class of the rule's _fix_violation owner. P-full for the engine; rules' own _fix_violation functions are layer U: decided per explored run (certificate), not for all inputs.",
        "technique": "Lean 4 proof (update homomorphism, relation algebra) + Lean-checked trace certificates of real fix runs",
        "ref": "DESIGN.md §2.2, §3 C01",
    },
    "C02": {
        "text": "Lean theorems: update preserves the comment/pragma/preprocessor sequence when every violation does; layout-only and case-only steps preserve it; commentEndsLine characterises 'the token after a -- comment is a line break'. Tie: same replayed runs as C01; per step the Lean checker compares comment sequences (modulo blanks for the two documented comment-whitespace rules, removal only for the documented remover base classes) and tests that no comment starts absorbing code. Engine P-full; rule bodies certificate-only.",
        "technique": "Lean 4 proof (update homomorphism for the comment projection) + Lean-checked trace certificates",
        "ref": "DESIGN.md §3 C02",
    },
    "C03": {
        "text": "Lean theorems for ANY rule semantics: unfixable / fixable:false rules and warning severities never change the file (ruleFix_unfixable, stepRule_warning), every rule invoked by rule_list.fix is enabled and inside phases 1..fixPhase minus skipped, sub-phases 0..5 (schedule_sound), invariant principle for whole runs, inert runs are the identity; update lifts per-violation layout-only to the file; table facts re-proved by `decide +kernel` against the regenerated table of all 1049 rules (phase 7 unfixable; only unfixable rules override fix; docs labels state the real phase and severity; group ↔ phase). Tie: per step of real runs the Lean checker decides identical / layout-only / case-only from the rule's group and its configured fixable/disable/severity.",
        "technique": "Lean 4 proof (engine for all rule semantics, decide over regenerated rule table) + Lean-checked trace certificates",
        "ref": "DESIGN.md §3 C03",
    },
    "C04": {
        "text": "Lean theorems for ALL Unicode strings and all character tables: tokens.create only regroups characters (create_flatten, every one of the nine passes), never yields an empty token (create_no_empty), never indexes out of range; the line layer (read_vhdlfile line splitting, rstrip, blank / whitespace / comment / delimited-comment / preprocessor classification with its cross-line state) is lossless and total for every line and state (classifyLine_flatten, classifyLine_total, readLines_line_end_independent); emit∘parse = identity on the lines read under the per-file contract that the productions refine tokens value-preservingly (getLines_processLines_partial; contract checked per parsed file); the file is written iff --fix and some _fix_violation was invoked (write_iff, no_fix_no_write, clean_file_no_write). Tie: pass-by-pass correspondence of the tokenizer model with vsg/tokens.py exhaustively over all strings up to length 4 (thorough: 5) over a 25-symbol delimiter alphabet plus random Unicode and every corpus line; token-by-token correspondence of the line layer on corpus, variants and comment/line-end stress files through real temp files; real apply_rules / CLI runs with stat before and after.",
        "technique": "Lean 4 proof for all strings (tokenizer, line layer) + exhaustive-to-a-bound correspondence with the Python implementation",
        "ref": "DESIGN.md §2.1, §3 C04",
        "note": "The 246 classifier productions are not modelled: their value-preservation is the explicit Refines contract, checked on every parsed file of the run.",
    },
    "C07": {
        "text": "Lean theorems: line of a position = 1 + carriage returns before it; extract_tokens' line recomputation is that; update preserves the line count when every violation does; a case-only step keeps every token on its line. Tie: for every step of a whitespace / indent / alignment / case rule in the replayed runs the Lean checker compares the set of changed lines with the set of reported lines and the line count. Partial: the analyses that choose the reported line are not modelled (certificate-only).",
        "technique": "Lean 4 proof (line arithmetic, update homomorphism for line breaks) + Lean-checked trace certificates",
        "ref": "DESIGN.md §3 C07",
    },
    "C10": {
        "text": "Lean theorems (any rule semantics): if the re-analysis after a rule's own fix offers nothing that passes the fix-only filter, the second Rule.fix is the identity and does not set had_violations (second_fix_identity); violations whose _fix_violation hands back the analysed slice unchanged make a chain update the identity (unrepairable_noop), hence a second fix is the identity as soon as everything still reported is unrepairable. Tie: inside instrumented phase-ordered fix runs over the corpus, re-layout variants and random configurations, every rule that changed the token list is immediately applied again (its real fix) to a deep copy of the model; the copy's (class, value) sequence must not change. Partial: the rules' analyses/fixes are layer U, so idempotence of a given rule is decided on the explored (state, rule) pairs, not for all inputs.",
        "technique": "Lean 4 proof (engine reduction) + re-application of every fired rule on a deep copy inside real fix runs",
        "ref": "DESIGN.md §3 C10",
    },
    "C16": {
        "text": "Lean model of write_vhdl_file / apply_rules' write decision / --backup as a file-system state machine in which every OS call may succeed, raise PermissionError, raise another OSError or be the crash point (incl. partial writes, buffered or not). Theorems for ALL fault schedules, contents, modes and stale .tmp/.bak files: at every crash point and at the end the target holds the original or the complete fixed content with the original mode (writeBack_safe); tmp is removed unless os.remove itself fails (tmp_cleaned, with the excluded case proved as a witness and reproduced on the real code); the backup is faithful; parse/config errors, no --fix, no violations and a raising rule perform no write. Tie: the real apply_rules runs on temp files with faults injected at every os/open/write/chmod/replace/remove/copy2 call index (exceptions in-process, crashes via os._exit in a child, plus genuine kernel faults: RLIMIT_FSIZE, unprivileged uid + read-only directory); op trace and final file system state compared with the Lean driver's prediction for the same schedule, and the property judged on the real bytes and st_mode.",
        "technique": "Lean 4 proof over all fault schedules + fault/crash injection on the real write path compared with the Lean model",
        "ref": "DESIGN.md §3 C16",
        "note": "os.replace is atomic by definition of the model (POSIX rename); no fsync before replace, so power loss is outside the model; runs as root, so 0o444 targets stay writable (real PermissionErrors come from the setuid scenarios).",
    },
    "C19": {
        "text": "Lean theorems: the outcome structure of apply_rules and of main's file loop — a rejected file yields the located 'Error while processing' message, exit contribution 1 and the loop goes on (reject_reports_and_goes_on, loop_continues_after_reject, exit_nonzero_of_reject); a traceback can only come from an exception other than ClassifyError / ConfigurationError / the local-rules OSError (traceback_only_from_uncaught); the tokenizer model is total, lossless and never yields an empty token for all Unicode strings; a fix run is a fold over a finite schedule. Search on the real code: every exception and every slow step of instrumented full-rule-set fix runs (every rule on every corpus file, re-layout variants, random configurations incl. all rules enabled); randomly corrupted corpus files through the real apply_rules under a wall-clock alarm (accepted, or rejected with the documented outcome tuple; anything else is a finding); CLI runs with a rejected file among good ones. Partial by nature: totality of the ~960 rule bodies and 246 productions is decided on explored inputs only.",
        "technique": "Lean 4 proof (outcome model, tokenizer totality) + exhaustive rule×file crash/hang search on the real code",
        "ref": "DESIGN.md §3 C19",
    },
}

NOT_YET = "check under construction in this session (model/proofs not merged yet); see DESIGN.md §3"


def main():
    props = [json.loads(l)["id"] for l in open(os.path.join(VERIF, "properties.jsonl"))]
    checks = []
    na = []
    for p in props:
        c = CHECKS.get(p)
        if c is None:
            na.append({"property_id": p, "reason": NOT_YET})
            continue
        checks.append(
            {
                "property_id": p,
                "quick_cmd": "./check %s quick" % p,
                "thorough_cmd": "./check %s thorough" % p,
                "evidence_file": "evidence/%s.json" % p,
                "replay_cmd_template": "./check %s --replay {path}" % p,
                "engine": "lean-vsgmodel",
                "level_claimed": {"category": "proof", "text": c["text"], "design_ref": c["ref"]},
                "level_note": COMMON_NOTE + c.get("note", ""),
                "technique": c["technique"],
            }
        )
    m = {
        "version": 1,
        "setup_cmd": "cd lean && lake build VsgModel VsgProofs driver",
        "hooks": {
            "guard": "VSG_VERIF",
            "enable": "no source hooks in /repo: the harness instruments the real code from outside (wrapping Rule.fix, Rule.analyze, vhdlFile.update, os/open calls in-process); ./check sets VSG_VERIF=1 for its own processes only",
            "baseline_off_cmd": "cd /repo && /venv/bin/python -m pytest -ra -q -p no:cacheprovider --timeout=900 --continue-on-collection-errors",
            "source_commits": [],
            "add_only": True,
        },
        "engines": [{"name": "lean-vsgmodel", "path": "lean", "serves_properties": [c["property_id"] for c in checks], "kind_free_text": "Lean 4 model + proofs (lake project, libs VsgModel / VsgProofs) with a compiled line-protocol driver; Python harness under harness/"}],
        "checks": checks,
        "not_applicable": na,
        "notes": "Genuine defects of the pinned tree that were not repaired are listed in known_findings.json; repaired ones are `fix:` commits in /repo recorded there as fixed.",
    }
    with open(os.path.join(VERIF, "MANIFEST.json"), "w") as f:
        json.dump(m, f, indent=1)
    print("MANIFEST: %d checks, %d not claimed" % (len(checks), len(na)))


if __name__ == "__main__":
    main()
