"""
Self-test of props_frame.py: plausible bugs are monkeypatched into the real code IN THIS PROCESS / in the
fresh child interpreters (never into /repo) and the check logic must report them.

    /venv/bin/python -W ignore harness/selftest_frame.py
"""
import os
import sys

sys.path.insert(0, os.path.dirname(os.path.abspath(__file__)))


def main():
    import common
    import gen_tables
    import props_frame as pf

    gen_tables.generate()
    ok = True

    # ------------------------------------------------------------------ C06
    pf._c06_init()
    path = os.path.join(common.REPO, "tests", "styles", "code_examples", "spi_slave.vhd")
    clean = pf.c06_job({"path": path, "variant": "orig", "config": "default", "nD": 6})
    kinds = {(f["site"], f["kind"]) for f in clean["failures"]}
    print("C06 unpatched: parse=%s runs=%d failures=%s breaks=%d" % (clean["parse"], clean["runs"], sorted(kinds), len(clean["breaks"])))
    ok &= clean["parse"] == "ok" and not kinds and not clean["breaks"]

    from vsg.rules import whitespace_between_tokens as mod

    cls = mod.Rule if hasattr(mod, "Rule") else mod.whitespace_between_tokens
    real = cls._analyze

    def leaky(self, lToi):
        # bug: a whitespace rule (phase 2) "prepares" the indent of the tokens it looks at
        for oToi in lToi:
            oToi.get_tokens()[0].indent = 7
        return real(self, lToi)

    cls._analyze = leaky
    try:
        bad = pf.c06_job({"path": path, "variant": "orig", "config": "default", "nD": 6})
    finally:
        cls._analyze = real
    kinds = {(f["site"], f["kind"]) for f in bad["failures"]}
    for f in bad["failures"][:6]:
        print("   ", f["site"], f["kind"], f["detail"][:160])
    print("C06 patched (whitespace_between_tokens._analyze sets indent = 7): parse=%s failures=%d" % (bad["parse"], len(bad["failures"])))
    w = any(k == "analysisWritesToken:indent" and s.startswith("whitespace_between_tokens") for s, k in kinds)
    d = any(k == "dependsOnOtherRule" for s, k in kinds)
    print("    analysisWritesToken:indent at the patched base class: %s; dependsOnOtherRule (minimised, confirmed on a fresh parse): %s" % (w, d))
    ok &= w and d

    # a rule that keeps state between analyses: the second check differs
    from vsg.rules import token_case as tccls  # the package exports the class under the module's name

    real2 = tccls._analyze

    def forgetful(self, lToi):
        n = getattr(self, "_seen", 0)
        self._seen = n + 1
        return real2(self, lToi if n == 0 else lToi[:-1])

    tccls._analyze = forgetful
    try:
        bad = pf.c06_job({"path": path, "variant": "orig", "config": "default", "nD": 2})
    finally:
        tccls._analyze = real2
    kinds = {f["kind"] for f in bad["failures"]}
    print("C06 patched (token_case remembers it has run): kinds=%s" % sorted(kinds))
    ok &= "repeatDiffers" in kinds

    # ------------------------------------------------------------------ C15
    class Res:
        def __init__(self):
            self.failures, self.breaks = [], []

        def fail(self, site, kind, detail, replay):
            self.failures.append((site, kind, detail))

        def proof_break(self, what, detail):
            self.breaks.append((what, detail))

    rng = common.rng("selftest")
    batches = pf.c15_batches("quick", rng)[:1]
    for hook, want in ((None, None), ("leak_pragmas", "moduleStateMutated:dPragmas"), ("leak_rule_class", "resultDependsOnNeighbours")):
        res = Res()
        st = pf.c15_inprocess(res, [dict(b) for b in batches], rng, nperm=2, selftest=hook)
        kinds = sorted({k for _, k, _ in res.failures})
        print("C15 in-process, patch=%s: %d evaluations, failure kinds=%s breaks=%d" % (hook, st["evaluations"], kinds[:6], len(res.breaks)))
        if want is None:
            ok &= not kinds and not res.breaks
        else:
            ok &= any(k.startswith(want) for k in kinds)
    print("SELFTEST %s" % ("OK" if ok else "FAILED"))
    return 0 if ok else 1


if __name__ == "__main__":
    sys.exit(main())
