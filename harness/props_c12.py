"""
C12 (configuration precedence) and C17 (emitted configuration reproduces the run).

Decided by
  (1) the Lean theorems of VsgProofs/Properties/C12.lean and C17.lean over the configuration model
      lean/VsgModel/Engine/Config.lean,
  (2) correspondence: random layered stacks of configuration documents through the real
      config.New + rule_list.rule_list + apply_rules.configure_rules, every attribute of the compared
      rules against the Lean model run by `driver cfg`,
  (3) search on the real code: the Lean SPECIFICATION (Cfg.Spec, same driver) says which value the
      property demands; behavioural clauses (disable, fixable, severity, option value, unknown /
      deprecated rule) and the -oc / -rc round trip are run on real files.
Nothing of the configure code is re-implemented here; the only Python-side bookkeeping is the list of
levels that mention an attribute (coverage accounting).
"""
import contextlib
import copy
import glob
import io
import json
import multiprocessing
import os
import shutil
import sys
import tempfile
import traceback

import common
import gen_inputs
import leanio

US = "\x1f"
RS = "\x1e"
T = "$T"  # placeholder of the scratch directory inside stacks (replay files stay valid)

STANDARD = ["indent_style", "indent_size", "phase", "disable", "fixable", "severity", "user_error_message"]
STRUCTURAL = ["name", "identifier", "unique_id", "groups", "configuration", "options", "deprecated", "debug"]
LEVELS = ["file_rules.id", "file_rules.group", "file_rules.global", "file_list.id", "file_list.group", "file_list.global", "rule.id", "rule.group", "rule.global"]

SMALL_VHDL = """library ieee;
  use ieee.std_logic_1164.all;

entity FIFO is
  port (
    I_CLK : in    std_logic;
    o_data : out   std_logic
  );
end entity FIFO;

ARCHITECTURE rtl of FIFO is

  signal   s_a : std_logic;

begin

  o_data <=   I_CLK;

end architecture rtl;
"""


# ------------------------------------------------------------------ wire encoding


def esc(s):
    out = []
    for ch in s:
        if ch in "%\t\n\r\x1e\x1f":
            out.append("%%%02X" % ord(ch))
        else:
            out.append(ch)
    return "".join(out)


def enc_val(v):
    if isinstance(v, bool):
        return "bT" if v else "bF"
    if isinstance(v, int):
        return "i%d" % v
    if isinstance(v, str):
        return "s" + esc(v)
    if v is None:
        return "n"
    if isinstance(v, (list, tuple)) and all(isinstance(x, str) for x in v):
        return RS.join(["l%d" % len(v)] + [esc(x) for x in v])
    try:
        return "o" + esc(json.dumps(v, sort_keys=True))
    except TypeError:
        return "o" + esc(repr(v))


UNKNOWN = "o<unknown>"


def subst(obj, tmp):
    """materialise the $T placeholder in file names of a stack"""
    if isinstance(obj, str):
        return obj.replace(T, tmp)
    if isinstance(obj, list):
        return [subst(x, tmp) for x in obj]
    if isinstance(obj, dict):
        return {subst(k, tmp): subst(v, tmp) for k, v in obj.items()}
    return obj


def sec_lines(sec, out):
    out.append("RS")
    for k, v in sec.items():
        if k == "global":
            out.append("RGK")
            for a, x in v.items():
                out.append("RG\t%s\t%s" % (esc(a), enc_val(x)))
        elif k == "group":
            out.append("RPK")
            for g, attrs in v.items():
                out.append("RPG\t%s" % esc(g))
                for a, x in attrs.items():
                    out.append("RP\t%s\t%s\t%s" % (esc(g), esc(a), enc_val(x)))
        else:
            out.append("RRK\t%s" % esc(k))
            for a, x in v.items():
                out.append("RR\t%s\t%s\t%s" % (esc(k), esc(a), enc_val(x)))


def doc_lines(doc, out):
    if "rule" in doc:
        sec_lines(doc["rule"], out)
    for key, plain, cfg, keyline in (("file_list", "FL", "FC", "FLK"), ("file_rules", "FRN", "FR", "FRK")):
        if key in doc:
            out.append(keyline)
            for e in doc[key]:
                if isinstance(e, dict):
                    n = list(e.keys())[0]
                    out.append("%s\t%s" % (cfg, esc(n)))
                    if "rule" in e[n]:
                        sec_lines(e[n]["rule"], out)
                else:
                    out.append("%s\t%s" % (plain, esc(e)))
            out.append("MAIN")
    if "severity" in doc:
        out.append("SVK")
        for n, d in doc["severity"].items():
            out.append("SV\t%s\t%s" % (esc(n), esc(d["type"]) if "type" in d else "-"))
    if "local_rules" in doc:
        out.append("LR\t%s" % esc(doc["local_rules"]))


class CfgDriver:
    """one `driver cfg` session: the rule descriptors of .cache/tables.json are sent once"""

    def __init__(self, tables):
        self.d = leanio.Driver("cfg")
        self.rows = {r["id"]: r for r in tables["rules"]}
        for r in tables["rules"]:
            sev_type = "error" if r["sevError"] else "warning"
            self.d.send("\t".join(["RULE", esc(r["id"]), US.join(esc(g) for g in r["groups"]), US.join(esc(c) for c in r["configuration"]), "1" if r["deprecated"] else "0", esc(r["sevName"]), sev_type]))
            for k in r["dictKeys"]:
                if k == "severity":
                    continue
                self.d.send("D\t%s\t%s" % (esc(k), enc_val(r["defaults"][k]) if k in r["defaults"] else UNKNOWN))
            for o in r["options"]:
                self.d.send("O\t%s\t%s" % (esc(o), enc_val(r["defaults"].get(o))))

    def run(self, style_doc, docs, fname, queries=None, mode="cfg", claf=(), extra=()):
        L = ["JOB", "FILE\t" + esc(fname)]
        for f in claf:
            L.append("CLAF\t" + esc(f))
        L.extend(extra)
        if style_doc is not None:
            L.append("STYLEDOC")
            doc_lines(style_doc, L)
        for d in docs:
            L.append("DOC")
            doc_lines(d, L)
        if queries is None:
            L.append("QALL")
        else:
            for i in range(0, len(queries), 50):
                L.append("\t".join(["Q"] + [esc(q) for q in queries[i : i + 50]]))
        L.append("RUN\t" + mode)
        for l in L:
            self.d.send(l)
        self.d.flush()
        rep = {"out": None, "domain": True, "M": {}, "S": {}, "T": {}, "O": {}, "ocf": None, "ocl": None, "notfound": False}
        while True:
            line = self.d.read()
            if line == "END" or line == "":
                break
            f = line.split("\t")
            if f[0] == "OUT":
                rep["out"] = ("ok",) if f[1] == "ok" else ("err", f[2], f[3], f[4] if len(f) > 4 else "")
            elif f[0] == "DOMAIN":
                rep["domain"] = f[1] == "1"
            elif f[0] == "M":
                rep["M"][f[1]] = (f[2], dict(c.split(US, 1) for c in f[3:] if c))
            elif f[0] == "S":
                cells = {}
                for c in f[3:]:
                    if c:
                        a, v, lvl, di = c.split(US)
                        cells[a] = (v, int(lvl), int(di))
                rep["S"][f[1]] = (f[2], cells)
            elif f[0] == "T":
                rep["T"][f[1]] = (f[2], dict(c.split(US, 1) for c in f[3:] if c))
            elif f[0] == "O":
                rep["O"][f[1]] = dict(c.split(US, 1) for c in f[2:] if c)
            elif f[0] == "OCF":
                rep["ocf"] = f[1:]
            elif f[0] == "OCL":
                rep["ocl"] = f[1]
            elif f[0] == "NOTFOUND":
                rep["notfound"] = True
        return rep

    def close(self):
        self.d.close()


# ------------------------------------------------------------------ the real code


def load_style(style):
    if style is None:
        return None
    import yaml

    return yaml.full_load(open(os.path.join(common.REPO, "vsg", "styles", style + ".yaml")))


def real_config(style, docs, tmp, **cla_kw):
    """config.New through the real code.  Returns ('ok', cla, oConfig) | ('exit', code, text) |
    ('py', exception name, traceback text)"""
    import vsgrun

    buf = io.StringIO()
    try:
        with contextlib.redirect_stdout(buf), contextlib.redirect_stderr(buf):
            cla, oConfig = vsgrun.make_config(style, docs, tmpdir=tmp, **cla_kw)
        return ("ok", cla, oConfig)
    except SystemExit as e:
        return ("exit", e.code, buf.getvalue()[-300:])
    except Exception as e:  # noqa: BLE001
        return ("py", type(e).__name__, traceback.format_exc()[-600:])


def real_configure(style, docs, fname, tmp):
    """the rule objects as apply_rules configures them for `fname`.
    Returns (outcome, rules) with outcome = ('ok',) | ('err','config',kind,msg) | ('err','py',name,tb) |
    ('err','exit',code,text)"""
    import vsgrun
    from vsg import apply_rules, rule_list
    from vsg.exceptions import ConfigurationError

    rc = real_config(style, docs, tmp)
    if rc[0] == "exit":
        return ("err", "exit", str(rc[1]), rc[2]), None
    if rc[0] == "py":
        return ("err", "py", rc[1], rc[2]), None
    _, cla, oConfig = rc
    try:
        o = vsgrun.parse([""], cla, oConfig, fname)
        rl = rule_list.rule_list(o, oConfig.severity_list)
        with contextlib.redirect_stdout(io.StringIO()):
            apply_rules.configure_rules(oConfig, rl, oConfig.dConfig, 0, fname)
    except ConfigurationError as e:
        kind = "unknownSeverity" if e.message.startswith("ERROR: Severity ") else ("unknownRule" if "could not be found" in e.message else ("deprecated" if "deprecated" in e.message else "other"))
        return ("err", "config", kind, e.message[:300]), None
    except Exception as e:  # noqa: BLE001
        return ("err", "py", type(e).__name__, traceback.format_exc()[-600:]), None
    return ("ok",), rl.rules


MISSING = "<missing>"


def read_rule(oRule, attrs):
    sev = None if oRule.severity is None else (oRule.severity.name, oRule.severity.type)
    vals = {}
    for a in attrs:
        vals[a] = enc_val(oRule.__dict__[a]) if a in oRule.__dict__ else MISSING
    opts = {o.name: enc_val(o.value) for o in oRule.options}
    return sev, vals, opts


def run_file(style, docs, path, tmp, fix=False, all_phases=True, want_junit=True):
    """the real apply_rules.apply_rules on one file.  Returns a dict (exit, violations, junit text,
    stdout, stderr, text after, exc)"""
    from vsg import apply_rules

    rc = real_config(style, docs, tmp, fix=fix, all_phases=all_phases, junit="j.xml" if want_junit else None, json="j.json")
    if rc[0] != "ok":
        return {"exc": rc[1] if rc[0] == "py" else None, "exit": rc[1] if rc[0] == "exit" else None, "config_stage": rc[0], "detail": rc[2], "violations": None}
    _, cla, oConfig = rc
    try:
        with contextlib.redirect_stdout(io.StringIO()):
            fExit, testCase, dJson, sStd, sErr, bStop = apply_rules.apply_rules(cla, oConfig, (0, path))
    except Exception as e:  # noqa: BLE001
        return {"exc": type(e).__name__, "detail": traceback.format_exc()[-700:], "violations": None, "exit": None}
    viol = None
    if isinstance(dJson, dict) and "violations" in dJson:
        viol = sorted((v["rule"], v["linenumber"], v["severity"], v["solution"]) for v in dJson["violations"])
    jtxt = "\n".join(testCase.build_junit()) if testCase is not None and hasattr(testCase, "build_junit") else ""
    return {"exc": None, "exit": bool(fExit), "violations": viol, "junit": jtxt, "stdout": sStd or "", "stderr": sErr or "", "text": open(path, encoding="utf-8").read(), "stop": bStop}


# ------------------------------------------------------------------ stacks


def attr_value(rng, row, name, sev_names):
    if name == "disable" or name == "fixable":
        return rng.choice([True, False])
    if name == "phase":
        return rng.choice([1, 2, 3, 4, 5, 6, 7])
    if name == "severity":
        return rng.choice(sev_names)
    if name == "indent_size":
        return rng.choice([1, 2, 3, 4, 8])
    if name == "indent_style":
        return rng.choice(["spaces", "smart_tabs"])
    if name == "user_error_message":
        return rng.choice(["", "see guide", "team rule 7"])
    if name == "subphase":
        return rng.choice([0, 1, 2, 3])
    if name == "solution":
        return rng.choice(["do it", None])
    if name in ("case_exceptions", "prefix_exceptions", "suffix_exceptions"):
        return rng.choice([["T_WORD", "IEEE"], ["a_"], ["x", "y_"], ["_t", "_i"]])
    if row is not None:
        vals = gen_inputs.option_values(row, name)
        d = row["defaults"].get(name)
        if isinstance(d, bool):
            return rng.choice([True, False])
        if isinstance(d, list):
            return rng.choice([[], ["a_"], ["x", "y_"]])
        if len([v for v in vals if v is not None]) > 0:
            return rng.choice(vals)
    dom = gen_inputs.OPTION_DOMAINS.get(name)
    if dom:
        return rng.choice(dom)
    return rng.choice(["yes", "no", 3, True])


NON_CONFIGURATION = ["subphase", "solution", "bogus_attribute"]  # attributes of the object / unknown names: exercise the guards
# names that many rules hold as plain attributes WITHOUT listing them as configurable (the global level must not reach
# them there: Rule.configure_global_rule_attributes tests `in self.configuration`)
HELD_NOT_CONFIGURABLE = ["case_exceptions", "prefix_exceptions", "suffix_exceptions", "separate_generic_port_alignment", "generate_statement_ends_group"]
GLOBAL_POOL = STANDARD + ["case", "number_of_spaces", "compact_alignment", "style", "blank_line_ends_group"] + HELD_NOT_CONFIGURABLE + NON_CONFIGURATION


def rand_attrs(rng, row, pool, sev_names, kmin=1, kmax=3):
    k = rng.randint(kmin, min(kmax, len(pool)))
    names = rng.sample(pool, k)
    return {n: attr_value(rng, row, n, sev_names) for n in names}


def rand_section(rng, tables, focus, sev_names, allow_sev=True, p_global=0.5, p_group=0.5, p_ids=0.85, extras=True):
    live = {r["id"]: r for r in tables["rules"]}
    drop = set() if extras else set(NON_CONFIGURATION)
    if not allow_sev:
        drop.add("severity")
    sec = {}
    order = ["global", "group", "ids"]
    rng.shuffle(order)
    for part in order:
        if part == "global" and rng.random() < p_global:
            pool = [a for a in GLOBAL_POOL if a not in drop]
            sec["global"] = rand_attrs(rng, None, pool, sev_names)
        elif part == "group" and rng.random() < p_group:
            groups = []
            for rid in focus:
                groups.extend(live[rid]["groups"])
            groups = sorted(set(groups)) or ["case"]
            extra = ["case", "case::keyword", "case::name", "whitespace", "structure", "indent", "alignment", "blank_line", "nonexistent_group"]
            chosen = rng.sample(groups, rng.randint(1, min(3, len(groups))))
            if rng.random() < 0.4:
                chosen.append(rng.choice(extra))
            chosen = list(dict.fromkeys(chosen))
            rng.shuffle(chosen)
            g = {}
            for name in chosen:
                rows = [live[rid] for rid in focus if name in live[rid]["groups"]]
                row = rows[0] if rows else None
                pool = list(GLOBAL_POOL)
                if row is not None:
                    pool += [c for c in row["configuration"] if c not in pool]
                pool = [a for a in pool if a not in drop]
                g[name] = rand_attrs(rng, row, pool, sev_names)
            sec["group"] = g
        elif part == "ids" and rng.random() < p_ids:
            for rid in rng.sample(focus, rng.randint(1, len(focus))):
                row = live[rid]
                pool = [a for a in [c for c in row["configuration"]] + ["subphase", "bogus_attribute"] if a not in drop]
                sec[rid] = rand_attrs(rng, row, pool, sev_names, 1, 4)
    return sec


def rand_stack(rng, tables, fault=None, styles=(None, None, None, None, "jcl", "indent_only"), p_sev=0.35, p_filelevels=0.45, extras=True):
    """a stack = {style, docs, file (the analysed file, with $T), focus}.  `fault` ∈ None, unknownRule,
    deprecatedRule, unknownSeverity, perFileSeverity, unknownRulePerFile"""
    live = [r for r in tables["rules"] if not r["deprecated"] and r["configuration"]]
    rich = [r for r in live if len(r["configuration"]) > len(STANDARD)]
    focus = [r["id"] for r in rng.sample(rich, rng.randint(2, 4))] + [r["id"] for r in rng.sample(live, rng.randint(1, 2))]
    focus = list(dict.fromkeys(focus))
    style = rng.choice(styles)
    ndocs = rng.choice([1, 1, 2, 2, 2, 3])
    sev_names = ["Error", "Warning"]
    sev_doc = None
    sev_section = None
    if rng.random() < p_sev:
        sev_section = {}
        for n, t in rng.sample([("Todo", "error"), ("Future", "warning"), ("Guideline", "warning"), ("Blocker", "error"), ("Error", "warning")], rng.randint(1, 3)):
            sev_section[n] = {"type": t}
        sev_names = sev_names + [n for n in sev_section]
        sev_doc = rng.randrange(ndocs)
    files = [T + "/f0.vhd", T + "/sub/f1.vhd"]
    target = files[0]
    docs = []
    for i in range(ndocs):
        d = {}
        if sev_doc == i:
            d["severity"] = sev_section
        if rng.random() < 0.9:
            d["rule"] = rand_section(rng, tables, focus, sev_names, extras=extras)
        if rng.random() < p_filelevels:
            fl = []
            for _ in range(rng.randint(1, 3)):
                f = rng.choice(files)
                if rng.random() < 0.6:
                    fl.append({f: {"rule": rand_section(rng, tables, focus, sev_names, allow_sev=False, p_global=0.4, p_group=0.4, extras=extras)}})
                else:
                    fl.append(f)
            d["file_list"] = fl
        if rng.random() < p_filelevels:
            fr = []
            for _ in range(rng.randint(1, 2)):
                f = rng.choice(files)
                fr.append({f: {"rule": rand_section(rng, tables, focus, sev_names, allow_sev=False, p_global=0.4, p_group=0.4, extras=extras)}})
            d["file_rules"] = fr
        if not d:
            d["rule"] = rand_section(rng, tables, focus, sev_names, p_ids=1.0, extras=extras)
        docs.append(d)
    if fault == "unknownRule":
        d = rng.choice(docs)
        d.setdefault("rule", {})[rng.choice(["architecture_999", "no_such_rule_001", "entity_0O1"])] = {"disable": True}
    elif fault == "deprecatedRule":
        dep = [r["id"] for r in tables["rules"] if r["deprecated"]]
        d = rng.choice(docs)
        d.setdefault("rule", {})[rng.choice(dep)] = {"disable": rng.choice([True, False])}
    elif fault == "unknownSeverity":
        d = rng.choice(docs)
        lvl = rng.choice(["global", "group", "id"])
        sec = d.setdefault("rule", {})
        if lvl == "global":
            sec.setdefault("global", {})["severity"] = "Critical"
        elif lvl == "group":
            live_ids = {r["id"]: r for r in tables["rules"]}
            sec.setdefault("group", {}).setdefault(live_ids[focus[0]]["groups"][0] if live_ids[focus[0]]["groups"] else "case", {})["severity"] = "Critical"
        else:
            sec.setdefault(focus[0], {})["severity"] = "Critical"
    elif fault in ("perFileSeverity", "unknownRulePerFile"):
        d = rng.choice(docs)
        key = rng.choice(["file_list", "file_rules"])
        entry = {"rule": {focus[0]: {"severity": "Warning"}}} if fault == "perFileSeverity" else {"rule": {"no_such_rule_001": {"disable": True}}}
        d[key] = [{target: entry}] + [e for e in d.get(key, []) if not (isinstance(e, dict) and target in e) and e != target]
        for dd in docs:
            if dd is not d and key == "file_list" and "file_list" in dd:
                dd["file_list"] = [e for e in dd["file_list"] if not (isinstance(e, dict) and target in e) and e != target]
        if key == "file_rules":
            for dd in docs[docs.index(d) + 1 :]:
                dd.pop("file_rules", None)
        if key == "file_list":
            # entries of earlier documents come first in the merged list
            for dd in docs[: docs.index(d)]:
                if "file_list" in dd:
                    dd["file_list"] = [e for e in dd["file_list"] if not (isinstance(e, dict) and target in e) and e != target]
    return {"style": style, "docs": docs, "file": target, "focus": focus, "fault": fault}


def mentioned_names(stack, ids):
    """rule ids and attribute names written anywhere in a stack"""
    names = set()
    attrs = set()

    def sec(s):
        for k, v in s.items():
            if k == "global":
                attrs.update(v)
            elif k == "group":
                for g in v.values():
                    attrs.update(g)
            else:
                if k in ids:
                    names.add(k)
                attrs.update(v)

    docs = list(stack["docs"])
    st = load_style(stack["style"])
    if st:
        docs = [st] + docs
    for d in docs:
        if "rule" in d and isinstance(d["rule"], dict):
            sec(d["rule"])
        for key in ("file_list", "file_rules"):
            for e in d.get(key, []) or []:
                if isinstance(e, dict):
                    for v in e.values():
                        if isinstance(v, dict) and isinstance(v.get("rule"), dict):
                            sec(v["rule"])
    return names, attrs


def make_scratch():
    tmp = tempfile.mkdtemp(prefix="vsgverif-c12-")
    os.makedirs(os.path.join(tmp, "sub"))
    for f in ("f0.vhd", os.path.join("sub", "f1.vhd")):
        with open(os.path.join(tmp, f), "w") as fh:
            fh.write(SMALL_VHDL)
    return tmp


def attr_kind(a):
    if a in ("disable", "fixable"):
        return "bool"
    if a in ("phase", "severity"):
        return a
    if a in ("indent_size", "indent_style", "user_error_message"):
        return "standard"
    if a in ("subphase", "solution"):
        return "non-configuration attribute"
    return "option"


# ------------------------------------------------------------------ one stack: correspondence + property


def classify(lvl, di, nstack, has_style):
    if has_style and di == 0:
        return ("config.process_config_file", "attributeLostAcrossFiles")
    if lvl < 3:
        return ("config.process_config_file", "fileRulesLostAcrossFiles")
    return ("config.process_config_file", "attributeLostAcrossFiles")


def check_stack(drv, tables, stack, tmp, rng, sample=60, query_all=False):
    """returns dict(evals, nontrivial keys, breaks [(what, detail)], fails [(site, kind, detail)])"""
    res = {"evals": 0, "nontrivial": set(), "breaks": [], "fails": [], "outcome": None}
    ids = {r["id"]: r for r in tables["rules"]}
    style_doc = load_style(stack["style"])
    docs = subst(stack["docs"], tmp)
    fname = subst(stack["file"], tmp)
    named, attrs_mentioned = mentioned_names(stack, ids)
    if query_all:
        q = None
        qids = list(ids)
    else:
        pool = [r for r in ids if r not in named]
        qids = sorted(named) + rng.sample(pool, min(sample, len(pool)))
        q = qids
    rep = drv.run(style_doc, docs, fname, q)
    outcome, rules = real_configure(stack["style"], docs, fname, tmp)
    res["outcome"] = (rep["out"], outcome[:3])
    if not rep["domain"]:
        return res
    m = rep["out"]
    # ---- outcome classes
    if m[0] == "err" or outcome[0] == "err":
        mk = (m[1], m[2]) if m[0] == "err" else ("ok", "")
        rk = (outcome[1], outcome[2]) if outcome[0] == "err" else ("ok", "")
        if mk[0] == "exit" and rk[0] == "exit":
            pass
        elif mk != rk:
            res["breaks"].append(("correspondence configure outcome", {"model": m, "real": outcome[:4], "stack": stack}))
        res["evals"] += 1
        if outcome[0] == "err" and outcome[1] == "py":
            site = "apply_rules.configure_rules_per_option" if "severity_list" in outcome[3] else "rule.configure"
            res["fails"].append((site, "traceback", {"exception": outcome[2], "traceback": outcome[3][-300:]}))
        return res
    by_id = {r.unique_id: r for r in rules}
    nstack = len(docs) + 1
    for rid in qids:
        row = ids[rid]
        oRule = by_id.get(rid)
        if oRule is None or rid not in rep["M"]:
            res["breaks"].append(("rule list", {"rule": rid, "in real": oRule is not None, "in model": rid in rep["M"]}))
            continue
        msev, mvals = rep["M"][rid]
        universe = [a for a in dict.fromkeys(list(row["configuration"]) + [a for a in attrs_mentioned if a in row["dictKeys"] or a in mvals]) if a != "severity" and a not in STRUCTURAL]
        rsev, rvals, ropts = read_rule(oRule, universe)
        rsev_enc = "-" if rsev is None else esc(rsev[0]) + US + esc(rsev[1])
        # ---- correspondence: model == real
        if msev != rsev_enc:
            res["breaks"].append(("correspondence severity", {"rule": rid, "model": msev, "real": rsev_enc, "stack": stack}))
        for a in universe:
            mv = mvals.get(a, MISSING)
            if mv == UNKNOWN:
                continue
            res["evals"] += 1
            if mv != rvals[a]:
                res["breaks"].append(("correspondence attribute", {"rule": rid, "attr": a, "model": mv, "real": rvals[a], "stack": stack}))
        for o, v in ropts.items():
            if mvals.get(o) != v:
                pass  # option objects are compared through their own model field (none loaded today)
        # ---- the property: spec (Lean) vs real
        ssev, scells = rep["S"].get(rid, ("=", {}))
        for a in universe:
            if a in scells:
                sv, lvl, di = scells[a]
                expected = sv
            else:
                d = row["defaults"].get(a, None) if a in row["defaults"] else None
                if a not in row["defaults"]:
                    continue
                expected = enc_val(d)
                lvl, di = None, None
            if a in scells:
                res["nontrivial"].add((LEVELS[lvl], "doc%d/%d" % (di, nstack), attr_kind(a)))
            if expected != rvals[a]:
                if mvals.get(a, MISSING) == rvals[a] or mvals.get(a) == UNKNOWN:
                    # the code does what the (proved) single-configuration precedence says of the MERGED
                    # dictionary: the value was lost while the files were merged
                    site, kind = classify(lvl if lvl is not None else 9, di if di is not None else -1, nstack, stack["style"] is not None)
                else:
                    site, kind = "rule.Rule.configure", "precedenceNotObeyed"
                res["fails"].append((site, kind, {"rule": rid, "attribute": a, "required": expected, "required_from": None if lvl is None else {"level": LEVELS[lvl], "document": di}, "observed": rvals[a]}))
        if ssev != "=":
            parts = ssev.split(US)
            if parts[0] == "-":
                exp_sev, lvl, di = "-", int(parts[1]), int(parts[2])
            else:
                exp_sev, lvl, di = parts[0] + US + parts[1], int(parts[2]), int(parts[3])
            res["nontrivial"].add((LEVELS[lvl], "doc%d/%d" % (di, nstack), "severity"))
            if exp_sev != rsev_enc and exp_sev != "-":
                site, kind = classify(lvl, di, nstack, stack["style"] is not None) if msev == rsev_enc else ("rule.Rule.configure", "precedenceNotObeyed")
                res["fails"].append((site, kind, {"rule": rid, "attribute": "severity", "required": exp_sev.replace(US, "/"), "required_from": {"level": LEVELS[lvl], "document": di}, "observed": rsev_enc.replace(US, "/")}))
        if ssev == "=" and rsev_enc != esc(row["sevName"]) + US + ("error" if row["sevError"] else "warning") and rsev is not None:
            res["fails"].append(("rule.Rule.configure", "precedenceNotObeyed", {"rule": rid, "attribute": "severity", "required": "default", "observed": rsev_enc.replace(US, "/")}))
        if rsev is None and not res.get("none_sev_done"):
            # an unknown severity name is not rejected: the rule's severity is None.  What the run does with it:
            res["none_sev_done"] = True
            r = run_file(stack["style"], docs, fname, tmp)
            res["evals"] += 1
            if r.get("exc"):
                res["fails"].append(("severity.create_list.get_severity_named", "traceback", {"rule": rid, "exception": r["exc"], "detail": (r.get("detail") or "")[-250:]}))
        # ---- the literal "style default ranks lowest" reading
        if stack["style"] is not None and rid in rep["T"]:
            tsev, tcells = rep["T"][rid]
            for a in universe:
                if a in tcells and tcells[a] != rvals[a] and (a not in scells or scells[a][0] == rvals[a]):
                    res["fails"].append(("config.read_configuration_files", "styleEntryOutranksUserLevel", {"rule": rid, "attribute": a, "required": tcells[a], "observed": rvals[a], "style": stack["style"]}))
    return res


# ------------------------------------------------------------------ behavioural clauses on real files


def small_files(rng, n):
    fs = sorted(glob.glob(os.path.join(common.REPO, "tests", "styles", "code_examples", "*.vhd")))
    fs = [f for f in fs if os.path.getsize(f) < 9000]
    more = sorted(glob.glob(os.path.join(common.REPO, "tests", "*", "rule_*_test_input.vhd")))
    more = [f for f in more if 300 < os.path.getsize(f) < 4000]
    rng.shuffle(more)
    out = fs + more
    return out[:n] if n <= len(fs) else fs + more[: n - len(fs)]


def copy_in(path, tmp, name=None):
    dst = os.path.join(tmp, name or os.path.basename(path))
    shutil.copyfile(path, dst)
    return dst


def at_level(level, rid, groups, attrs, path):
    """a configuration that sets `attrs` for rule `rid` at the given level"""
    if level == "rule":
        return {"rule": {rid: attrs}}
    if level == "group":
        return {"rule": {"group": {groups[0]: attrs}}}
    if level == "global":
        return {"rule": {"global": attrs}}
    if level == "file_rules":
        return {"file_rules": [{path: {"rule": {rid: attrs}}}]}
    if level == "file_list":
        return {"file_list": [{path: {"rule": {rid: attrs}}}]}
    raise ValueError(level)


def behaviour_job(job):
    """worker: one behavioural scenario on one file.  Returns (fails, evals, nontrivial, notes)"""
    kind = job["kind"]
    tmp = make_scratch()
    fails = []
    evals = 0
    nontrivial = []
    try:
        if job.get("text") is not None:
            path = os.path.join(tmp, "b.vhd")
            with open(path, "w") as fh:
                fh.write(job["text"])
        else:
            path = copy_in(job["path"], tmp, "b.vhd")
        orig = open(path, encoding="utf-8").read()
        base = run_file(None, [], path, tmp)
        evals += 1
        if base.get("violations") is None:
            return fails, evals, nontrivial, ["baseline run failed on %s: %r" % (job.get("path"), base.get("detail"))]
        by_rule = {}
        for v in base["violations"]:
            by_rule.setdefault(v[0], []).append(v)
        rows = job["rows"]
        cand = [r for r in sorted(by_rule) if r in rows and rows[r]["groups"]]
        rng = common.rng("behaviour/%s/%s" % (kind, job.get("path")))
        rng.shuffle(cand)
        if job.get("force_rule"):
            cand = [job["force_rule"]] if job["force_rule"] in by_rule else []
        for rid in cand[: job.get("per_file", 3)]:
            row = rows[rid]
            level = rng.choice(["rule", "group", "global", "file_rules", "file_list"])
            rep = {"check": "behaviour", "kind": kind, "path": job.get("path"), "text": job.get("text"), "rule": rid, "level": level}
            if kind == "disable":
                conf = at_level(level, rid, row["groups"], {"disable": True}, path)
                r = run_file(None, [conf], path, tmp)
                evals += 1
                if r.get("violations") is None:
                    fails.append(("apply_rules.apply_rules", "traceback" if r.get("exc") else "configurationRejected", {"config": conf, "detail": r.get("detail")}, rep))
                    continue
                left = [v for v in r["violations"] if v[0] == rid]
                nontrivial.append(("disable", level))
                if left:
                    fails.append(("rule_list.filter_out_disabled_rules", "disabledRuleReports", {"rule": rid, "level": level, "violations": left[:3]}, rep))
            elif kind == "fixable":
                if not row["fixable"] or row["phase"] == 7:
                    continue
                only = {"rule": {"global": {"disable": True}, rid: {"disable": False}}}
                r_fix = run_file(None, [only], path, tmp, fix=True)
                evals += 1
                changed = open(path, encoding="utf-8").read() != orig
                with open(path, "w") as fh:
                    fh.write(orig)
                conf = at_level(level, rid, row["groups"], {"fixable": False}, path)
                if level in ("group", "global"):
                    # keep every other rule disabled; the level under test still decides `fixable`
                    docs = [{"rule": {"global": dict({"disable": True}, **(conf["rule"].get("global", {}))), "group": conf["rule"].get("group", {}), rid: {"disable": False}}}]
                else:
                    docs = [only, conf] if level != "rule" else [{"rule": {"global": {"disable": True}, rid: {"disable": False, "fixable": False}}}]
                r = run_file(None, docs, path, tmp, fix=True)
                evals += 1
                after = open(path, encoding="utf-8").read()
                with open(path, "w") as fh:
                    fh.write(orig)
                if r.get("violations") is None:
                    fails.append(("apply_rules.apply_rules", "traceback" if r.get("exc") else "configurationRejected", {"config": docs, "detail": r.get("detail")}, rep))
                    continue
                if changed:
                    nontrivial.append(("fixable", level))
                if after != orig:
                    fails.append(("rule.Rule.fix", "reportOnlyRuleChangedFile", {"rule": rid, "level": level}, rep))
                # report-only: a check run under the same configuration still reports the rule (the report of
                # the --fix run itself is not used: the engine's post-phase-1 normalisation edits the in-memory
                # file even when nothing is written, which can hide whitespace_001 there)
                r_chk = run_file(None, docs, path, tmp, fix=False)
                evals += 1
                still = [v for v in (r_chk.get("violations") or []) if v[0] == rid]
                want = [v for v in base["violations"] if v[0] == rid]
                # the file is unchanged, so the rule must still have something to report (the exact list may
                # differ from the baseline: a fix run refreshes indents at phase 4, a check run does not)
                if want and not still:
                    fails.append(("rule.Rule.fix", "reportOnlyRuleStoppedReporting", {"rule": rid, "level": level, "before": want[:3], "after": still[:3]}, rep))
                in_fix_run = [v for v in r["violations"] if v[0] == rid]
                if still and not in_fix_run and after == orig:
                    # neither fixed nor reported: the --fix run says the file is clean, the file is not
                    fails.append(("rule_list.fix", "reportOnlyRuleSilentInFixRun", {"rule": rid, "level": level, "check run reports": still[:3], "--fix run reports": [], "file changed": False, "exit status of the --fix run": r["exit"]}, rep))
            elif kind == "severity":
                if level in ("file_rules", "file_list"):
                    level = "rule"  # per-file severity is a separate scenario (perFileSeverity)
                    rep["level"] = level
                sevname, sevtype = rng.choice([("Warning", "warning"), ("Future", "warning"), ("Todo", "error"), ("Error", "error")])
                sevdoc = {"severity": {"Future": {"type": "warning"}, "Todo": {"type": "error"}}}
                conf = at_level(level, rid, row["groups"], {"severity": sevname}, path)
                if level == "rule":
                    docs = [sevdoc, {"rule": {"global": {"disable": True}, rid: {"disable": False, "severity": sevname}}}]
                else:
                    merged = {"rule": {"global": dict({"disable": True}, **(conf["rule"].get("global", {}))), "group": conf["rule"].get("group", {}), rid: {"disable": False}}}
                    docs = [sevdoc, merged]
                rep["severity"] = sevname
                r = run_file(None, docs, path, tmp)
                evals += 1
                if r.get("violations") is None:
                    fails.append(("apply_rules.apply_rules", "traceback" if r.get("exc") else "configurationRejected", {"config": docs, "detail": r.get("detail")}, rep))
                    continue
                mine = [v for v in r["violations"] if v[0] == rid]
                nontrivial.append(("severity", level, sevname))
                if not mine:
                    fails.append(("rule_list.check_rules", "severityChangeSilencesRule", {"rule": rid, "severity": sevname}, rep))
                    continue
                if any(v[2] != sevname for v in mine):
                    fails.append(("rule.configure", "severityNameNotApplied", {"rule": rid, "wanted": sevname, "got": mine[0][2]}, rep))
                others_error = any(v[0] != rid for v in r["violations"])
                want_exit = sevtype == "error" or others_error
                if r["exit"] != want_exit:
                    fails.append(("rule_list.check_rules", "exitStatusIgnoresSeverity", {"rule": rid, "severity": sevname, "type": sevtype, "exit": r["exit"]}, rep))
                in_junit = (rid + ":") in r["junit"]
                if in_junit != (sevtype == "error"):
                    fails.append(("rule_list.extract_junit_testcase", "junitIgnoresSeverity", {"rule": rid, "severity": sevname, "type": sevtype, "in_junit": in_junit}, rep))
    finally:
        shutil.rmtree(tmp, ignore_errors=True)
    return fails, evals, nontrivial, []


OPTION_TEXTS = {
    "upper": "entity FIFO is\nend entity FIFO;\n\nARCHITECTURE rtl of FIFO is\n\nbegin\n\nend architecture rtl;\n",
    "lower": "entity FIFO is\nend entity FIFO;\n\narchitecture rtl of FIFO is\n\nbegin\n\nend architecture rtl;\n",
}


def option_verdict_checks(tmp):
    """architecture_004 (`architecture` keyword case, docs/architecture_rules.rst): lower => a violation on
    line 4 iff the keyword is not lower case, upper => iff not upper case; the option value given at each
    of the five levels"""
    fails = []
    evals = 0
    nontrivial = []
    rid = "architecture_004"
    for level in ("rule", "group", "global", "file_rules", "file_list"):
        for written in ("upper", "lower"):
            for case in ("upper", "lower"):
                path = os.path.join(tmp, "opt.vhd")
                with open(path, "w") as fh:
                    fh.write(OPTION_TEXTS[written])
                conf = at_level(level, rid, ["case::keyword"], {"case": case}, path)
                r = run_file(None, [conf], path, tmp)
                evals += 1
                rep = {"check": "option", "level": level, "written": written, "case": case}
                if r.get("violations") is None:
                    fails.append(("apply_rules.apply_rules", "traceback" if r.get("exc") else "configurationRejected", {"config": conf, "detail": r.get("detail")}, rep))
                    continue
                mine = [v for v in r["violations"] if v[0] == rid and v[1] == 4]
                nontrivial.append(("option case", level, written, case))
                if bool(mine) != (written != case):
                    fails.append(("rule.configure", "optionValueNotActedOn", {"rule": rid, "level": level, "file has": written, "case": case, "violations": mine}, rep))
    return fails, evals, nontrivial


def error_outcome_checks(tables, tmp, rng, n):
    """unknown / deprecated rule named in a configuration (at the rule section or a per-file section):
    apply_rules must return its configuration-error tuple; through the CLI: exit status 1, the message,
    no traceback"""
    fails = []
    evals = 0
    nontrivial = []
    dep = [r["id"] for r in tables["rules"] if r["deprecated"]]
    path = os.path.join(tmp, "f0.vhd")
    cases = []
    for i in range(n):
        bad = rng.choice(["architecture_999", "no_such_rule_001"]) if i % 2 == 0 else rng.choice(dep)
        where = rng.choice(["rule", "file_rules", "file_list", "second_file"])
        cases.append((bad, where))
    for bad, where in cases:
        entry = {bad: {"disable": rng.choice([True, False])}}
        if where == "rule":
            docs = [{"rule": entry}]
        elif where == "second_file":
            docs = [{"rule": {"entity_004": {"disable": True}}}, {"rule": entry}]
        else:
            docs = [{where: [{path: {"rule": entry}}]}]
        rep = {"check": "errorOutcome", "docs": json.loads(json.dumps(docs).replace(tmp, T)), "bad": bad}
        r = run_file(None, docs, path, tmp)
        evals += 1
        nontrivial.append(("config error", "deprecated" if bad in dep else "unknown", where))
        if r.get("exc"):
            fails.append(("rule_list.configure", "traceback", {"docs": rep["docs"], "detail": r.get("detail")}, rep))
        elif r.get("violations") is not None and not (r["exit"] is True and r["stop"] and bad in r["stderr"]):
            fails.append(("rule_list._validate_configuration_rule_exists" if bad not in dep else "rule.Rule.configure", "badRuleNameIgnored", {"docs": rep["docs"], "exit": r["exit"], "stderr": r["stderr"][:200]}, rep))
    # through the command line
    for bad, where in cases[:3]:
        conf = os.path.join(tmp, "cli.json")
        with open(conf, "w") as fh:
            json.dump({"rule": {bad: {"disable": True}}}, fh)
        code, out = cli(["-f", path, "-c", conf, "-p", "1"])
        evals += 1
        rep = {"check": "errorOutcomeCli", "bad": bad}
        if "Traceback" in out:
            fails.append(("__main__.main", "traceback", {"bad": bad, "output": out[-300:]}, rep))
        elif code != 1 or bad not in out:
            fails.append(("__main__.main", "badRuleNameIgnored", {"bad": bad, "exit": code, "output": out[-300:]}, rep))
    return fails, evals, nontrivial


def cli(argv):
    """vsg.__main__.main in-process; returns (exit code, stdout+stderr)"""
    from vsg import __main__ as vmain

    buf = io.StringIO()
    old = sys.argv
    sys.argv = ["vsg"] + list(argv)
    code = None
    try:
        with contextlib.redirect_stdout(buf), contextlib.redirect_stderr(buf):
            try:
                vmain.main()
            except SystemExit as e:
                code = e.code
            except Exception:  # noqa: BLE001
                buf.write(traceback.format_exc())
                code = "traceback"
    finally:
        sys.argv = old
    if code is None or code is False:
        code = 0
    if code is True:
        code = 1
    return code, buf.getvalue()


def traceback_witnesses(tmp):
    """the two configurations whose effect is an uncaught exception: an unknown severity name (the run must
    end in a configuration error, C12) and a severity given in a per-file section"""
    fails = []
    path = os.path.join(tmp, "f0.vhd")
    w1 = [{"rule": {"architecture_004": {"severity": "Critical"}}}]
    r = run_file(None, w1, path, tmp)
    if r.get("exc"):
        fails.append(("severity.create_list.get_severity_named", "traceback", {"docs": w1, "exception": r["exc"], "detail": r["detail"][-250:]}, {"check": "tracebackWitness", "which": 1}))
    w2 = [{"file_rules": [{path: {"rule": {"architecture_004": {"severity": "Warning"}}}}]}]
    r = run_file(None, w2, path, tmp)
    if r.get("exc"):
        fails.append(("apply_rules.configure_rules_per_option", "traceback", {"docs": json.loads(json.dumps(w2).replace(tmp, T)), "exception": r["exc"], "detail": r["detail"][-250:]}, {"check": "tracebackWitness", "which": 2}))
    return fails, 2


def known_witness(tmp):
    """finding 1 as stated in DESIGN §7, through the real -rc path"""
    c1 = {"rule": {"architecture_013": {"disable": True, "case": "upper"}, "global": {"indent_size": 4}}}
    c2 = {"rule": {"architecture_013": {"case": "lower"}, "global": {"indent_style": "spaces"}}}
    frag = real_rc(None, [c1, c2], "architecture_013", tmp)
    out = []
    if frag and frag[0] == "ok":
        got = frag[1]["rule"]["architecture_013"]
        if got.get("disable") is not True or got.get("indent_size") != 4:
            out.append(("config.process_config_file", "attributeLostAcrossFiles", {"c1": c1, "c2": c2, "required": {"disable": True, "indent_size": 4, "case": "lower"}, "observed (-rc architecture_013)": {k: got.get(k) for k in ("disable", "indent_size", "case")}}, {"check": "knownWitness"}))
    return out


# ------------------------------------------------------------------ C17: -oc / -rc


def real_oc(style, docs, tmp, filenames=()):
    """the real generate_output_configuration.  ('ok', text) | ('py', name, tb) | ('exit', code, text)"""
    from vsg import __main__ as vmain

    out = os.path.join(tmp, "oc_%d.json" % (len(os.listdir(tmp))))
    rc = real_config(style, docs, tmp, output_configuration=out, filename=list(filenames))
    if rc[0] != "ok":
        return rc
    _, cla, oConfig = rc
    try:
        with contextlib.redirect_stdout(io.StringIO()):
            try:
                vmain.generate_output_configuration(cla, oConfig)
            except SystemExit:
                pass
        text = open(out, encoding="utf-8").read()
        os.remove(out)
        return ("ok", text)
    except Exception as e:  # noqa: BLE001
        return ("py", type(e).__name__, traceback.format_exc()[-500:])


def real_rc(style, docs, rid, tmp):
    from vsg import __main__ as vmain

    rc = real_config(style, docs, tmp, rule_configuration=rid)
    if rc[0] != "ok":
        return rc
    _, cla, oConfig = rc
    buf = io.StringIO()
    try:
        with contextlib.redirect_stdout(buf):
            try:
                vmain.display_rule_configuration(cla, oConfig)
            except SystemExit:
                pass
        return ("ok", json.loads(buf.getvalue()))
    except Exception as e:  # noqa: BLE001
        return ("py", type(e).__name__, traceback.format_exc()[-500:])


def all_effective(style, docs, fname, tmp):
    outcome, rules = real_configure(style, docs, fname, tmp)
    if outcome[0] != "ok":
        return outcome, None
    eff = {}
    for r in rules:
        if r.deprecated:
            continue
        sev = None if r.severity is None else (r.severity.name, r.severity.type)
        attrs = {a: enc_val(getattr(r, a, None)) for a in r.configuration if a != "severity"}
        # ... and what the rule acts on without listing it as configurable (exception lists of the plain case rules,
        # `*_ends_group` switches of alignment rules, `style` of some blank-line rules): a configuration level that
        # reaches such an attribute changes the run, so the emitted file has to reproduce it as well
        for a, v in vars(r).items():
            if a in r.configuration or a in _VOLATILE_RULE_STATE or a.startswith("_"):
                continue
            if isinstance(v, (bool, int, str, type(None))) or (isinstance(v, list) and all(isinstance(x, (str, int, bool)) for x in v)):
                attrs["<state> " + a] = enc_val(v)
        eff[r.unique_id] = (sev, attrs)
    return outcome, eff


_VOLATILE_RULE_STATE = {"violations", "had_violations", "dFix", "debug", "configuration", "options", "prerequisites", "groups", "lTokens", "message", "regexp_exceptions", "severity"}


def fix_and_report(args):
    """worker: violations before fix, fixed text, violations after — under one configuration"""
    style, docs, src, rel = args
    tmp = make_scratch()
    try:
        docs = subst(docs, tmp)
        path = os.path.join(tmp, rel)
        shutil.copyfile(src, path)
        before = run_file(style, docs, path, tmp, fix=False)
        if before.get("violations") is None:
            return {"error": before.get("exc") or before.get("config_stage"), "detail": (before.get("detail") or "")[-300:]}
        if before.get("stderr", "").startswith("Error while processing") and "ERROR: Severity " in before["stderr"]:
            # the configuration is rejected (unknown severity name, a ConfigurationError since the repo repair): not a run without violations
            return {"error": "ConfigurationError", "detail": before["stderr"][-300:]}
        after = run_file(style, docs, path, tmp, fix=True)
        if after.get("violations") is None:
            return {"error": after.get("exc") or after.get("config_stage"), "detail": (after.get("detail") or "")[-300:]}
        return {"error": None, "before": before["violations"], "exit": before["exit"], "text": after["text"], "after": after["violations"]}
    finally:
        shutil.rmtree(tmp, ignore_errors=True)


def oc_stack(rng, tables, style, flavour):
    """stacks for C17: `plain` = rule section only with built-in severities, `sev` = user severities,
    `perfile` = file_rules / file_list sections"""
    if flavour == "plain":
        st = rand_stack(rng, tables, styles=(style,), p_sev=0.0, p_filelevels=0.0, extras=False)
    elif flavour == "sev":
        st = rand_stack(rng, tables, styles=(style,), p_sev=1.0, p_filelevels=0.0, extras=False)
        # make sure a user severity is actually used
        names = [n for d in st["docs"] for n in d.get("severity", {}) if n != "Error"]
        if names:
            st["docs"][-1].setdefault("rule", {}).setdefault(st["focus"][0], {})["severity"] = names[0]
            for d in st["docs"]:
                if "severity" in d and d is not st["docs"][-1]:
                    st["docs"][-1]["severity"] = d.pop("severity")
    else:
        st = rand_stack(rng, tables, styles=(style,), p_sev=0.0, p_filelevels=1.0, extras=False)
    st["flavour"] = flavour
    return st


def _set_at_group_level(st, name):
    """is `name` given below some `group:` key of the stack (rule section or a per-file rule section)?"""
    def sections(d):
        if isinstance(d.get("rule"), dict):
            yield d["rule"]
        for e in d.get("file_list", []) or []:
            if isinstance(e, dict):
                for v in e.values():
                    if isinstance(v, dict) and isinstance(v.get("rule"), dict):
                        yield v["rule"]
        for e in d.get("file_rules", []) or []:
            if isinstance(e, dict):
                for v in e.values():
                    if isinstance(v, dict) and isinstance(v.get("rule"), dict):
                        yield v["rule"]
    for d in st["docs"]:
        for sec in sections(d):
            for g in (sec.get("group") or {}).values():
                if isinstance(g, dict) and name in g:
                    return True
    return False


def has_per_file(st):
    """does the stack carry rule sections below a file name?"""
    for d in st["docs"]:
        if d.get("file_rules"):
            return True
        if any(isinstance(e, dict) for e in d.get("file_list", [])):
            return True
    return False


def check_oc_stack(drv, tables, st, tmp, files, pool, res_acc):
    """the -oc round trip of one stack.  Appends to res_acc: fails, breaks, evals, nontrivial"""
    docs = subst(st["docs"], tmp)
    style = st["style"]
    fname = subst(st["file"], tmp)
    rep_in = {"check": "oc", "stack": st}
    e1 = real_oc(style, docs, tmp)
    res_acc["evals"] += 1
    if e1[0] != "ok":
        if e1[0] == "py":
            res_acc["fails"].append(("__main__.generate_output_configuration", "traceback", {"exception": e1[1], "detail": e1[2][-250:]}, rep_in))
        return
    text1 = e1[1]
    d1 = json.loads(text1)
    # ---- correspondence: the model's emitted document
    m = drv.run(load_style(style), docs, fname, [], mode="oc")
    if m["out"] != ("ok",):
        res_acc["breaks"].append(("correspondence -oc outcome", {"model": m["out"], "real": "ok", "stack": st}))
    else:
        real_rule = {rid: {a: enc_val(v) for a, v in attrs.items()} for rid, attrs in d1["rule"].items()}
        if real_rule != m["O"]:
            diff = [rid for rid in set(real_rule) | set(m["O"]) if real_rule.get(rid) != m["O"].get(rid)][:3]
            res_acc["breaks"].append(("correspondence -oc rule section", {"rules": diff, "real": {r: real_rule.get(r) for r in diff}, "model": {r: m["O"].get(r) for r in diff}, "stack": st}))
        real_fl = d1.get("file_list")
        if (real_fl or None) != (m["ocf"] or None):
            res_acc["breaks"].append(("correspondence -oc file_list", {"real": real_fl, "model": m["ocf"], "stack": st}))
    # ---- emit again from the emitted file, no style
    e2 = real_oc(None, [d1], tmp)
    res_acc["evals"] += 1
    uses_user_sev = any(a.get("severity") not in ("Error", "Warning") for a in d1["rule"].values())
    if e2[0] != "ok":
        kind = "userSeverityNotEmitted" if uses_user_sev else ("traceback" if e2[0] == "py" else "emittedConfigurationRejected")
        res_acc["fails"].append(("__main__.generate_output_configuration", kind, {"second -oc": e2[:2], "detail": str(e2[2])[-250:], "style": style}, rep_in))
    elif e2[1] != text1:
        d2 = json.loads(e2[1])
        diff = [rid for rid in d1["rule"] if d1["rule"][rid] != d2["rule"].get(rid)][:3]
        top = [k for k in set(d1) | set(d2) if k != "rule" and d1.get(k) != d2.get(k)]
        res_acc["fails"].append(("__main__.generate_output_configuration", "secondEmissionDiffers", {"rules": {r: [d1["rule"][r], d2["rule"].get(r)] for r in diff}, "top-level keys": top, "style": style}, rep_in))
    # ---- effective configuration of every rule, for the analysed file
    held_by_group = False
    oa, eff_a = all_effective(style, docs, fname, tmp)
    ob, eff_b = all_effective(None, [d1], fname, tmp)
    res_acc["evals"] += 2
    if oa[0] == "ok":
        if ob[0] != "ok":
            # an emitted file that names a user-defined severity is rejected since the repo repair of the severity look-up
            # (ConfigurationError instead of severity None): the same defect of -oc as below, same identity
            res_acc["fails"].append(("__main__.generate_output_configuration", "userSeverityNotEmitted" if uses_user_sev else "emittedConfigurationRejected", {"outcome": ob[:3], "style": style}, rep_in))
        else:
            for rid in eff_a:
                if eff_a[rid] != eff_b.get(rid):
                    sa, va = eff_a[rid]
                    sb, vb = eff_b.get(rid, (None, {}))
                    attrs = [a for a in va if va[a] != vb.get(a)]
                    if sa != sb:
                        kind = "userSeverityNotEmitted" if sb is None else "severityNotReproduced"
                        det = {"rule": rid, "severity under the run": sa, "under the emitted file": sb}
                    else:
                        kind = "perFileRulesNotEmitted" if has_per_file(st) else "effectiveConfigurationNotReproduced"
                        held = [a[len("<state> "):] for a in attrs if a.startswith("<state> ")]
                        if held and len(held) == len(attrs) and all(_set_at_group_level(st, a) for a in held):
                            # the GROUP level reaches every attribute in the rule's __dict__ (as coded), -oc emits only
                            # the names in rule.configuration: a defect of the pinned tree of its own (known finding)
                            kind = "heldAttributeSetByGroupNotEmitted"
                            held_by_group = True
                        det = {"rule": rid, "attributes": {a: [va[a], vb.get(a)] for a in attrs[:4]}, "file": st["file"]}
                    res_acc["fails"].append(("__main__.generate_output_configuration", kind, det, rep_in))
                    break
            res_acc["nontrivial"].add((style, st["flavour"], "effective"))
    # ---- violations and fixes on real files under both configurations
    jobs = []
    rel = "f0.vhd"
    for f in files:
        jobs.append((style, st["docs"], f, rel))
        jobs.append((None, [json.loads(text1)], f, rel))
    outs = pool.map(fix_and_report, jobs)
    for i, f in enumerate(files):
        a, b = outs[2 * i], outs[2 * i + 1]
        res_acc["evals"] += 2
        if a.get("error"):
            continue  # the run itself fails under the original configuration: nothing to reproduce
        if b.get("error"):
            kind = "userSeverityNotEmitted" if uses_user_sev else "emittedConfigurationFailsRun"
            res_acc["fails"].append(("__main__.generate_output_configuration", kind, {"file": os.path.relpath(f, common.REPO), "error": b["error"], "detail": b.get("detail"), "style": style}, dict(rep_in, file=f)))
            continue
        if a["before"] or a["text"] != open(f, encoding="utf-8").read():
            res_acc["nontrivial"].add((style, st["flavour"], os.path.basename(f)))
        if a["before"] != b["before"] or a["after"] != b["after"] or a["text"] != b["text"] or a["exit"] != b["exit"]:
            what = "violations" if a["before"] != b["before"] else ("fixed text" if a["text"] != b["text"] else "violations after fix / exit status")
            only_a = [v for v in a["before"] if v not in b["before"]][:3]
            only_b = [v for v in b["before"] if v not in a["before"]][:3]
            kind = "perFileRulesNotEmitted" if has_per_file(st) else ("heldAttributeSetByGroupNotEmitted" if held_by_group else "runNotReproduced")
            res_acc["fails"].append(("__main__.generate_output_configuration", kind, {"file": os.path.relpath(f, common.REPO), "differs": what, "only under the run": only_a, "only under the emitted file": only_b, "style": style}, dict(rep_in, file=f)))
    # ---- -rc fragment of a configured rule fed back
    ids = {r["id"]: r for r in tables["rules"]}
    named, _ = mentioned_names(st, ids)
    for rid in sorted(named)[:2]:
        if ids[rid]["deprecated"]:
            continue
        frag = real_rc(style, docs, rid, tmp)
        res_acc["evals"] += 1
        if frag[0] != "ok":
            continue
        oc_, eff_c = all_effective(None, [frag[1]], os.path.join(tmp, "other.vhd"), tmp)
        oa2, eff_a2 = all_effective(style, docs, os.path.join(tmp, "other.vhd"), tmp)
        if oa2[0] != "ok":
            continue
        if oc_[0] != "ok":
            kind = "userSeverityNotEmitted" if frag[1]["rule"][rid].get("severity") not in ("Error", "Warning") else "emittedFragmentRejected"
            res_acc["fails"].append(("__main__.display_rule_configuration", kind, {"rule": rid, "outcome": oc_[:3]}, dict(rep_in, rc=rid)))
        elif eff_c[rid] != eff_a2[rid]:
            kind = "userSeverityNotEmitted" if eff_c[rid][0] is None else "fragmentNotReproduced"
            da = [a for a in eff_a2[rid][1] if eff_a2[rid][1][a] != eff_c[rid][1].get(a)]
            if eff_c[rid][0] == eff_a2[rid][0] and da and all(a.startswith("<state> ") and _set_at_group_level(st, a[len("<state> "):]) for a in da):
                kind = "heldAttributeSetByGroupNotEmitted"
            res_acc["fails"].append(("__main__.display_rule_configuration", kind, {"rule": rid, "under the run": eff_a2[rid][0], "under the fragment": eff_c[rid][0], "attributes": [a for a in eff_a2[rid][1] if eff_a2[rid][1][a] != eff_c[rid][1].get(a)]}, dict(rep_in, rc=rid)))


# ------------------------------------------------------------------ run


def table_sanity(res, tables):
    """facts about the rule objects the model relies on"""
    from vsg import deprecated_rule, rule_list

    rules = rule_list.load_rules()
    for r in rules:
        if bool(r.deprecated) != isinstance(r, deprecated_rule.Rule):
            res.proof_break("model assumption deprecated attribute = deprecated class", r.unique_id)
        if r.unique_id != r.get_unique_id():
            res.proof_break("model assumption unique_id = get_unique_id()", r.unique_id)
    ids = [r.unique_id for r in rules]
    if len(set(ids)) != len(ids):
        res.proof_break("model assumption distinct rule ids", "duplicates")


def run_c12(res, tables, tier):
    n_stacks = 300 if tier == "quick" else 5000
    n_fault = 40 if tier == "quick" else 400
    rng = common.rng("c12")
    tmp = make_scratch()
    drv = CfgDriver(tables)
    evals = 0
    nontrivial = set()
    samples = []
    fail_counts = {}
    outcomes = {}
    try:
        table_sanity(res, tables)
        faults = ["unknownRule", "deprecatedRule", "unknownSeverity", "perFileSeverity", "unknownRulePerFile"]
        for i in range(n_stacks + n_fault):
            fault = None if i < n_stacks else faults[(i - n_stacks) % len(faults)]
            st = rand_stack(rng, tables, fault=fault)
            out = check_stack(drv, tables, st, tmp, rng, query_all=(i % 10 == 0))
            evals += out["evals"]
            nontrivial |= out["nontrivial"]
            oc = "%s|%s" % (out["outcome"][0][:3] if out["outcome"] else None, out["outcome"][1] if out["outcome"] else None)
            outcomes[oc] = outcomes.get(oc, 0) + 1
            for what, detail in out["breaks"][:3]:
                res.proof_break(what, detail)
            for site, kind, detail in out["fails"]:
                fail_counts[(site, kind)] = fail_counts.get((site, kind), 0) + 1
                if fail_counts[(site, kind)] <= 2:
                    res.fail(site, kind, detail, {"check": "stack", "stack": st})
            if len(samples) < 4 and out["fails"]:
                samples.append({"stack": st, "first": out["fails"][0][:2]})
        # concrete witnesses
        for site, kind, detail, rep in known_witness(tmp):
            res.fail(site, kind, detail, rep)
            evals += 1
        f, e = traceback_witnesses(tmp)
        evals += e
        for site, kind, detail, rep in f:
            res.fail(site, kind, detail, rep)
        f, e, nt = option_verdict_checks(tmp)
        evals += e
        nontrivial |= set(nt)
        for site, kind, detail, rep in f:
            res.fail(site, kind, detail, rep)
        f, e, nt = error_outcome_checks(tables, tmp, rng, 8 if tier == "quick" else 40)
        evals += e
        nontrivial |= set(nt)
        for site, kind, detail, rep in f:
            res.fail(site, kind, detail, rep)
    finally:
        drv.close()
        shutil.rmtree(tmp, ignore_errors=True)
    # behavioural clauses on real files, in parallel
    files = small_files(rng, 8 if tier == "quick" else 60)
    rows = {r["id"]: {k: r[k] for k in ("groups", "fixable", "phase", "configuration")} for r in tables["rules"] if not r["deprecated"]}
    jobs = []
    for f in files:
        for kind in ("disable", "fixable", "severity"):
            jobs.append({"kind": kind, "path": f, "rows": rows, "per_file": 2 if tier == "quick" else 4})
    jobs.append({"kind": "fixable", "path": None, "text": "entity e is   \nend entity e;\n", "rows": rows, "per_file": 1, "force_rule": "whitespace_001"})
    with multiprocessing.Pool(min(16, os.cpu_count() or 4)) as pool:
        for fails, e, nt, notes in pool.imap_unordered(behaviour_job, jobs):
            evals += e
            nontrivial |= set(nt)
            res.notes.extend(notes[:1])
            for site, kind, detail, rep in fails:
                res.fail(site, kind, detail, rep)
    res.coverage.update(
        {
            "evaluations": evals,
            "distinct_nontrivial": len(nontrivial),
            "rule": "an evaluation = one (rule, attribute) of a random stack of 1-3 configuration documents (+ optional predefined style) compared real vs Lean model and real vs Lean specification, or one real run of a behavioural scenario; non-trivial = a distinct (level that supplies the value, document position, attribute kind) combination in which a configuration level actually set the attribute, or a behavioural scenario in which the configured rule had violations to silence / fix / re-grade",
            "samples": samples or [{"note": "no failing stack", "nontrivial": sorted(map(str, nontrivial))[:8]}],
            "stacks": n_stacks + n_fault,
            "outcome_classes (model|real)": outcomes,
            "failure_counts": {"%s/%s" % k: v for k, v in fail_counts.items()},
            "behaviour_files": [os.path.relpath(f, common.REPO) for f in files],
        }
    )
    res.assumptions = [
        "configuration documents of the documented shape whose attribute names are not one of %s (the attributes the configure code itself reads): outside that domain the model is not claimed" % STRUCTURAL,
        "rule descriptors (id, groups, configuration, __dict__ keys, defaults) are those of .cache/tables.json, regenerated from the instantiated rule objects on every run; deprecated attribute = deprecated class (checked on every run)",
        "glob of a file_list entry = the entry itself (the stacks name existing files without wildcards)",
        "the multi-document specification ranks levels first and documents second; file_list follows the documentation's exemption from 'last configuration wins'",
    ]


def run_c17(res, tables, tier):
    per_style = {"quick": {"plain": 2, "sev": 1, "perfile": 1}, "thorough": {"plain": 16, "sev": 4, "perfile": 4}}[tier]
    nfiles = 10 if tier == "quick" else 30
    rng = common.rng("c17")
    tmp = make_scratch()
    drv = CfgDriver(tables)
    files = small_files(rng, nfiles)
    acc = {"evals": 0, "fails": [], "breaks": [], "nontrivial": set()}
    stacks = []
    try:
        with multiprocessing.Pool(min(16, os.cpu_count() or 4)) as pool:
            for style in (None, "jcl", "indent_only"):
                for flavour, n in per_style.items():
                    for _ in range(n):
                        st = oc_stack(rng, tables, style, flavour)
                        stacks.append(st)
                        check_oc_stack(drv, tables, st, tmp, files, pool, acc)
    finally:
        drv.close()
        shutil.rmtree(tmp, ignore_errors=True)
    counts = {}
    for site, kind, detail, rep in acc["fails"]:
        counts[(site, kind)] = counts.get((site, kind), 0) + 1
        if counts[(site, kind)] <= 2:
            res.fail(site, kind, detail, rep)
    for what, detail in acc["breaks"][:5]:
        res.proof_break(what, detail)
    res.coverage.update(
        {
            "evaluations": acc["evals"],
            "distinct_nontrivial": len(acc["nontrivial"]),
            "rule": "an evaluation = one real -oc / -rc emission, one read-back of all rules' effective attributes, or one real check+fix run of a file under the original or the emitted configuration; non-trivial = a distinct (style, stack flavour, file) whose run reported violations or changed the file",
            "samples": [{"style": s["style"], "flavour": s["flavour"], "docs": s["docs"]} for s in stacks[:2]],
            "stacks": len(stacks),
            "files": [os.path.relpath(f, common.REPO) for f in files],
            "failure_counts": {"%s/%s" % k: v for k, v in counts.items()},
        }
    )
    res.assumptions = [
        "same domain as C12 (documented shape, no structural attribute names)",
        "`indent` and `pragma` travel through the model as opaque values; their idempotence under config.New is checked by the byte comparison of the two emitted files only",
        "every name in a rule's `configuration` is an attribute of the rule object (table fact configInDict, proved for the regenerated table)",
    ]


def run(prop, tier):
    res = common.Result(prop, tier)
    ok_model, tables, nobl, ndis, thms = common.lean_phase(res, prop)
    if not ok_model:
        return res.finish(max(nobl, 1), 0, "lake build VsgModel driver VsgProofs.Properties.%s" % prop, thms)
    if prop == "C12":
        run_c12(res, tables, tier)
    else:
        run_c17(res, tables, tier)
    return res.finish(max(nobl, 1), ndis, "cd lean && lake build VsgProofs.Properties.%s && lake env lean <audit file with #print axioms>" % prop, thms)


# ------------------------------------------------------------------ replay


def replay(prop, path):
    import gen_tables

    tables, _ = gen_tables.generate()
    d = json.load(open(path))
    if d.get("kind") == "no-failing-input-found":
        print(json.dumps(d, indent=1)[:3000])
        return 0
    inp = d["input"]
    want = (d["site"], d["failure"])
    tmp = make_scratch()
    found = []
    try:
        chk = inp.get("check")
        if chk == "stack":
            if not leanio.lake_build()[0]:
                print("lake build failed")
                return 2
            drv = CfgDriver(tables)
            try:
                out = check_stack(drv, tables, inp["stack"], tmp, common.rng("replay"), query_all=True)
            finally:
                drv.close()
            found = [(s, k, det) for s, k, det in out["fails"]]
        elif chk == "knownWitness":
            found = [(s, k, det) for s, k, det, _ in known_witness(tmp)]
        elif chk == "tracebackWitness":
            found = [(s, k, det) for s, k, det, _ in traceback_witnesses(tmp)[0]]
        elif chk == "option":
            found = [(s, k, det) for s, k, det, _ in option_verdict_checks(tmp)[0]]
        elif chk in ("errorOutcome", "errorOutcomeCli"):
            found = [(s, k, det) for s, k, det, _ in error_outcome_checks(tables, tmp, common.rng("c12"), 8)[0]]
        elif chk == "behaviour":
            rows = {r["id"]: {k: r[k] for k in ("groups", "fixable", "phase", "configuration")} for r in tables["rules"] if not r["deprecated"]}
            fails, _, _, _ = behaviour_job({"kind": inp["kind"], "path": inp.get("path"), "text": inp.get("text"), "rows": rows, "per_file": 4, "force_rule": inp.get("rule")})
            found = [(s, k, det) for s, k, det, _ in fails]
        elif chk == "oc":
            if not leanio.lake_build()[0]:
                print("lake build failed")
                return 2
            drv = CfgDriver(tables)
            acc = {"evals": 0, "fails": [], "breaks": [], "nontrivial": set()}
            files = [inp["file"]] if inp.get("file") else small_files(common.rng("c17"), 3)
            try:
                with multiprocessing.Pool(4) as pool:
                    check_oc_stack(drv, tables, inp["stack"], tmp, files, pool, acc)
            finally:
                drv.close()
            found = [(s, k, det) for s, k, det, _ in acc["fails"]]
    finally:
        shutil.rmtree(tmp, ignore_errors=True)
    hit = [f for f in found if (f[0], f[1]) == want]
    for s, k, det in hit[:3]:
        print("REPRODUCED property=%s site=%s kind=%s %s" % (prop, s, k, json.dumps(det, default=str)[:600]))
    if not hit:
        print("not reproduced; other failures seen: %s" % sorted({(f[0], f[1]) for f in found}))
    return 1 if hit else 0
