"""
Instrumented full-rule-set fix runs over (file × variant × configuration) jobs, each step
checked by the Lean trace checker.  Results are cached per (tree hash, job list) so that the
properties sharing the runs (C01 C02 C03 C07 C10 C18 C19) do not repeat them.
"""
import collections
import copy
import hashlib
import json
import multiprocessing
import os
import sys
import time
import traceback

sys.path.insert(0, os.path.dirname(os.path.abspath(__file__)))

import common  # noqa: E402
import gen_inputs  # noqa: E402

_W = {}


def _init():
    import vsgrun

    tables = json.load(open(os.path.join(common.CACHE, "tables.json")))
    _W["tables"] = tables
    _W["ci"] = vsgrun.ClassIndex(tables)
    _W["ncls"] = len(tables["classes"])
    _W["configs"] = {}
    _W["owner"] = {r["id"]: short_owner(r["fixVOwner"]) for r in tables["rules"]}
    _W["fullowner"] = {r["id"]: r["fixVOwner"] for r in tables["rules"]}
    _W["modelled_owners"] = modelled_owners()


def modelled_owners():
    """owners listed in lean/VsgModel/Base/Dispatch.lean (string literals starting with vsg.rules.)"""
    import re

    p = os.path.join(common.LEAN, "VsgModel", "Base")
    names = set()
    for f in os.listdir(p):
        if f.endswith(".lean"):
            names.update(re.findall(r'"(vsg\.rules\.[A-Za-z0-9_.]+)"', open(os.path.join(p, f), encoding="utf-8").read()))
    return names


def sweep_short(owner):
    return short_owner(owner)


def short_owner(owner):
    """`vsg.rules.token_case.token_case` -> `token_case`; `vsg.rules.after.rule_001.rule_001` -> `after.rule_001`"""
    if not owner:
        return "?"
    parts = owner.split(".")
    if parts[:2] == ["vsg", "rules"]:
        parts = parts[2:]
    if len(parts) >= 2 and parts[-1] == parts[-2]:
        parts = parts[:-1]
    return ".".join(parts)


def crash_site(exc):
    """innermost frame inside /repo/vsg of a traceback: the call site of a C19 finding"""
    tb = exc.__traceback__
    site = None
    while tb is not None:
        fn = tb.tb_frame.f_code.co_filename
        if "/vsg/" in fn and "/verif/" not in fn:
            site = "%s:%s" % (fn.split("/vsg/", 1)[1], tb.tb_frame.f_code.co_name)
        tb = tb.tb_next
    return site or "?"


def job_config(job):
    import random

    import vsgrun

    name = job["config"]
    key = (name, job.get("cseed"))
    tables = _W["tables"]
    if name == "exceptions":
        # string-list options drawn from the identifiers of this very input
        style, dicts = gen_inputs.named_config(name, tables, random.Random("cfg/%s/%s/%s" % (name, job.get("cseed"), common.rel(job.get("path", "")))), text=job_text(job))
        cla, oc = vsgrun.make_config(style=style, conf_dicts=dicts)
        return cla, oc, style, dicts
    if key not in _W["configs"] or name.startswith("random"):
        style, dicts = gen_inputs.named_config(name, tables, random.Random("cfg/%s/%s" % (name, job.get("cseed"))))
        cla, oc = vsgrun.make_config(style=style, conf_dicts=dicts)
        _W["configs"][key] = (cla, oc, style, dicts)
    return _W["configs"][key]


def job_text(job):
    import random

    text = gen_inputs.read_text(job["path"]) if "path" in job else job["text"]
    if job.get("variant", "orig") != "orig":
        text = gen_inputs.variant(text, random.Random("var/%s/%s/%s" % (common.rel(job["path"]), job["variant"], job.get("vseed"))), job["variant"])
    return text


def describe(job, style, dicts, text=None):
    d = {k: job[k] for k in ("path", "variant", "vseed", "config", "cseed", "fix_only_all", "fix_only_lines", "fix_phase", "skip_phase", "directed_rule") if k in job}
    d["style"] = style
    d["config_dicts"] = dicts
    if text is not None:
        d["text"] = text
    return d


def toi_check(oFile, oRule, lToi, fails, job_desc):
    """C18 at analysis time: recomputed index == stored index; each TOI is its slice modulo bof"""
    from vsg import parser as vparser
    from vsg.token_map import process_tokens

    lAll = oFile.lAllObjects
    try:
        fresh = process_tokens(lAll).dMap
        if fresh != oFile.oTokenMap.dMap:
            fails.append({"prop": "C18", "site": oRule.unique_id, "kind": "staleIndex", "detail": "token index differs from recomputation when %s analyses" % oRule.unique_id})
    except Exception as e:  # noqa: BLE001
        fails.append({"prop": "C18", "site": oRule.unique_id, "kind": "indexRecomputeRaised", "detail": repr(e)})
    if lToi is None:
        return 0
    n = 0
    for t in lToi:
        try:
            toks = [o for o in t.lTokens if not isinstance(o, vparser.beginning_of_file)]
            s = t.iStartIndex
        except Exception:  # noqa: BLE001
            continue
        n += 1
        ok = isinstance(s, int) and s >= 0 and s + len(toks) <= len(lAll) and all(a is b for a, b in zip(toks, lAll[s : s + len(toks)]))
        if ok and t.iEndIndex != s + len(toks):
            ok = False
        if not ok:
            fails.append({"prop": "C18", "site": oRule.unique_id, "kind": "toiNotSlice", "detail": "start=%r end=%r len=%d" % (s, getattr(t, "iEndIndex", None), len(toks))})
            break
    return n


JOB_ALARM_S = 240


class JobTimeout(BaseException):
    pass


def _job_alarm(signum, frame):
    raise JobTimeout()


def run_job(job):
    import signal

    signal.signal(signal.SIGALRM, _job_alarm)
    signal.alarm(JOB_ALARM_S)
    try:
        return run_job_inner(job)
    except JobTimeout as e:
        # a job that does not finish: a hang of the real code (C19), reported with the innermost frame
        site = crash_site(e)
        out = {"job": {k: job[k] for k in job if k != "text"}, "failures": [], "fired": {}, "steps": 0, "changed": 0, "upd": {}, "parse": "ok", "wall": float(JOB_ALARM_S), "tois": 0, "idem": 0}
        try:
            cla, oc, style, dicts = job_config(job)
            inp = describe(job, style, dicts, job_text(job))
        except Exception:  # noqa: BLE001
            inp = {k: job[k] for k in job if k != "text"}
        out["failures"].append({"prop": "C19", "site": site, "kind": "hang", "detail": "no result after %d s (parse + full fix run)" % JOB_ALARM_S, "input": inp})
        out["failures"].append({"prop": "CORR", "site": site, "kind": "job-timeout", "detail": "instrumented run did not finish within %d s: nothing could be checked for this input" % JOB_ALARM_S, "input": inp})
        return out
    except Exception:  # noqa: BLE001 - an error of the harness, never a violation
        return {"job": {k: job[k] for k in job if k != "text"}, "failures": [], "fired": {}, "steps": 0, "changed": 0, "upd": {}, "parse": "harness: " + traceback.format_exc()[-800:], "wall": 0.0, "tois": 0, "idem": 0}
    finally:
        signal.alarm(0)


def _selects_lines(fix_only):
    """a --fix_only document that restricts some rule to line numbers (anything but "all")"""
    try:
        sel = fix_only.get("fix", {}).get("rule", {})
    except AttributeError:
        return False
    return any(any(x != "all" for x in v) for v in sel.values())


def run_job_inner(job):
    """returns dict: failures (list), stats"""
    import vsgrun
    import tracecheck
    from vsg import exceptions as vexc

    feats = set(job.get("features", ["trace"]))
    out = {"job": {k: job[k] for k in job if k != "text"}, "failures": [], "fired": {}, "steps": 0, "changed": 0, "upd": {}, "parse": "ok", "wall": 0.0, "tois": 0, "idem": 0}
    t0 = time.time()
    try:
        cla, oc, style, dicts = job_config(job)
        text = job_text(job)
    except Exception as e:  # noqa: BLE001
        out["parse"] = "harness: " + repr(e)
        return out
    lines = vsgrun.text_to_lines(text)
    desc = describe(job, style, dicts)
    try:
        o = vsgrun.parse(lines, cla, oc)
    except vexc.ClassifyError:
        out["parse"] = "rejected"
        return out
    except Exception as e:  # noqa: BLE001
        out["parse"] = "crash"
        out["failures"].append({"prop": "C19", "site": crash_site(e), "kind": type(e).__name__, "detail": traceback.format_exc()[-600:], "input": describe(job, style, dicts, text)})
        return out
    rl = vsgrun.new_rule_list(o, oc)
    init = vsgrun.raw(o.lAllObjects)
    ci = _W["ci"]
    fails = out["failures"]

    state = {"tois": 0, "idem": 0}

    if "toi" in feats:
        # wrap before instrumented_fix wraps again: outer wrapper = instrumented, inner = this
        for r in rl.rules:
            real = getattr(r, "_get_tokens_of_interest", None)
            if real is None:
                continue

            def mk(r=r, real=real):
                def toi(oF):
                    l = real(oF)
                    lf = []
                    state["tois"] += toi_check(oF, r, l, lf, desc)
                    for f in lf:
                        f["input"] = describe(job, style, dicts, text)
                        fails.append(f)
                    return l

                return toi

            r._get_tokens_of_interest = mk()

    def on_step(st):
        # ... also for the rule a directed job is about when its first fix changed NOTHING: "applying the fix a second time
        # changes nothing" holds for that case too (a first analysis that sees other options than the second one)
        if "idem" in feats and st.kind == "fix" and (st.changed or st.rule == job.get("directed_rule")) and st.exc is None and not _selects_lines(job.get("fix_only")):
            # C10: the same rule, immediately again, on a deep copy of the model.  Not under a --fix_only file that
            # lists LINES: the first fix then repairs the listed lines only, and a structural fix shifts the
            # remaining violations onto listed line numbers, so "nothing left to fix" is not what C10 promises there
            try:
                rule = next(r for r in rl.rules if r.unique_id == st.rule)
            except StopIteration:
                return
            state["idem"] += 1
            saved = {k: rule.__dict__.pop(k) for k in ("fix", "analyze", "_get_tokens_of_interest") if k in rule.__dict__}
            had = rule.had_violations
            try:
                from vsg.token_map import process_tokens

                o2 = copy.copy(o)
                for k in ("update", "fix_blank_lines", "update_token_map"):
                    o2.__dict__.pop(k, None)
                o2.lAllObjects = copy.deepcopy(o.lAllObjects)
                o2.oTokenMap = process_tokens(o2.lAllObjects)
                before = [(type(t), t.get_value()) for t in o2.lAllObjects]
                rule.fix(o2, job.get("fix_only"))
                after = [(type(t), t.get_value()) for t in o2.lAllObjects]
                if before != after:
                    k = next((i for i, (a, b) in enumerate(zip(before, after)) if a != b), min(len(before), len(after)))
                    fails.append({"prop": "C10", "site": _W["owner"].get(st.rule, st.rule), "kind": "secondFixChanges", "detail": "%s: first difference at token %d: %r -> %r" % (st.rule, k, [x[1] for x in before[k : k + 4]], [x[1] for x in after[k : k + 4]]), "input": describe(job, style, dicts, text)})
            except Exception as e:  # noqa: BLE001
                fails.append({"prop": "C10", "site": _W["owner"].get(st.rule, st.rule), "kind": "secondFixRaised", "detail": "%s: %r" % (st.rule, e), "input": describe(job, style, dicts, text)})
            finally:
                rule.__dict__.update(saved)
                rule.had_violations = had
                rule.violations = []

    if job.get("fix_only_all") and job.get("fix_only") is None:
        # --fix_only naming every rule with "all": must behave like a plain --fix (C20), in particular
        # unfixable / fixable:false / warning rules stay inert (C03)
        job = dict(job, fix_only={"fix": {"rule": {r.unique_id: ["all"] for r in rl.rules}}})
    if job.get("fix_only_lines") and job.get("fix_only") is None:
        # --fix_only with (rule, reported line) selections taken from a check of the same input (C20)
        import random

        frng = random.Random("fo/%s/%s/%s" % (common.rel(job.get("path", "")), job.get("vseed"), common.seed()))
        try:
            o0 = vsgrun.parse(lines, cla, oc)
            rep = vsgrun.check_report(o0, vsgrun.new_rule_list(o0, oc), all_phases=True)
        except Exception:  # noqa: BLE001
            rep = []
        by_rule = collections.defaultdict(set)
        for rid, line, sol in rep:
            if isinstance(line, int):
                by_rule[rid].add(line)
        sel = {}
        for rid in sorted(by_rule):
            x = frng.random()
            ls = sorted(by_rule[rid])
            if x < 0.5:
                sel[rid] = sorted(frng.sample(ls, frng.randrange(1, len(ls) + 1)))
            elif x < 0.6:
                sel[rid] = ["all"]
            elif x < 0.7:
                sel[rid] = sorted({max(1, l + frng.choice([-1, 1])) for l in ls})
        job = dict(job, fix_only={"fix": {"rule": sel}})
    steps, exc, ser = vsgrun.instrumented_fix(o, rl, ci, fix_phase=job.get("fix_phase", 7), skip_phase=job.get("skip_phase"), fix_only=job.get("fix_only"), on_step=on_step, harvest="trace" in feats)
    if job.get("fix_only") is not None:
        # C20 on the real rules: what a rule fixes is exactly what its analysis found on a listed (rule, line)
        try:
            listed = job["fix_only"].get("fix", {}).get("rule", {})
        except Exception:  # noqa: BLE001
            listed = {}
        for st in steps:
            if st.kind != "fix" or st.exc is not None or st.found is None or not st.fixable:
                continue
            items = listed.get(st.rule)
            want = sorted(((l, s) for (l, s) in st.found if items is not None and ("all" in items or l in items)), key=lambda x: x[1] if isinstance(x[1], int) else -1)
            got = sorted(((e["line"], e["start"]) for e in (st.edits or [])), key=lambda x: x[1] if isinstance(x[1], int) else -1)
            out["c20_steps"] = out.get("c20_steps", 0) + 1
            if got != want:
                kind = "fixedUnlisted" if any(g not in want for g in got) else "listedNotFixed"
                fails.append({"prop": "C20", "site": "rule.Rule._filter_out_fix_only_violations", "kind": kind, "detail": "%s: analysis found (line, index) %r, --fix_only lists %r, fixed %r" % (st.rule, st.found[:8], items, got[:8]), "input": dict(describe(job, style, dicts, text), fix_only=job["fix_only"]), "step": st.index})
                break
    if "trace" in feats:
        # layer B: replay every violation of a modelled `_fix_violation` owner through Lean
        import bfix

        recs = []
        pcache = {}
        for st in steps:
            if st.kind != "fix" or not st.edits or st.before is None or st.exc is not None:
                continue
            owner = _W["fullowner"].get(st.rule)
            if owner not in _W["modelled_owners"]:
                out.setdefault("bfix_unmodelled", {})
                out["bfix_unmodelled"][sweep_short(owner)] = out["bfix_unmodelled"].get(sweep_short(owner), 0) + len(st.edits)
                continue
            if getattr(st, "params", None) is not None:
                pcache[st.rule] = st.params
            elif st.rule not in pcache:
                rule = next((r for r in rl.rules if r.unique_id == st.rule), None)
                pcache[st.rule] = vsgrun.rule_params(rule, ci) if rule is not None else {}
            # shared / overlapping regions make the per-violation old tokens ambiguous: skip them
            spans = sorted((e["start"], e["stop"]) for e in st.edits if isinstance(e["start"], int) and isinstance(e["stop"], int))
            if any(a[1] > b[0] for a, b in zip(spans, spans[1:])):
                out["bfix_skipped_overlap"] = out.get("bfix_skipped_overlap", 0) + len(st.edits)
                continue
            bw = vsgrun.wire(st.before, ci, ser)
            for e in st.edits:
                if not isinstance(e["start"], int) or not isinstance(e["stop"], int):
                    continue
                old_toks = bw[e["start"] : e["stop"]]
                # beginning_of_file pseudo tokens belong to a region but not to the file (calculate_end_index
                # skips them): whitespace_001's first region is [BOF, whitespace, CR]
                bof = [t for t in e["new"] if ci.kind.get(t[1]) == "bof"]
                if bof and not any(ci.kind.get(t[1]) == "bof" for t in old_toks):
                    old_toks = bof + old_toks
                recs.append({"owner": owner, "rule": st.rule, "params": pcache[st.rule], "action": e.get("action_data"), "indents": e.get("old_indents"), "attrs": e.get("viol_attrs"), "old": old_toks, "new": e["new"]})
        if recs:
            nm, unm, mism = bfix.replay_records(recs, _W["ncls"])
            out["bfix_replayed"] = nm
            out["bfix_by_owner"] = dict(collections.Counter(sweep_short(r["owner"]) for r in recs))
            for m in mism[:3]:
                fails.append({"prop": "CORR", "site": sweep_short(m["owner"]), "kind": "bfix-mismatch", "detail": json.dumps(m, default=str)[:1500], "input": describe(job, style, dicts, text)})
    out["tois"] = state["tois"]
    out["idem"] = state["idem"]
    if exc is not None:
        last = steps[-1].rule if steps else "?"
        fails.append({"prop": "C19", "site": crash_site(exc), "kind": type(exc).__name__, "detail": "in rule " + last + ": " + "".join(traceback.format_exception(type(exc), exc, exc.__traceback__))[-700:], "input": describe(job, style, dicts, text)})
    out["steps"] = len(steps)
    slow = [s for s in steps if s.wall > 20.0]
    for s in slow:
        fails.append({"prop": "C19", "site": s.rule, "kind": "slow", "detail": "%.1fs in one rule" % s.wall, "input": describe(job, style, dicts, text)})
    if "trace" in feats:
        res = tracecheck.check_steps(init, steps, ci, ser, _W["ncls"])
        fired = collections.Counter()
        upd = collections.Counter()
        for st, r in res:
            if st.changed:
                out["changed"] += 1
                fired[st.rule] += 1
            upd[r["upd"]] += 1
            for prop in ("c01", "c02", "c03", "c07"):
                if r[prop] != "ok":
                    kind = r[prop].split(":")[0]
                    if kind == "ownLineCommentRemoved":
                        kind = ":".join(r[prop].split(":")[:2]).split(" ")[0]
                    if prop == "c07" and kind == "lines":
                        ch = set(r[prop].split("changed=[")[1].split("]")[0].replace(" ", "").split(",")) - {""}
                        rp = set(r[prop].split("reported=[")[1].split("]")[0].replace(" ", "").split(",")) - {""}
                        kind = "unreportedLineChanged" if not ch <= rp else "reportedLineNotChanged"
                    fails.append({"prop": prop.upper(), "site": _W["owner"].get(st.rule, st.rule), "kind": kind, "detail": "%s step %d: %s ins=%r del=%r insC=%r delC=%r" % (st.rule, st.index, r[prop][:200], (r["ins"] or [])[:8] if r["ins"] is not None else None, (r["del"] or [])[:8] if r["del"] is not None else None, (r["insC"] or [])[:4] if r["insC"] is not None else None, (r["delC"] or [])[:4] if r["delC"] is not None else None), "input": describe(job, style, dicts, text), "step": st.index})
            bad_upd = (r["upd"] == "mismatch" or (r["upd"] == "noedit-changed" and st.kind != "post")) and st.exc is None
            if bad_upd:
                fails.append({"prop": "CORR", "site": _W["owner"].get(st.rule, st.rule), "kind": "update-" + r["upd"], "detail": "model update(before, edits) differs from the real token list after %s (step %d)" % (st.rule, st.index), "input": describe(job, style, dicts, text), "step": st.index})
        out["fired"] = dict(fired)
        out["upd"] = dict(upd)
    out["wall"] = time.time() - t0
    out["tokens"] = len(init)
    out["lines"] = len(lines)
    return out


def core_seed(i, every=6):
    """quick tier: five jobs out of six make the same random choices whatever VERIF_SEED is (the check one runs on
    every change should say the same thing about the same tree), the sixth follows the seed; the thorough tier
    follows the seed everywhere"""
    return common.seed() if i % every == every - 1 else 0


def make_jobs(tier, features=("trace",), limit=None):
    """the standard job list of a tier (deterministic in VERIF_SEED)"""
    import random

    files = gen_inputs.corpus_files()
    jobs = []
    feats = list(features)
    for p in files:
        jobs.append({"path": p, "variant": "orig", "config": "default", "features": feats})
    sample = list(files)
    (random.Random("jobs-core") if tier == "quick" else common.rng("jobs")).shuffle(sample)
    seedv = common.seed()
    sv = (lambda i: core_seed(i)) if tier == "quick" else (lambda i: seedv)
    if tier == "quick":
        n_var, n_cfg = 400, 250
    else:
        n_var, n_cfg = len(sample) * 3, len(sample) * 2
    for i in range(n_var):
        p = sample[i % len(sample)]
        jobs.append({"path": p, "variant": gen_inputs.VARIANTS[(i // len(sample) + i) % len(gen_inputs.VARIANTS)], "vseed": sv(i) * 1000 + i, "config": "default", "features": feats})
    cfgs = ["jcl", "upper", "all_enabled", "random", "optional_remove", "random_jcl", "random", "exceptions"]
    for i in range(n_cfg):
        p = sample[(i * 7 + 3) % len(sample)]
        c = cfgs[i % len(cfgs)]
        j = {"path": p, "variant": ("orig", "messy", "glue")[i % 3], "vseed": sv(i) * 1000 + i, "config": c, "features": feats}
        if c.startswith("random") or c == "exceptions":
            j["cseed"] = sv(i) * 1000 + (i % 40)
            if i % 4 == 0:
                j["fix_only_all"] = True
        elif i % 7 in (0, 2):
            j["fix_only_lines"] = True
        jobs.append(j)
    # directed: every rule's own test input with every rule enabled (the default-disabled rules fire on nothing
    # else), a third of them also flush left (what phases 1-3 see before phase 4 has indented anything)
    for i, p in enumerate(directed_files(files)):
        jobs.append({"path": p, "variant": "orig", "config": "all_enabled", "features": feats})
        # one yes / no option of the rule the file was written for flipped and given as a boolean (an unquoted YAML
        # yes / no), that rule watched even when its first fix changes nothing
        rid = directed_rule_of(p)
        row = _rule_rows().get(rid)
        if row is not None:
            for nm in row["configuration"]:
                dv = row["defaults"].get(nm)
                if nm not in ("disable", "fixable") and (dv in ("yes", "no") or dv is True or dv is False):
                    jobs.append({"path": p, "variant": "orig", "config": "flip1/%s/%s" % (rid, nm), "features": feats, "directed_rule": rid})
        if i % 3 == 0:
            jobs.append({"path": p, "variant": "flush", "vseed": 0, "config": "default" if i % 2 else "all_enabled", "features": feats})
    # directed: already-fixed files (few or no structural violations) with nothing but trailing blanks added, and
    # whitespace_001 out of the way: the post-phase-1 clean up of rule_list.fix runs with no phase-1 fix before it
    fixed = [p for p in files if ".fixed" in os.path.basename(p)]
    (random.Random("jobs-trailing") if tier == "quick" else common.rng("jobs-trailing")).shuffle(fixed)
    for i, p in enumerate(fixed[: (60 if tier == "quick" else 600)]):
        jobs.append({"path": p, "variant": "trailing", "vseed": sv(i) * 1000 + i, "config": ("ws001_off", "ws001_warning")[i % 2], "features": feats})
    if limit:
        jobs = jobs[:limit]
    return jobs


_ROWS = {}


def _rule_rows():
    """rule rows of the generated tables by id (kept apart from _W: other modules test `if not sweep._W` before _init)"""
    if "rows" not in _ROWS:
        try:
            t = _W.get("tables") or json.load(open(os.path.join(common.CACHE, "tables.json")))
            _ROWS["rows"] = {r["id"]: r for r in t["rules"] if not r["deprecated"] and r["phase"] != 0}
        except Exception:  # noqa: BLE001
            _ROWS["rows"] = {}
    return _ROWS["rows"]


def directed_rule_of(path):
    """tests/<group>/rule_NNN_test_input*.vhd -> <group>_NNN"""
    import re

    m = re.search(r"/([a-z_0-9]+)/rule_(\d+)_test_input", path)
    return "%s_%s" % (m.group(1), m.group(2)) if m else None


def directed_files(files):
    import re

    return [p for p in files if re.search(r"/rule_\d+_test_input[^/]*\.vhd$", p) and ".fixed" not in os.path.basename(p)]


def aggregate(results):
    agg = {"bfix_by_owner": collections.Counter(), "bfix_replayed": 0, "bfix_unmodelled": collections.Counter(), "bfix_skipped_overlap": 0, "runs": 0, "rejected": 0, "steps": 0, "changed_steps": 0, "fired": collections.Counter(), "upd": collections.Counter(), "failures": [], "fail_counts": collections.Counter(), "configs": collections.Counter(), "variants": collections.Counter(), "tokens": 0, "lines": 0, "tois": 0, "idem": 0, "harness_errors": []}
    seen = set()
    for r in results:
        agg["runs"] += 1
        if r["parse"] == "rejected":
            agg["rejected"] += 1
        elif r["parse"].startswith("harness"):
            agg["harness_errors"].append((r["job"], r["parse"]))
        agg["steps"] += r["steps"]
        agg["changed_steps"] += r["changed"]
        agg["fired"].update(r["fired"])
        agg["upd"].update(r["upd"])
        agg["configs"][r["job"].get("config")] += 1
        agg["variants"][r["job"].get("variant")] += 1
        agg["tokens"] += r.get("tokens", 0)
        agg["lines"] += r.get("lines", 0)
        agg["tois"] += r.get("tois", 0)
        agg["idem"] += r.get("idem", 0)
        agg["c20_steps"] = agg.get("c20_steps", 0) + r.get("c20_steps", 0)
        agg["bfix_replayed"] += r.get("bfix_replayed", 0)
        agg["bfix_skipped_overlap"] += r.get("bfix_skipped_overlap", 0)
        agg["bfix_unmodelled"].update(r.get("bfix_unmodelled", {}))
        agg["bfix_by_owner"].update(r.get("bfix_by_owner", {}))
        for f in r["failures"]:
            key = (f["prop"], f["site"], f["kind"])
            agg["fail_counts"]["%s|%s|%s" % key] += 1
            if key not in seen:
                seen.add(key)
                agg["failures"].append(f)
    for k in ("fired", "upd", "fail_counts", "configs", "variants", "bfix_unmodelled", "bfix_by_owner"):
        agg[k] = dict(agg[k])
    return agg


def run_jobs(jobs, procs=16):
    t0 = time.time()
    with multiprocessing.Pool(procs, initializer=_init) as pool:
        results = list(pool.imap_unordered(run_job, jobs, chunksize=4))
    agg = aggregate(results)
    agg["wall"] = time.time() - t0
    return agg


def cached_sweep(tier, features=("trace",), limit=None, jobs=None):
    if jobs is None:
        jobs = make_jobs(tier, features, limit)
    key = hashlib.sha256(json.dumps([common.tree_hash(), jobs], sort_keys=True).encode()).hexdigest()[:24]
    path = os.path.join(common.CACHE, "sweep-%s.json" % key)
    if os.path.exists(path) and os.environ.get("VERIF_NOCACHE") != "1":
        try:
            agg = json.load(open(path))
            agg["from_cache"] = True
            return agg
        except Exception:  # noqa: BLE001
            pass
    agg = run_jobs(jobs)
    agg["from_cache"] = False
    agg["njobs"] = len(jobs)
    agg["repo_hash"] = common.tree_hash(repo_only=True)
    agg["seed"] = common.seed()
    agg["tier"] = tier
    os.makedirs(common.CACHE, exist_ok=True)
    tmp = path + ".%d.tmp" % os.getpid()
    with open(tmp, "w") as f:
        json.dump(agg, f, default=str)
    os.replace(tmp, path)
    return agg


if __name__ == "__main__":
    import gen_tables

    gen_tables.generate()
    tier = sys.argv[1] if len(sys.argv) > 1 else "quick"
    feats = tuple(sys.argv[2].split(",")) if len(sys.argv) > 2 else ("trace",)
    agg = cached_sweep(tier, feats)
    print(json.dumps({k: v for k, v in agg.items() if k not in ("failures", "fired")}, indent=1, default=str)[:3000])
    for f in agg["failures"]:
        print(f["prop"], f["site"], f["kind"], f["detail"][:200], f.get("input", {}).get("path"), f.get("input", {}).get("variant"), f.get("input", {}).get("config"))
