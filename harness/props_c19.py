"""
C19 — every accepted file can be checked and fixed without a crash or a hang; a rejected file is
reported with a located message, exit status 1, and the remaining files are processed.
Lean: outcome structure of apply_rules / main (Properties/C19.lean), tokenizer totality.
Tie/search: (1) every exception and every slow rule step of the instrumented full-rule-set fix
runs shared with C01 (all corpus files × variants × configurations incl. all rules enabled);
(2) corrupted variants of corpus files through the real apply_rules under a wall-clock alarm:
accepted, or rejected with the documented outcome tuple — never another exception, never a hang;
(3) CLI runs with a rejected file among good ones.
"""
import contextlib
import io
import json
import multiprocessing
import os
import signal
import subprocess
import sys
import tempfile
import time

import common
import gen_inputs
import sweep

ALARM_S = 30


def corrupt(text, rng):
    lines = text.split("\n")
    k = rng.random()
    if rng.random() < 0.12:
        # the syntax error on the FIRST line of the file (no line break in front of the offending token): a
        # misspelt keyword after the first word, or a stray word in front of everything
        if rng.random() < 0.5:
            words = lines[0].split(" ")
            if len(words) > 2:
                words[2] = words[2] + "x"
                lines[0] = " ".join(words)
                return "\n".join(lines), "first-line-misspelt"
        lines[0] = rng.choice(["iss ", "( ", "end ", "entity e iss "]) + lines[0]
        return "\n".join(lines), "first-line-stray"
    if k < 0.3 and len(lines) > 2:
        n = rng.randrange(1, len(lines))
        return "\n".join(lines[:n]) + "\n", "truncate"
    if k < 0.6:
        i = rng.randrange(len(lines))
        l = lines[i]
        for ch in (";", "(", ")", " is", " begin", " end", ":", "'", '"'):
            if ch in l:
                lines[i] = l.replace(ch, "", 1)
                break
        return "\n".join(lines), "drop-token"
    if k < 0.8 and len(lines) > 2:
        i = rng.randrange(len(lines))
        del lines[i]
        return "\n".join(lines), "drop-line"
    i = rng.randrange(len(lines))
    lines.insert(i, rng.choice(["end;", "begin", "(", ")", "process", "is", "entity", "others =>", "when", "/*", '"', "generate", "end process;"]))
    return "\n".join(lines), "insert-line"


class Alarm(Exception):
    pass


def _on_alarm(signum, frame):
    raise Alarm()


_W = {}


def _init():
    import vsgrun

    _W["cla"], _W["oc"] = vsgrun.make_config()
    signal.signal(signal.SIGALRM, _on_alarm)


def _reject_job(args):
    import random

    import vsgrun
    from vsg import apply_rules

    path, seed = args
    rng = random.Random("c19/%s/%s" % (common.rel(path), seed))
    text, how = corrupt(gen_inputs.read_text(path), rng)
    d = tempfile.mkdtemp(prefix="vsgverif-c19-")
    fn = os.path.join(d, "f.vhd")
    with open(fn, "w", encoding="utf-8") as f:
        f.write(text)
    cla = vsgrun.CLA(fix=False, filename=[fn])
    cla.skip_phase = []
    out = {"path": path, "seed": seed, "how": how, "outcome": None, "fail": None}
    t0 = time.time()
    try:
        signal.alarm(ALARM_S)
        try:
            with contextlib.redirect_stdout(io.StringIO()):
                r = apply_rules.apply_rules(cla, _W["oc"], (0, fn))
        finally:
            signal.alarm(0)
        fExit, tc, dj, so, se, stop = r
        if se and se.startswith("Error while processing"):
            out["outcome"] = "rejected"
            located = ("Line" in se) or ("line" in se)
            if not fExit or stop or not located:
                out["fail"] = ("apply_rules.apply_rules", "badRejectOutcome", "exit=%r stop=%r located=%r message=%r" % (fExit, stop, located, se[:200]))
        else:
            out["outcome"] = "accepted"
    except Alarm:
        import traceback

        out["outcome"] = "hang"
        site = sweep.crash_site(sys.exc_info()[1])
        out["fail"] = ("vsg/vhdlFile (classifier)", "malformedInput:hang", "no result after %d s (%s of %s) in %s" % (ALARM_S, how, os.path.basename(path), site))
    except BaseException as e:  # noqa: BLE001
        out["outcome"] = "crash"
        # malformed input that ends in a traceback instead of a ClassifyError: one coarse site for
        # the whole hand-written classifier (the innermost frame goes into the detail) ...
        out["fail"] = ("vsg/vhdlFile (classifier)", "malformedInput:" + type(e).__name__, "%s of %s: %r at %s" % (how, os.path.basename(path), e, sweep.crash_site(e)))
        # ... except when the classifier HAD found the syntax error and crashed while building its message: the
        # two raise sites of the productions (C19.progTable_raise_sites) are where "says so with a located message" lives
        tb = e.__traceback__
        while tb is not None:
            if tb.tb_frame.f_code.co_name in ("print_error_message", "print_missing_error_message"):
                out["fail"] = ("vhdlFile/utils.py:" + tb.tb_frame.f_code.co_name, "crashWhileReportingSyntaxError:" + type(e).__name__, out["fail"][2])
                break
            tb = tb.tb_next
    finally:
        out["wall"] = time.time() - t0
        if out["fail"]:
            out["text"] = text
        try:
            os.remove(fn)
            os.rmdir(d)
        except OSError:
            pass
    return out


def cli_runs(res, n):
    """a rejected file among good ones: exit 1, located message, the good files are still reported"""
    files = [f for f in gen_inputs.corpus_files() if "styles/code_examples" in f and f.endswith(("PIC.vhd", "grp_debouncer.vhd", "timestamp.vhd"))]
    d = tempfile.mkdtemp(prefix="vsgverif-c19cli-")
    done = 0
    try:
        bad = os.path.join(d, "bad.vhd")
        with open(bad, "w") as f:
            f.write("entity e is\nend entity e\narchitecture a of e is begin end;\n")
        for order in ([bad] + files[:2], files[:1] + [bad] + files[1:2], files[:2] + [bad])[:n]:
            p = subprocess.run(["/venv/bin/vsg", "-f", *order], stdout=subprocess.PIPE, stderr=subprocess.PIPE, text=True, timeout=300)
            done += 1
            reported = [f for f in order if f != bad and ("File:  " + f) in p.stdout]
            if p.returncode != 1 or "Error while processing" not in p.stderr or "Traceback" in p.stderr or len(reported) != len(order) - 1:
                res.fail("__main__.main", "rejectedFileStopsOrHidesOthers", "order=%r exit=%d reported=%r stderr=%r" % ([os.path.basename(x) for x in order], p.returncode, [os.path.basename(x) for x in reported], p.stderr[:300]), {"cli": ["vsg", "-f"] + order, "bad_text": open(bad).read()})
    finally:
        for f in os.listdir(d):
            os.remove(os.path.join(d, f))
        os.rmdir(d)
    return done


def run(prop, tier):
    res = common.Result(prop, tier)
    ok_model, tables, nobl, ndis, thms = common.lean_phase(res, prop)
    if not ok_model:
        return res.finish(max(nobl, 1), 0, "lake build", thms)
    agg = sweep.cached_sweep(tier, ("trace",))
    for fl in agg["failures"]:
        if fl["prop"] == "C19":
            res.fail(fl["site"], fl["kind"], fl["detail"], fl.get("input"))
    rng = common.rng("c19")
    files = gen_inputs.corpus_files()
    n = 1500 if tier == "quick" else 20000
    jobs = [(rng.choice(files), common.seed() * 100000 + i) for i in range(n)]
    outcomes = {}
    hows = {}
    with multiprocessing.Pool(16, initializer=_init) as pool:
        for o in pool.imap_unordered(_reject_job, jobs, chunksize=8):
            outcomes[o["outcome"]] = outcomes.get(o["outcome"], 0) + 1
            hows[o["how"]] = hows.get(o["how"], 0) + 1
            if o["fail"]:
                site, kind, detail = o["fail"]
                res.fail(site, kind, detail, {"corrupted_from": o["path"], "seed": o["seed"], "how": o["how"], "text": o.get("text")})
    # >>> WP1 layer P: translated productions vs the real ones (coverage["layerP"])
    try:
        import props_prog

        props_prog.extra(res, tier)
    except ImportError:
        pass
    # <<< WP1 layer P
    ncli = cli_runs(res, 3 if tier == "quick" else 3)
    import props_bcase

    props_bcase.extra(res, tier, prop)
    res.coverage.update(
        {
            "evaluations": agg["steps"] + n + ncli,
            "distinct_nontrivial": agg["changed_steps"] + outcomes.get("rejected", 0),
            "rule": "evaluations = rule steps (one rule's analyze/fix on one file inside %d instrumented full-rule-set fix runs) + corrupted inputs through apply_rules under a %d s alarm + CLI runs; non-trivial = rule steps that changed the file + corrupted inputs that were rejected" % (agg["runs"], ALARM_S),
            "samples": [{"corrupted": os.path.basename(j[0]), "seed": j[1]} for j in jobs[:3]],
            "rule_steps": agg["steps"],
            "corrupted_outcomes": outcomes,
            "corruptions": hows,
            "cli_runs": ncli,
            "failure_counts": {k: v for k, v in agg["fail_counts"].items() if k.startswith("C19")},
        }
    )
    try:  # wp2_bfull2: crashes of whole-rule-modelled rules on engine-producible token state (real raises, model does not)
        import props_bfull2

        props_bfull2.extra(res, tier, "C19")
    except ImportError:
        pass
    res.assumptions = ["rule bodies and classifier productions are layer U: totality is decided on the explored inputs only", "hang = no result within %d s on an otherwise idle worker" % ALARM_S]
    return res.finish(max(nobl, 1), ndis, "cd lean && lake build VsgProofs.Properties.C19", thms)


def replay(prop, path):
    import gen_tables

    gen_tables.generate()
    d = json.load(open(path))
    if d.get("kind") == "no-failing-input-found":
        print(json.dumps(d, indent=1)[:3000])
        return 0
    inp = d["input"]
    if inp.get("via") == "props_bcase":
        import props_bcase

        return props_bcase.replay(prop, path)
    if "corrupted_from" in inp:
        _init()
        o = _reject_job((inp["corrupted_from"], inp["seed"]))
        print(o["outcome"], o["fail"])
        return 1 if o["fail"] else 0
    if "cli" in inp:
        print("re-run:", " ".join(inp["cli"]))
        return 0
    job = dict(inp)
    job["features"] = ["trace"]
    sweep._init()
    out = sweep.run_job(job)
    bad = [f for f in out["failures"] if f["prop"] == "C19"]
    for f in bad:
        print("REPRODUCED property=C19 site=%s kind=%s %s" % (f["site"], f["kind"], f["detail"][:300]))
    return 1 if bad else 0
