"""
C16 — write-back is all-or-nothing and keeps the file's mode.

Decided by
 (1) the Lean theorems of VsgProofs/Properties/C16.lean about the file-system state machine
     VsgModel/Engine/WriteBack.lean (every fault schedule, every crash point, every content);
 (2) correspondence: the real `vsg.apply_rules.apply_rules` is run on real files in a scratch
     directory, inside a forked child, with the OS calls *as seen from vsg/apply_rules.py*
     (`os.stat`, `open`, file `write` / `close`, `os.chmod`, `os.replace`, `os.remove`,
     `shutil.copy2`) wrapped from outside: the wrapper logs the call trace and, at a chosen call
     index, raises PermissionError / OSError(ENOSPC) or kills the process (`os._exit(9)`, for
     writes also after a partial write).  The same scenario goes through `driver wb`; predicted
     and real call trace, outcome class and final file system (bytes, `st_mode & 0o7777`,
     existence of .tmp / .bak) are compared;
 (3) the property itself is judged on the real file system of every scenario, independently of
     the model;
 (4) a few scenarios with faults produced by the OS itself: RLIMIT_FSIZE (EFBIG at close, or the
     kernel killing the process with SIGXFSZ in the middle of the flush), an unprivileged user in
     a read-only directory (real PermissionError at `open`), a read-only file in a writable
     directory.
"""
import base64
import codecs
import errno
import json
import multiprocessing
import os
import shutil
import stat as statmod
import sys
import tempfile
import time

import common
import leanio

SITE = "apply_rules.write_vhdl_file"
SITE_BAK = "apply_rules.create_backup_file"
SITE_APPLY = "apply_rules.apply_rules"

# ------------------------------------------------------------------ inputs

HAND = {
    "ent_case.vhd": "ENTITY  fifo IS\n  PORT (\n a : IN std_logic;   \n    b : OUT std_logic\n  );\nEND ENTITY fifo;\n",
    "arch_ws.vhd": "architecture RTL of FIFO is\n\n signal a : std_logic;  \nsignal bb : std_logic;\nbegin\n  a <= b;   \n      c <= d;\nend architecture RTL;\n",
    "proc_if.vhd": "architecture rtl of e is\nbegin\n  P1 : process (clk) is\n  begin\n  if rising_edge(clk) then\n  q<=d;\n  end if;\n  end process P1;\nend architecture rtl;\n",
    "utf8_comment.vhd": "-- café µs ß\nENTITY  e IS\nEND ENTITY e;\n",
    "crlf.vhd": "ENTITY  e2 IS\r\nEND ENTITY e2;\r\n",
    "no_final_newline.vhd": "ENTITY  e3 IS\nEND ENTITY e3;",
}
HAND_BYTES = {
    # not UTF-8: read_vhdlfile falls back to ISO-8859-1, the fixed file is written as UTF-8
    "latin1_comment.vhd": b"-- caf\xe9\nENTITY  e4 IS\nEND ENTITY e4;\n",
    # ... with the first non-ASCII byte far behind the first chunks of the utf-8 attempt (9 KiB of comment lines first)
    "latin1_late.vhd": b"".join(b"-- filler line %04d of a long header comment\n" % i for i in range(220)) + b"ENTITY  e5 IS\nEND ENTITY e5;\n-- caf\xe9\n",
}
CLEAN = "\nentity fifo is\n  port (\n    a : in    std_logic;\n    b : out   std_logic\n  );\nend entity fifo;\n"
PARSE_ERROR = "entity e is\n port (a : in std_logic\nend entity e\n\narchitecture a of e is begin end;\n"
CONF_UNKNOWN_RULE = {"rule": {"foo_999": {"disable": True}}}
CONF_RULE_RAISES = {"rule": {"entity_004": {"case": "bogus"}}}  # KeyError inside entity_004.fix

REPO_EXAMPLES = ["trailing_whitespace.vhd", "library_statements.vhd", "comments.vhd", "token_movements.vhd", "nested_generates.vhd", "alignments.vhd", "consistent_case.vhd"]
REPO_EXAMPLES_BIG = ["timestamp.vhd", "PIC.vhd"]  # larger than the file object's buffer: unbuffered scenarios only

FAULT_KINDS = ("perm", "os", "crash", "part")
PARTIAL_OPS = ("write_body", "write_nl", "close", "copy2")
BUFFER_SAFE = 2048  # fixed contents below this size stay in the file object's buffer until close()


def corpus():
    d = {}
    for k, v in HAND.items():
        d[k] = v.encode("utf-8")
    d.update(HAND_BYTES)
    base = os.path.join(common.REPO, "tests", "styles", "code_examples")
    for f in REPO_EXAMPLES + REPO_EXAMPLES_BIG:
        p = os.path.join(base, f)
        if os.path.exists(p):
            with open(p, "rb") as fh:
                d["repo/" + f] = fh.read()
    return d


# ------------------------------------------------------------------ scenario = plain dict
#   file, data(bytes), mode, backup, buffered, schedule {idx: kind}, variant, conf (list of dicts),
#   stale_tmp / stale_bak (mode, bytes) or None, umask, osmode


def scenario(file, data, mode=0o644, backup=False, buffered=True, schedule=None, variant="fix", conf=(), stale_tmp=None, stale_bak=None, umask=0o022, osmode=None, fix=True):
    return {
        "file": file,
        "data": data,
        "mode": mode,
        "backup": backup,
        "buffered": buffered,
        "schedule": dict(schedule or {}),
        "variant": variant,
        "conf": list(conf),
        "stale_tmp": stale_tmp,
        "stale_bak": stale_bak,
        "umask": umask,
        "osmode": osmode,
        "fix": fix,
    }


def sc_to_json(sc):
    d = dict(sc)
    d["data"] = base64.b64encode(sc["data"]).decode()
    d["schedule"] = {str(k): v for k, v in sc["schedule"].items()}
    for k in ("stale_tmp", "stale_bak"):
        if sc[k] is not None:
            d[k] = [sc[k][0], base64.b64encode(sc[k][1]).decode()]
    return d


def sc_from_json(d):
    sc = dict(d)
    sc["data"] = base64.b64decode(d["data"])
    sc["schedule"] = {int(k): v for k, v in d["schedule"].items()}
    for k in ("stale_tmp", "stale_bak"):
        if d.get(k) is not None:
            sc[k] = (d[k][0], base64.b64decode(d[k][1]))
    return sc


def sc_label(sc):
    return "%s mode=%o backup=%d buffered=%d variant=%s%s schedule=%s" % (
        sc["file"],
        sc["mode"],
        sc["backup"],
        sc["buffered"],
        sc["variant"],
        (" osmode=" + sc["osmode"]) if sc["osmode"] else "",
        ",".join("%d:%s" % kv for kv in sorted(sc["schedule"].items())) or "-",
    )


# ------------------------------------------------------------------ real side (runs in pool workers)

_CFG = {}


def _config(conf, backup, fix):
    import vsgrun

    key = (json.dumps(conf, sort_keys=True), backup, fix)
    if key not in _CFG:
        _CFG[key] = vsgrun.make_config(conf_dicts=conf, fix=fix, backup=backup)
    return _CFG[key]


def _linesep_bytes(conf):
    ls = None
    for c in conf:
        if "linesep" in c:
            ls = c["linesep"]
    if ls is None:
        ls = os.linesep
    if ls == "":
        ls = "\n"
    return ls.encode("utf-8")


def reference(sc):
    """what the in-memory pipeline (read, parse, configure, fix — no write-back) produces:
    (parse_ok, config_ok, had_violations, fix_raises, body bytes, newline bytes)"""
    import contextlib
    import io

    import vsgrun
    from vsg import rule_list
    from vsg.exceptions import ClassifyError, ConfigurationError
    from vsg.vhdlFile import utils as vu

    # the lines of the ORIGINAL content, decoded independently of vsg's reader (utf-8, else ISO-8859-1 for the whole
    # file; universal-newline splitting, `rstrip("\r\n")` per line — Lex/Lines.readLines): "the complete fixed content"
    # is the fix of what the file held, not of what a faulty reader made of it
    try:
        text = sc["data"].decode("utf-8")
    except UnicodeDecodeError:
        text = sc["data"].decode("ISO-8859-1")
    lines = [l.rstrip("\r\n") for l in io.StringIO(text, newline=None)]
    err = None
    cla, cfg = _config(sc["conf"], sc["backup"], sc["fix"])
    nl = _linesep_bytes(sc["conf"])
    out = {"parse_ok": True, "config_ok": True, "had_violations": False, "fix_raises": False, "body": b"", "nl": nl}
    with contextlib.redirect_stdout(io.StringIO()):
        try:
            o = vsgrun.VF.vhdlFile(lines, cla, "t.vhd", err, cfg)
        except ClassifyError:
            out["parse_ok"] = False
            return out
        o.set_indent_map(cfg.dIndent)
        rl = rule_list.rule_list(o, cfg.severity_list, None)
        try:
            rl.configure(cfg)
        except ConfigurationError:
            out["config_ok"] = False
            return out
        if not sc["fix"]:
            return out
        try:
            rl.fix(cla.fix_phase, cla.skip_phase, cfg.dFixOnly)
        except Exception:  # noqa: BLE001 - a rule raising is one of the scenarios
            out["fix_raises"] = True
            return out
    out["had_violations"] = bool(rl.had_violations)
    text = "\n".join(o.get_lines()[1:])
    if nl != b"\n":
        text = text.replace("\n", nl.decode())
    out["body"] = text.encode("utf-8")
    return out


class _Boom(RuntimeError):
    pass


def _child(sc, paths, logfd):
    """inside the forked child: wrap the OS calls of vsg.apply_rules, run the real function"""
    import signal

    import vsg.apply_rules as AR
    from vsg import rule_list as RL

    target, tmp, bak = paths
    sched = sc["schedule"]
    st = {"idx": 0, "writes": 0, "pending": b""}
    nl = _linesep_bytes(sc["conf"])

    def log(s):
        os.write(logfd, (s + "\n").encode())

    def begin(name):
        k = st["idx"]
        st["idx"] += 1
        kind = sched.get(k, "ok")
        log("O %s %s" % (name, kind))
        return kind

    def inject(kind):
        if kind == "perm":
            raise PermissionError(errno.EACCES, "injected EACCES")
        if kind == "os":
            raise OSError(errno.ENOSPC, "injected ENOSPC")
        if kind in ("crash", "part"):
            os._exit(9)

    def natural(fn, *a, **k):
        try:
            return fn(*a, **k)
        except BaseException as e:  # noqa: BLE001
            log("N %s" % type(e).__name__)
            raise

    def want(cond, what):
        if not cond:
            log("A " + what)

    real_os = os

    class OsProxy:
        def __getattr__(self, n):
            return getattr(real_os, n)

        def stat(self, path, *a, **k):
            kind = begin("stat")
            want(path == target and not a and not k, "stat%r" % ((path, a, k),))
            inject(kind)
            return natural(real_os.stat, path, *a, **k)

        def chmod(self, path, mode, *a, **k):
            kind = begin("chmod")
            want(path == tmp and statmod.S_IMODE(mode) == sc["mode"] and not a and not k, "chmod%r" % ((path, oct(mode)),))
            inject(kind)
            return natural(real_os.chmod, path, mode, *a, **k)

        def replace(self, src, dst, *a, **k):
            kind = begin("replace")
            want(src == tmp and dst == target and not a and not k, "replace%r" % ((src, dst),))
            inject(kind)
            return natural(real_os.replace, src, dst, *a, **k)

        def remove(self, path, *a, **k):
            kind = begin("remove")
            want(path == tmp and not a and not k, "remove%r" % ((path,),))
            inject(kind)
            try:
                return real_os.remove(path, *a, **k)
            except FileNotFoundError:
                raise  # the expected exception of the `finally` block: not a fault
            except BaseException as e:  # noqa: BLE001
                log("N %s" % type(e).__name__)
                raise

    class ShutilProxy:
        def __getattr__(self, n):
            return getattr(shutil, n)

        def copy2(self, src, dst, *a, **k):
            kind = begin("copy2")
            want(src == target and dst == bak and not a and not k, "copy2%r" % ((src, dst),))
            if kind == "part":
                with open(src, "rb") as fh:
                    data = fh.read()
                fd = real_os.open(dst, real_os.O_WRONLY | real_os.O_CREAT | real_os.O_TRUNC, 0o666)
                real_os.write(fd, data[: len(data) // 2])
                real_os._exit(9)
            inject(kind)
            return natural(shutil.copy2, src, dst, *a, **k)

    def disk_bytes(text):
        if nl != b"\n":
            text = text.replace("\n", nl.decode())
        return text.encode("utf-8")

    class FileProxy:
        def __init__(self, f):
            self._f = f

        def __getattr__(self, n):
            return getattr(self._f, n)

        def __enter__(self):
            self._f.__enter__()
            return self

        def __exit__(self, *exc):
            # IOBase.__exit__ is `self.close()`
            self.close()
            return None

        def write(self, data):
            name = ("write_body", "write_nl")[st["writes"]] if st["writes"] < 2 else "write_extra"
            st["writes"] += 1
            kind = begin(name)
            if kind == "part":
                if not sc["buffered"]:
                    b = disk_bytes(data)
                    self._f.flush()
                    real_os.write(self._f.fileno(), b[: len(b) // 2])
                real_os._exit(9)
            inject(kind)
            n = natural(self._f.write, data)
            if sc["buffered"]:
                st["pending"] += disk_bytes(data)
            else:
                natural(self._f.flush)
            return n

        def close(self):
            kind = begin("close")
            if kind == "part":
                b = st["pending"]
                real_os.write(self._f.fileno(), b[: len(b) // 2])
                real_os._exit(9)
            if kind == "crash":
                real_os._exit(9)
            natural(self._f.close)
            st["pending"] = b""
            inject(kind)

    def my_open(file, mode="r", *a, **k):
        kind = begin("open")
        want(file == tmp and mode == "w" and k.get("encoding") == "utf-8", "open%r" % ((file, mode, k),))
        inject(kind)
        return FileProxy(natural(open, file, mode, *a, **k))

    def my_print(*a, **k):
        if any("Could not write fixes back" in str(x) for x in a):
            log("M")

    AR.os = OsProxy()
    AR.shutil = ShutilProxy()
    AR.open = my_open
    AR.print = my_print

    if sc["variant"] == "rule_raises":
        real_fix = RL.rule_list.fix

        def fix(self, *a, **k):
            real_fix(self, *a, **k)
            raise _Boom("injected exception of a rule")

        RL.rule_list.fix = fix

    os.umask(sc["umask"])
    cla, cfg = _config(sc["conf"], sc["backup"], sc["fix"])

    om = sc["osmode"]
    if om in ("rlimit_err", "rlimit_kill"):
        import resource

        signal.signal(signal.SIGXFSZ, signal.SIG_IGN if om == "rlimit_err" else signal.SIG_DFL)
        n = max(1, len(sc["data"]) // 3)
        resource.setrlimit(resource.RLIMIT_FSIZE, (n, n))
    if om in ("nobody_rodir", "nobody_rofile"):
        try:
            os.setgroups([])
            os.setgid(65534)
            os.setuid(65534)
        except OSError:
            log("K cannot drop privileges")
            os._exit(0)

    devnull = os.open(os.devnull, os.O_WRONLY)
    os.dup2(devnull, 1)
    os.dup2(devnull, 2)
    try:
        AR.apply_rules(cla, cfg, (0, target))
        log("R returned")
    except PermissionError:
        log("R exc_perm")
    except FileNotFoundError:
        log("R exc_notfound")
    except OSError:
        log("R exc_os")
    except BaseException as e:  # noqa: BLE001
        log("R exc_rule %s" % type(e).__name__)


def _inspect(path):
    try:
        s = os.lstat(path)
    except FileNotFoundError:
        return None
    if statmod.S_ISLNK(s.st_mode):
        return {"link": os.readlink(path)}
    with open(path, "rb") as fh:
        data = fh.read()
    return {"mode": statmod.S_IMODE(s.st_mode), "data": data, "ino": s.st_ino, "mtime_ns": s.st_mtime_ns}


def run_real(sc):
    """one scenario on the real code in a fresh scratch directory; returns the observation"""
    d = tempfile.mkdtemp(prefix="vsgverif-c16-")
    try:
        name = os.path.basename(sc["file"])
        target = os.path.join(d, name)
        realfile = target
        om = sc["osmode"]
        if om == "symlink":
            realfile = os.path.join(d, "pointee_" + name)
        with open(realfile, "wb") as fh:
            fh.write(sc["data"])
        os.chmod(realfile, sc["mode"])
        if om == "symlink":
            os.symlink(realfile, target)
        if om == "hardlink":
            os.link(target, os.path.join(d, "second_name_" + name))
        tmp, bak = target + ".tmp", target + ".bak"
        for p, stale in ((tmp, sc["stale_tmp"]), (bak, sc["stale_bak"])):
            if stale is not None:
                with open(p, "wb") as fh:
                    fh.write(stale[1])
                os.chmod(p, stale[0])
        if om in ("nobody_rodir", "nobody_rofile"):
            for p in (realfile,):
                os.chown(p, 65534, 65534)
            os.chown(d, 65534, 65534)
            os.chmod(d, 0o555 if om == "nobody_rodir" else 0o755)
        before = _inspect(realfile)
        _config(sc["conf"], sc["backup"], sc["fix"])  # built (and cached) in the worker, inherited by the child
        codecs.lookup("ISO-8859-1")  # loaded before privileges are dropped in the child
        r, w = os.pipe()
        sys.stdout.flush()
        sys.stderr.flush()
        pid = os.fork()
        if pid == 0:
            code = 0
            try:
                os.close(r)
                _child(sc, (target, tmp, bak), w)
            except BaseException as e:  # noqa: BLE001
                try:
                    os.write(w, ("H %s: %s\n" % (type(e).__name__, e)).encode())
                except OSError:
                    pass
                code = 3
            os._exit(code)
        os.close(w)
        chunks = []
        while True:
            b = os.read(r, 65536)
            if not b:
                break
            chunks.append(b)
        os.close(r)
        _, status = os.waitpid(pid, 0)
        if om in ("nobody_rodir", "nobody_rofile"):
            os.chmod(d, 0o755)
        obs = {"ops": [], "result": None, "msg": False, "badargs": [], "harness": None, "exit": None, "signal": None}
        if os.WIFSIGNALED(status):
            obs["signal"] = os.WTERMSIG(status)
        else:
            obs["exit"] = os.WEXITSTATUS(status)
        for line in b"".join(chunks).decode("utf-8", "replace").split("\n"):
            if not line:
                continue
            tag, _, rest = line.partition(" ")
            if tag == "O":
                n, k = rest.split(" ")
                obs["ops"].append([n, k, None])
            elif tag == "N" and obs["ops"]:
                obs["ops"][-1][2] = rest
            elif tag == "M":
                obs["msg"] = True
            elif tag == "R":
                obs["result"] = rest.split(" ")[0]
                obs["result_detail"] = rest
            elif tag == "A":
                obs["badargs"].append(rest)
            elif tag == "H":
                obs["harness"] = rest
            elif tag == "K":
                obs["skip"] = rest
        obs["died"] = obs["result"] is None and obs["harness"] is None
        if obs["result"] == "returned":
            obs["result"] = "ok_msg" if obs["msg"] else "ok"
        if obs["died"]:
            obs["result"] = "dead"
        obs["before"] = before
        obs["target"] = _inspect(target)
        obs["tmp"] = _inspect(tmp)
        obs["bak"] = _inspect(bak)
        if om == "symlink":
            obs["pointee"] = _inspect(realfile)
        if om == "hardlink":
            obs["second_name"] = _inspect(os.path.join(d, "second_name_" + name))
        return obs
    finally:
        try:
            os.chmod(d, 0o755)
        except OSError:
            pass
        shutil.rmtree(d, ignore_errors=True)


def _warm():
    """pool initializer: load the rules once per worker"""
    try:
        reference(scenario("warm.vhd", HAND["ent_case.vhd"].encode()))
    except Exception:  # noqa: BLE001
        pass


def _work(job):
    i, sc = job
    try:
        return i, run_real(sc), None
    except Exception as e:  # noqa: BLE001
        import traceback

        return i, None, "%s: %s\n%s" % (type(e).__name__, e, traceback.format_exc()[-600:])


def _work_ref(job):
    i, sc = job
    try:
        return i, reference(sc), None
    except Exception as e:  # noqa: BLE001
        import traceback

        return i, None, "%s: %s\n%s" % (type(e).__name__, e, traceback.format_exc()[-600:])


# ------------------------------------------------------------------ model side

KIND_WIRE = {"ok": "ok", "perm": "perm", "os": "os", "crash": "crash", "part": "part"}


def enc_bytes(b):
    return ".".join(str(x) for x in b)


def dec_file(s):
    if s == "-":
        return None
    m, _, c = s.partition(":")
    return {"mode": int(m), "data": bytes(int(x) for x in c.split(".")) if c else b""}


def model_line(sc, ref, schedule=None):
    def fopt(x):
        return "-" if x is None else "%d:%s" % (x[0], enc_bytes(x[1]))

    flags = ""
    flags += "p" if ref["parse_ok"] else ""
    flags += "c" if ref["config_ok"] else ""
    flags += "f" if sc["fix"] else ""
    flags += "b" if sc["backup"] else ""
    flags += "v" if ref["had_violations"] else ""
    flags += "x" if (ref["fix_raises"] or sc["variant"] == "rule_raises") else ""
    flags += "u" if sc["buffered"] else ""
    sch = sc["schedule"] if schedule is None else schedule
    return "\t".join(
        [
            "S",
            str(sc["mode"]),
            enc_bytes(sc["data"]),
            enc_bytes(ref["body"]),
            enc_bytes(ref["nl"]),
            fopt(sc["stale_tmp"]),
            fopt(sc["stale_bak"]),
            str(0o666 & ~sc["umask"]),
            flags or "-",
            ",".join("%d:%s" % (k, KIND_WIRE[v]) for k, v in sorted(sch.items())) or "-",
        ]
    )


def parse_reply(line):
    if not line.startswith("R\t"):
        raise RuntimeError("driver wb: %r" % line[:200])
    d = dict(f.split("=", 1) for f in line.split("\t")[1:])
    ops = [tuple(x.split(":")) for x in d["ops"].split(",")] if d["ops"] else []
    return {"ops": ops, "result": d["result"], "target": dec_file(d["target"]), "tmp": dec_file(d["tmp"]), "bak": dec_file(d["bak"]), "safe": d["safe"] == "1", "hist": int(d["hist"])}


def ask_model(lines):
    drv = leanio.Driver("wb")
    out = []
    # the driver answers line by line; keep the pipe from filling up
    for ln in lines:
        out.append(drv.ask(ln))
    drv.close()
    return [parse_reply(x) for x in out]


# ------------------------------------------------------------------ judging


def _fview(x):
    if x is None:
        return None
    if "link" in x:
        return ("link", x["link"])
    return (x["mode"], x["data"])


def judge(sc, ref, obs):
    """the property on the real outcome; list of (site, kind, detail)"""
    out = []
    orig = (sc["mode"], sc["data"])
    fixed = ref["body"] + ref["nl"]
    t = obs["target"]
    om = sc["osmode"]
    if om == "symlink":
        # judged on what the path resolves to; the replaced link itself is reported as an observation
        s = obs["target"]
        t = obs["pointee"] if (s is not None and "link" in s) else s
    if t is None or "link" in t:
        out.append((SITE, "target_missing", "target does not exist after the run"))
        return out
    writes = sc["variant"] == "fix" and ref["parse_ok"] and ref["config_ok"] and sc["fix"] and ref["had_violations"] and not ref["fix_raises"]
    if t["data"] != sc["data"] and not (writes and t["data"] == fixed):
        kind = "mixed_content" if writes else "modified_without_write_back"
        out.append((SITE if writes else SITE_APPLY, kind, "target holds %d bytes, neither the original (%d) nor the fixed content (%d): %r…" % (len(t["data"]), len(sc["data"]), len(fixed), t["data"][:60])))
    if t["mode"] != sc["mode"]:
        out.append((SITE, "mode_changed", "mode %o -> %o" % (sc["mode"], t["mode"])))
    if not writes and om is None:
        b = obs["before"]
        if (t["ino"], t["mtime_ns"]) != (b["ino"], b["mtime_ns"]):
            out.append((SITE_APPLY, "untouched_file_rewritten", "variant %s: inode/mtime changed although nothing was to be written" % sc["variant"]))
    remove_failed = any(o[0] == "remove" and (o[1] in ("perm", "os") or o[2]) for o in obs["ops"])
    if not obs["died"] and not remove_failed and obs["tmp"] is not None and (sc["stale_tmp"] is None or any(o[0] == "open" for o in obs["ops"])):
        out.append((SITE, "tmp_left", "temporary file left behind after a non-fatal run (%s)" % obs["result"]))
    if sc["backup"] and sc["fix"] and ref["parse_ok"] and ref["config_ok"]:
        first = obs["ops"][0] if obs["ops"] else None
        copy_failed = first is not None and first[0] == "copy2" and (first[1] != "ok" or first[2] is not None)
        # the copy is over when the process went on to another call, returned, or raised later
        over = (len(obs["ops"]) > 1 or not obs["died"]) and not copy_failed
        if over and _fview(obs["bak"]) != orig:
            out.append((SITE_BAK, "backup_unfaithful", "bak = %s, original = mode %o, %d bytes" % (_short(_fview(obs["bak"])), sc["mode"], len(sc["data"]))))
    if writes and om is None:
        if obs["result"] == "ok" and t["data"] != fixed:
            out.append((SITE, "silent_no_write", "returned without a message but the target does not hold the fixed content"))
        if obs["result"] == "ok_msg" and t["data"] != sc["data"]:
            out.append((SITE, "message_but_written", "\"Could not write fixes back\" was printed but the target changed"))
    return out


def derived_schedule(sc, obs):
    """schedule the model is asked about: the injected faults plus the faults the OS produced itself"""
    sch = dict(sc["schedule"])
    for i, (n, k, nat) in enumerate(obs["ops"]):
        if nat and k == "ok":
            sch[i] = "perm" if nat == "PermissionError" else "os"
    if obs["signal"] is not None and obs["ops"]:
        sch[len(obs["ops"]) - 1] = "part"
    return sch


def diff_model(sc, obs, pred, loose_tmp=False):
    """list of differences between the model's prediction and the real run"""
    out = []
    real_ops = [(n, k if not nat or k != "ok" else ("perm" if nat == "PermissionError" else "os")) for n, k, nat in obs["ops"]]
    if obs["signal"] is not None and real_ops:
        real_ops[-1] = (real_ops[-1][0], "part")
    if real_ops != [tuple(x) for x in pred["ops"]]:
        out.append("ops real=%s model=%s" % (real_ops, pred["ops"]))
    res = obs["result"]
    if res != pred["result"]:
        out.append("result real=%s model=%s" % (obs.get("result_detail", res), pred["result"]))
    t = obs["target"]
    if sc["osmode"] == "symlink" and t is not None and "link" in t:
        t = obs["pointee"]
    for name, real, mod in (("target", t, pred["target"]), ("tmp", obs["tmp"], pred["tmp"]), ("bak", obs["bak"], pred["bak"])):
        rv, mv = _fview(real), _fview(mod)
        if name == "tmp" and loose_tmp and rv is not None and mv is not None:
            if rv[0] != mv[0]:
                out.append("tmp mode real=%o model=%o" % (rv[0], mv[0]))
            continue
        if rv != mv:
            out.append("%s real=%s model=%s" % (name, _short(rv), _short(mv)))
    if obs["badargs"]:
        out.append("unexpected arguments: %s" % obs["badargs"][:3])
    return out


def _short(v):
    if v is None:
        return "absent"
    if v[0] == "link":
        return "symlink->%s" % v[1]
    return "(mode %o, %d bytes %r…)" % (v[0], len(v[1]), v[1][:24])


# ------------------------------------------------------------------ scenario generation


def base_combos(tier, files):
    r = common.rng("C16/combos/" + tier)
    small = [f for f in sorted(files) if len(files[f]) < BUFFER_SAFE // 2]
    big = [f for f in sorted(files) if f not in small]
    modes_all = [0o644, 0o600, 0o755, 0o444, 0o640, 0o664, 0o400, 0o777, 0o4755 & 0o777, 0o660]
    combos = []
    if tier == "quick":
        pick = ["ent_case.vhd", "utf8_comment.vhd"] + r.sample([f for f in small if f not in ("ent_case.vhd", "utf8_comment.vhd")], 2)
        for i, f in enumerate(pick):
            modes = [0o644 if i % 2 == 0 else 0o600, r.choice([0o755, 0o444, 0o640, 0o664])]
            for m in modes:
                for backup in (False, True):
                    for buffered in (True, False):
                        combos.append(dict(file=f, mode=m, backup=backup, buffered=buffered, conf=(), umask=0o022, stale_tmp=None, stale_bak=None))
        # a file read through the ISO-8859-1 fallback whose first non-ASCII byte lies behind the first read chunks
        if "latin1_late.vhd" in files:
            combos.append(dict(file="latin1_late.vhd", mode=0o644, backup=False, buffered=False, conf=(), umask=0o022, stale_tmp=None, stale_bak=None))
        # one combination with a stale .tmp/.bak, another umask and CRLF line separator
        combos.append(dict(file=pick[0], mode=0o640, backup=True, buffered=True, conf=({"linesep": "\r\n"},), umask=0o077, stale_tmp=(0o600, b"stale tmp"), stale_bak=(0o666, b"stale bak")))
    else:
        for f in small:
            for m in r.sample(modes_all, 4):
                for backup in (False, True):
                    for buffered in (True, False):
                        combos.append(dict(file=f, mode=m, backup=backup, buffered=buffered, conf=(), umask=r.choice([0o022, 0o077, 0o002, 0]), stale_tmp=None, stale_bak=None))
        for f in big:
            for m in r.sample(modes_all, 2):
                for backup in (False, True):
                    combos.append(dict(file=f, mode=m, backup=backup, buffered=False, conf=(), umask=0o022, stale_tmp=None, stale_bak=None))
        for f in r.sample(small, min(4, len(small))):
            for ls in ("\r\n", "\n", ""):
                combos.append(dict(file=f, mode=r.choice(modes_all), backup=True, buffered=True, conf=({"linesep": ls},), umask=0o027, stale_tmp=(r.choice([0o600, 0o644, 0o400]), b"stale tmp\n" * 3), stale_bak=(0o666, b"stale bak")))
    return combos


def fault_scenarios(combo, files, nops, tier, model_trace_of):
    """single faults at every call index (and pairs in the thorough tier)"""
    out = []
    data = files[combo["file"]]

    def mk(schedule):
        return scenario(combo["file"], data, combo["mode"], combo["backup"], combo["buffered"], schedule, "fix", combo["conf"], combo["stale_tmp"], combo["stale_bak"], combo["umask"])

    names = model_trace_of({})
    for k in range(nops):
        for kind in FAULT_KINDS:
            if kind == "part" and names[k] not in PARTIAL_OPS:
                continue
            out.append(mk({k: kind}))
    if tier == "thorough":
        for k in range(nops):
            for kind in ("perm", "os"):
                tr = model_trace_of({k: kind})
                for k2 in range(k + 1, len(tr)):
                    for kind2 in FAULT_KINDS:
                        if kind2 == "part" and tr[k2] not in PARTIAL_OPS:
                            continue
                        out.append(mk({k: kind, k2: kind2}))
    return out


def special_scenarios(tier, files):
    """error paths, clean file, no --fix, a rule raising, OS-made faults"""
    r = common.rng("C16/special/" + tier)
    out = []
    modes = [0o644, 0o600] if tier == "quick" else [0o644, 0o600, 0o755, 0o444]
    for m in modes:
        for backup in (False, True):
            out.append(scenario("parse_error.vhd", PARSE_ERROR.encode(), m, backup, variant="parse_error"))
            out.append(scenario("ent_case.vhd", files["ent_case.vhd"], m, backup, variant="config_error", conf=(CONF_UNKNOWN_RULE,)))
            out.append(scenario("clean.vhd", CLEAN.encode(), m, backup, variant="clean"))
            out.append(scenario("ent_case.vhd", files["ent_case.vhd"], m, backup, variant="nofix", fix=False))
            out.append(scenario("ent_case.vhd", files["ent_case.vhd"], m, backup, variant="rule_raises"))
            out.append(scenario("ent_case.vhd", files["ent_case.vhd"], m, backup, variant="rule_raises_keyerror", conf=(CONF_RULE_RAISES,)))
            if backup:
                # the backup copy itself failing / being the crash point
                for kind in FAULT_KINDS:
                    out.append(scenario("clean.vhd", CLEAN.encode(), m, True, schedule={0: kind}, variant="clean"))
                    out.append(scenario("ent_case.vhd", files["ent_case.vhd"], m, True, schedule={0: kind}, variant="rule_raises"))
    # the proved witness of tmp_left_when_remove_fails on the real code: chmod raises an OSError, then
    # os.remove raises PermissionError (calls 5 and 6 of a run without --backup)
    out.append(scenario("ent_case.vhd", files["ent_case.vhd"], 0o644, False, schedule={5: "os", 6: "perm"}, variant="fix"))
    out.append(scenario("ent_case.vhd", files["ent_case.vhd"], 0o600, False, buffered=False, schedule={2: "perm", 4: "os"}, variant="fix"))
    osfiles = ["arch_ws.vhd", "proc_if.vhd"] if tier == "quick" else [f for f in sorted(files) if not f.startswith("repo/")]
    for f in osfiles:
        m = r.choice([0o644, 0o640, 0o600])
        out.append(scenario(f, files[f], m, False, osmode="rlimit_err"))
        out.append(scenario(f, files[f], m, False, osmode="rlimit_kill"))
        out.append(scenario(f, files[f], m, False, osmode="nobody_rodir"))
        out.append(scenario(f, files[f], 0o444, False, osmode="nobody_rofile"))
        out.append(scenario(f, files[f], m, False, osmode="symlink"))
        out.append(scenario(f, files[f], m, False, osmode="hardlink"))
    return out


# ------------------------------------------------------------------ exploration


def explore(tier, res, nproc=None):
    """runs every scenario on the real code and through the model; records failures / proof
    breaks in `res`; returns the coverage dictionary"""
    files = corpus()
    nproc = nproc or min(16, os.cpu_count() or 4)
    ctx = multiprocessing.get_context("fork")
    t0 = time.time()
    combos = base_combos(tier, files)
    specials = special_scenarios(tier, files)

    with ctx.Pool(nproc, initializer=_warm) as pool:
        # ---- references (in-memory fix) for every distinct (file, conf, fix)
        refkey = lambda sc: (sc["file"], json.dumps(sc["conf"], sort_keys=True), sc["fix"], sc["variant"] == "rule_raises")  # noqa: E731
        base_scs = [scenario(c["file"], files[c["file"]], c["mode"], c["backup"], c["buffered"], {}, "fix", c["conf"], c["stale_tmp"], c["stale_bak"], c["umask"]) for c in combos]
        need = {}
        for sc in base_scs + specials:
            need.setdefault(refkey(sc), sc)
        keys = sorted(need, key=repr)
        refs = {}
        for i, ref, err in pool.imap(_work_ref, [(i, need[k]) for i, k in enumerate(keys)], chunksize=1):
            if err:
                raise RuntimeError("reference run failed for %r: %s" % (keys[i], err))
            refs[keys[i]] = ref
        for k in keys:
            sc = need[k]
            if sc["variant"] == "fix" and not (refs[k]["parse_ok"] and refs[k]["config_ok"] and refs[k]["had_violations"]):
                raise RuntimeError("corpus file %s has no fixable violation" % sc["file"])

        # ---- scenario list (the model tells which calls follow a fault)
        drv = leanio.Driver("wb")

        def model_trace(sc, sch):
            return [o for o, _ in parse_reply(drv.ask(model_line(sc, refs[refkey(sc)], sch)))["ops"]]

        scs = []
        for c, b in zip(combos, base_scs):
            names = model_trace(b, {})
            scs.append(b)
            scs.extend(fault_scenarios(c, files, len(names), tier, lambda sch, b=b: model_trace(b, sch)))
        scs.extend(specials)
        drv.close()

        # ---- real runs
        obs = [None] * len(scs)
        harness_errors = []
        for i, o, err in pool.imap_unordered(_work, list(enumerate(scs)), chunksize=4):
            if err or o is None or o.get("harness"):
                harness_errors.append((i, err or o.get("harness")))
            obs[i] = o
    if harness_errors:
        i, e = harness_errors[0]
        raise RuntimeError("%d scenario(s) could not be run; first: %s: %s" % (len(harness_errors), sc_label(scs[i]), e))

    # ---- model predictions (for OS-made faults: the schedule is read off the real run)
    lines = []
    for sc, o in zip(scs, obs):
        sch = derived_schedule(sc, o) if sc["osmode"] else sc["schedule"]
        lines.append(model_line(sc, refs[refkey(sc)], sch))
    preds = ask_model(lines)

    injected = set()
    op_names = set()
    nfail = 0
    ndiff = 0
    skipped = {}
    results = {}
    samples = []
    sample_keys = set()
    observations = {}
    for sc, o, p in zip(scs, obs, preds):
        ref = refs[refkey(sc)]
        om = sc["osmode"]
        if o.get("skip"):
            skipped[om] = skipped.get(om, 0) + 1
            continue
        for k, kind in sc["schedule"].items():
            if k < len(o["ops"]) and o["ops"][k][1] == kind:
                injected.add((k, kind, sc["backup"]))
                op_names.add((o["ops"][k][0], kind))
        if om:
            for n, k, nat in o["ops"]:
                if nat:
                    op_names.add((n, "os-made:" + nat))
            if o["signal"] is not None:
                op_names.add((o["ops"][-1][0] if o["ops"] else "?", "os-made:signal%d" % o["signal"]))
        results[o["result"]] = results.get(o["result"], 0) + 1
        for site, kind, detail in judge(sc, ref, o):
            nfail += 1
            res.fail(site, kind, "%s: %s" % (sc_label(sc), detail), sc_to_json(sc))
        if not p["safe"]:
            res.proof_break("model run violates Safe (contradicts writeBack_safe)", sc_label(sc))
        diffs = diff_model(sc, o, p, loose_tmp=(om == "rlimit_kill"))
        if diffs:
            ndiff += 1
            res.proof_break("correspondence write-back model vs apply_rules.py", {"scenario": sc_label(sc), "differences": diffs[:4], "input": sc_to_json(sc)})
        if sc["schedule"] == {5: "os", 6: "perm"} and not sc["backup"]:
            observations["witness_tmp_left_when_remove_fails_reproduced"] = o["tmp"] is not None and o["result"] == "exc_perm" and not o["died"]
        if om == "symlink":
            t = o["target"]
            observations["symlink_target_replaced_by_regular_file"] = bool(t is not None and "link" not in t)
            observations["symlink_pointee_still_original"] = o["pointee"] is not None and o["pointee"]["data"] == sc["data"]
        if om == "hardlink":
            s2 = o["second_name"]
            observations["hardlink_second_name_still_original"] = s2 is not None and s2["data"] == sc["data"]
        if om == "nobody_rofile":
            observations["readonly_file_in_writable_dir_is_replaced"] = o["target"] is not None and o["target"]["data"] != sc["data"] and o["target"]["mode"] == 0o444
        skey = (o["result"], tuple(sorted((o["ops"][k][0], v) for k, v in sc["schedule"].items() if k < len(o["ops"]))) or om)
        take = (sc["schedule"] or om) and skey not in sample_keys and len(sample_keys) % 6 == 0 and len(samples) < 10
        if sc["schedule"] or om:
            sample_keys.add(skey)
        if take:
            fixed = ref["body"] + ref["nl"]
            tv = o["target"].get("data") if o["target"] else None
            samples.append({"scenario": sc_label(sc), "backup": sc["backup"], "real_calls": ["%s:%s%s" % (n, k, ("!" + nat) if nat else "") for n, k, nat in o["ops"]], "model_calls": ["%s:%s" % tuple(x) for x in p["ops"]], "result": o["result"], "target": "fixed" if tv == fixed else ("original" if tv == sc["data"] else "OTHER"), "tmp_exists": o["tmp"] is not None, "bak_exists": o["bak"] is not None})
    cov = {
        "evaluations": len(scs),
        "distinct_nontrivial": len(injected),
        "rule": "an evaluation = one run of the real apply_rules.apply_rules (forked child, scratch directory) on one (file, mode, --backup, buffering, fault schedule) compared call by call and byte by byte with `driver wb`; non-trivial = distinct (OS call index, fault kind, --backup) at which a fault was really injected (the call was reached and logged with that kind)",
        "samples": samples,
        "files": sorted({sc["file"] for sc in scs}),
        "modes": sorted({"%o" % sc["mode"] for sc in scs}),
        "base_combinations": len(combos),
        "scenarios_with_two_faults": sum(1 for sc in scs if len(sc["schedule"]) > 1),
        "special_scenarios": len(specials),
        "faulted_calls": sorted("%s:%s" % x for x in op_names),
        "outcome_classes": results,
        "model_disagreements": ndiff,
        "property_failures": nfail,
        "skipped": skipped,
        "observations_outside_property": observations,
        "running_as_root": os.geteuid() == 0,
        "explore_wall_s": round(time.time() - t0, 1),
    }
    return cov


RULE_ASSUMPTIONS = [
    "os.replace (rename(2) within one directory) is atomic: modelled as one step; not testable from user space",
    "crash = the process stops between two OS calls of apply_rules.py or inside a write/close/copy2 after part of the data reached the file; power loss / page-cache loss (no fsync in write_vhdl_file) is outside the model",
    "faults are injected at the boundary vsg/apply_rules.py -> os / shutil / builtins.open / file object (plus RLIMIT_FSIZE, SIGXFSZ and an unprivileged uid for OS-made faults); a failing close() is modelled as 'data handed to the OS, then the error'",
    "the check runs as root: mode 0o444 / 0o400 files and directories stay writable for the main scenarios (a real PermissionError is produced only in the setuid(65534) scenarios)",
    "tmp_cleaned holds unless os.remove itself fails (tmp_left_when_remove_fails is the proved witness); a stale <name>.tmp that exists before the run is overwritten and removed by the run",
    "concurrent modification of the target by another process between read and replace is outside the model",
]


def run(prop, tier):
    res = common.Result(prop, tier)
    ok_model, tables, nobl, ndis, thms = common.lean_phase(res, prop)
    if not ok_model:
        return res.finish(max(nobl, 1), 0, "lake build VsgModel driver VsgProofs.Properties.%s" % prop, thms)
    cov = explore(tier, res)
    res.coverage.update(cov)
    res.assumptions = RULE_ASSUMPTIONS
    return res.finish(max(nobl, 1), ndis, "cd lean && lake build VsgProofs.Properties.%s && lake env lean <audit file with #print axioms>; ./check %s %s" % (prop, prop, tier), thms)


def replay(prop, path):
    d = json.load(open(path))
    if d.get("kind") == "no-failing-input-found":
        print(json.dumps(d, indent=1)[:4000])
        return 0
    sc = sc_from_json(d["input"])
    ref = reference(sc)
    obs = run_real(sc)
    print("scenario :", sc_label(sc))
    print("calls    :", " ".join("%s:%s%s" % (n, k, ("!" + nat) if nat else "") for n, k, nat in obs["ops"]))
    print("result   :", obs["result"], "signal=%s exit=%s" % (obs["signal"], obs["exit"]))
    for name in ("target", "tmp", "bak"):
        print("%-9s: %s" % (name, _short(_fview(obs[name]))))
    print("original : (mode %o, %d bytes)   fixed: %d bytes" % (sc["mode"], len(sc["data"]), len(ref["body"] + ref["nl"])))
    bad = judge(sc, ref, obs)
    for site, kind, detail in bad:
        print("REPRODUCED property=%s site=%s kind=%s %s" % (prop, site, kind, detail))
    return 1 if bad else 0
