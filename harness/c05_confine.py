"""
C05, static side condition ("confinement"): the Lean theorems about the navigation primitives of
vsg/vhdlFile/utils.py (`prims_*`: they factor through the view that skips layout tokens) say something about the
classifier only as far as the productions in vsg/vhdlFile/classify/*.py reach the token list THROUGH those
primitives.  This scan re-establishes that on every run, from the current source:

  * every use of the token-list parameter (`lObjects`, `lAllObjects`) inside a production is either handing the
    list on to another function, or a DIRECT access (subscript, len(), iteration, slicing, del);
  * the direct accesses are compared with the committed, reviewed list `c05_direct_access.json`
    (file, function, normalised statement); a direct access that is not listed is an unreviewed way for layout to
    reach a classification decision;
  * the `utils.<name>` functions the productions call are compared with the reviewed list of primitives.

A difference is a broken obligation (not a violation by itself): C05's re-layout search then looks for an input whose
classification changes.
"""
import ast
import glob
import json
import os

import common

LISTS = ("lObjects", "lAllObjects")
HERE = os.path.dirname(os.path.abspath(__file__))
ALLOW = os.path.join(HERE, "c05_direct_access.json")


def _stmt_of(node, parents):
    n = node
    while n in parents and not isinstance(n, ast.stmt):
        n = parents[n]
    return n


def scan_file(path, rel):
    src = open(path, encoding="utf-8").read()
    tree = ast.parse(src)
    parents = {}
    for n in ast.walk(tree):
        for c in ast.iter_child_nodes(n):
            parents[c] = n
    direct, prims = [], set()
    for fn in [n for n in ast.walk(tree) if isinstance(n, (ast.FunctionDef, ast.AsyncFunctionDef))]:
        for n in ast.walk(fn):
            if isinstance(n, ast.Attribute) and isinstance(n.value, ast.Name) and n.value.id == "utils":
                prims.add(n.attr)
            if not (isinstance(n, ast.Name) and n.id in LISTS):
                continue
            p = parents.get(n)
            # handed on as an argument (positional, keyword or starred)
            if isinstance(p, ast.Call) and (n in p.args or any(k.value is n for k in p.keywords)):
                if isinstance(p.func, ast.Name) and p.func.id == "len":
                    pass  # len(lObjects) is a direct read
                else:
                    continue
            if isinstance(p, ast.keyword):
                continue
            if isinstance(p, ast.arg) or isinstance(p, ast.arguments):
                continue
            if isinstance(p, ast.Return) or (isinstance(p, ast.Tuple) and isinstance(parents.get(p), ast.Return)):
                continue  # returning the list itself
            st = _stmt_of(n, parents)
            text = ast.unparse(st) if not isinstance(st, (ast.For, ast.While, ast.If, ast.With, ast.Try)) else ast.unparse(st).split("\n")[0]
            direct.append({"file": rel, "function": fn.name, "stmt": " ".join(text.split())})
    # one entry per distinct (function, statement)
    seen, out = set(), []
    for d in direct:
        k = (d["function"], d["stmt"])
        if k not in seen:
            seen.add(k)
            out.append(d)
    return out, prims


def scan():
    base = os.path.join(common.REPO, "vsg", "vhdlFile", "classify")
    direct, prims = [], set()
    for path in sorted(glob.glob(os.path.join(base, "*.py"))):
        rel = os.path.relpath(path, common.REPO)
        if os.path.basename(path) in ("utils.py", "__init__.py"):
            continue
        d, p = scan_file(path, rel)
        direct.extend(d)
        prims |= p
    return direct, sorted(prims)


def compare():
    """returns (new direct accesses, vanished ones, new primitive names, stats)"""
    direct, prims = scan()
    allow = json.load(open(ALLOW))
    key = lambda d: (d["file"], d["function"], d["stmt"])  # noqa: E731
    listed = {key(d) for d in allow["direct"]}
    now = {key(d) for d in direct}
    new = sorted(now - listed)
    gone = sorted(listed - now)
    new_prims = sorted(set(prims) - set(allow["primitives"]))
    return new, gone, new_prims, {"direct_accesses": len(now), "listed": len(listed), "primitives_used": len(prims), "files": len({d["file"] for d in direct})}


if __name__ == "__main__":
    import sys

    if "--write" in sys.argv:
        direct, prims = scan()
        old = json.load(open(ALLOW)) if os.path.exists(ALLOW) else {"direct": [], "primitives": {}}
        notes = {(d["file"], d["function"], d["stmt"]): d.get("review", "") for d in old.get("direct", [])}
        for d in direct:
            d["review"] = notes.get((d["file"], d["function"], d["stmt"]), "")
        pr = old.get("primitives", {}) if isinstance(old.get("primitives"), dict) else {}
        json.dump({"direct": direct, "primitives": {p: pr.get(p, "") for p in prims}}, open(ALLOW, "w"), indent=1)
        print(len(direct), "direct accesses,", len(prims), "primitives written")
    else:
        print(json.dumps(compare(), indent=1))
