"""
Self-test of the C04 check logic: plausible bugs are injected into the REAL functions by
monkeypatching (this process only, /repo is never touched) and the check functions of
props_c04 / corr_lex / corr_lines must report them.  Run: /venv/bin/python -W ignore harness/selftest_c04.py
"""
import os
import sys

sys.path.insert(0, os.path.dirname(os.path.abspath(__file__)))
import corr_lex  # noqa: E402
import corr_lines  # noqa: E402
import props_c04  # noqa: E402

from vsg import apply_rules, rule_list, tokens  # noqa: E402
from vsg.vhdlFile import utils as vutils  # noqa: E402
from vsg.vhdlFile.classify import comment  # noqa: E402

VF = corr_lines.VF
RESULTS = []


def expect(name, cond, info=""):
    RESULTS.append((name, bool(cond)))
    print("%-78s %s %s" % (name, "ok" if cond else "MISSED", info))


def spec(lines, kind="stress", **kw):
    return dict({"name": "selftest", "kind": kind, "data": ("\n".join(lines) + "\n").encode("utf-8"), "check_read": True}, **kw)


BASE = props_c04.TEMPLATE.split("\n")[:-1]

# 0. baseline: the unpatched code passes on the inputs used below --------------------------------
n, reg, dis, prop = corr_lex.check_strings(["a <= b;", "x := y ** 2; -- c", "/* */"])
expect("baseline tokens: no disagreement, no failure", not dis and not prop)
r = props_c04.check_file(spec(BASE[:12] + ["-- c", "/* a", "b */"] + BASE[12:]))
expect("baseline lines: accepted, no disagreement, no failure", r["status"] == "accepted" and not r["dis"] and not r["fails"] and r["breach"] is None)
r = props_c04.nowrite_job({"name": "selftest", "data": props_c04.CLEAN_TEMPLATE.encode(), "style": None})
expect("baseline no-write: clean file untouched with and without --fix", not r["fails"] and r["status"] == "clean-run-1", r["status"])

# 1. tokenizer: 2-character symbols lose their last character -----------------------------------
real = tokens.New.combine_two_character_symbols


def bad_two(self):
    real(self)
    self.lChars = [c[:-1] if c in tokens.lTwoCharacterSymbols else c for c in self.lChars]


tokens.New.combine_two_character_symbols = bad_two
n, reg, dis, prop = corr_lex.check_strings(["a <= b;", "abc"])
tokens.New.combine_two_character_symbols = real
expect("tokens: dropped character -> correspondence disagreement", len(dis) >= 1, dis[:1] and dis[0]["pass"])
expect("tokens: dropped character -> notLossless on the real function", any(p["kind"] == "notLossless" for p in prop))

# 1b. tokenizer: an empty token survives ----------------------------------------------------------
real_c = tokens.create
tokens.create = lambda s: real_c(s) + [""]
n, reg, dis, prop = corr_lex.check_strings(["a"])
tokens.create = real_c
expect("tokens: trailing empty token -> emptyToken", any(p["kind"] == "emptyToken" for p in prop))

# 2. comment.classify does not merge the last token ----------------------------------------------
real_sl = comment.classify_single_line_comment


def bad_single(iToken, lObjects, oOptions):
    sToken = lObjects[iToken].get_value()
    if not oOptions.inside_delimited_comment() and sToken.startswith("--"):
        iEndIndex = len(lObjects) - 1  # always leaves the last token out
        for i in range(iToken + 1, iEndIndex):
            sToken += lObjects[i].get_value()
        for i in range(iToken + 1, iEndIndex):
            lObjects.pop(iToken + 1)
        lObjects[iToken] = comment.parser.comment(sToken)
        return True
    return False


comment.classify_single_line_comment = bad_single
r = props_c04.check_file(spec(BASE[:12] + ["-- one two"] + BASE[12:]))
comment.classify_single_line_comment = real_sl
expect("lines: last comment token not merged -> correspondence disagreement", any(d.get("what") == "tokens" for d in r["dis"]), r.get("status"))

# 2b. comment.classify loses the last token -------------------------------------------------------


def lossy_single(iToken, lObjects, oOptions):
    ret = real_sl(iToken, lObjects, oOptions)
    if ret:
        lObjects[iToken].value = lObjects[iToken].value[:-1]
    return ret


comment.classify_single_line_comment = lossy_single
r = props_c04.check_file(spec(BASE[:12] + ["-- one two"] + BASE[12:]))
comment.classify_single_line_comment = real_sl
expect("lines: comment loses a character -> notLossless at comment + disagreement", any(f["kind"] == "notLossless" and f["site"] == "vhdlFile.classify.comment" for f in r["fails"]) and r["dis"])

# 2c. regression: the defect repaired in /repo c5cb15b (lObjects[iToken - 1] at iToken = 0) -----------
r = props_c04.check_file(spec(["/*", "/ foo *", "*/"] + BASE))
expect("lines: `/ foo *` inside /* */ is lossless on the repaired code, model agrees", r["status"] == "accepted" and not r["fails"] and not r["dis"])
real_should = comment.ending_token_should_exist
comment.ending_token_should_exist = lambda iToken, lObjects, oOptions: oOptions.inside_delimited_comment() and lObjects[iToken].get_value() == "/" and lObjects[iToken - 1].get_value().endswith("*")
r = props_c04.check_file(spec(["/*", "/ foo *", "*/"] + BASE))
comment.ending_token_should_exist = real_should
expect("lines: guard `iToken > 0` removed again -> notLossless at comment + disagreement", any(f["kind"] == "notLossless" and f["site"] == "vhdlFile.classify.comment" for f in r["fails"]) and r["dis"])

# 3. a post pass changes a value ------------------------------------------------------------------
real_post = VF.post_token_assignments


def bad_post(lTokens):
    real_post(lTokens)
    for o in lTokens:
        if o.value == "fifo":
            o.value = "FIFO0"
            break


VF.post_token_assignments = bad_post
r = props_c04.check_file(spec(BASE))
VF.post_token_assignments = real_post
expect("lines: post pass changes a value -> contract breach + notLossless (not at comment)", r["breach"] is not None and any(f["kind"] == "notLossless" and f["site"] != "vhdlFile.classify.comment" for f in r["fails"]))

# 3b. a token is left unclassified ----------------------------------------------------------------


def raw_post(lTokens):
    real_post(lTokens)
    for i, o in enumerate(lTokens):
        if o.value == "rtl":
            lTokens[i] = VF.parser.item("rtl")
            break


VF.post_token_assignments = raw_post
r = props_c04.check_file(spec(BASE))
VF.post_token_assignments = real_post
expect("lines: a raw parser.item is left -> unclassifiedToken", any(f["kind"] == "unclassifiedToken" for f in r["fails"]))

# 4. read_vhdlfile with str.splitlines semantics ----------------------------------------------------
real_read = vutils.read_vhdlfile


def bad_read(sFileName):
    with open(sFileName, encoding="utf-8", newline="") as f:
        return f.read().splitlines(), None


vutils.read_vhdlfile = bad_read
r = props_c04.check_file(spec(BASE[:3] + ["-- a\x0cb"] + BASE[3:]))
vutils.read_vhdlfile = real_read
expect("read: form feed splits a line -> read_vhdlfile vs readLines disagreement", any("read_vhdlfile" in d.get("what", "") for d in r["dis"]))

# 5. write_vhdl_file called unconditionally -----------------------------------------------------------
real_check = rule_list.rule_list.check_rules


def writing_check(self, *a, **kw):
    apply_rules.write_vhdl_file(self.oVhdlFile, {})
    return real_check(self, *a, **kw)


rule_list.rule_list.check_rules = writing_check
r = props_c04.nowrite_job({"name": "selftest", "data": props_c04.CLEAN_TEMPLATE.encode(), "style": None})
rule_list.rule_list.check_rules = real_check
kinds = set(f["kind"] for f in r["fails"])
expect("no-write: unconditional write -> modifiedWithoutFix and rewrittenWithoutViolations", {"modifiedWithoutFix", "rewrittenWithoutViolations"} <= kinds, sorted(kinds))

# 5b. a .tmp file is left behind ------------------------------------------------------------------------
real_remove = apply_rules.os.remove
real_replace = apply_rules.os.replace
real_w = apply_rules.write_vhdl_file


def leaving_write(oVhdlFile, dConfig):
    real_w(oVhdlFile, dConfig)
    open(oVhdlFile.filename + ".tmp", "w").close()


apply_rules.write_vhdl_file = leaving_write
r = props_c04.nowrite_job({"name": "selftest", "data": props_c04.UNREPAIRABLE_TEMPLATE.encode(), "style": None})
apply_rules.write_vhdl_file = real_w
expect("no-write: leftover .tmp -> leftoverFile", any(f["kind"] == "leftoverFile" for f in r["fails"]))

# 5c. the genuine finding is reported by the unpatched code ----------------------------------------------
r = props_c04.nowrite_job({"name": "selftest", "data": props_c04.UNREPAIRABLE_TEMPLATE.encode(), "style": None})
expect("no-write: unrepairable violation -> rewrittenUnchanged (unpatched code)", any(f["kind"] == "rewrittenUnchanged" for f in r["fails"]))

bad = [n for n, ok in RESULTS if not ok]
print("%d/%d self-test expectations met" % (len(RESULTS) - len(bad), len(RESULTS)))
sys.exit(1 if bad else 0)
