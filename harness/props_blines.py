"""
Layer B, phase-1 LINE-STRUCTURE base classes (≈110 rules; models in lean/VsgModel/Base/LineStruct.lean,
theorems `bfix_*` in lean/VsgProofs/Properties/C01.lean / C02.lean / C03.lean).

  ./check BLINES quick|thorough          (auxiliary id; the corpus correspondence of the same models runs
                                          inside the C01/C02/C03 sweep: CORR … bfix-mismatch)

(1) synthetic correspondence: hand-built token lists × every action in and out of range through the REAL
    `_fix_violation` of a real rule instance of each of the 17 owners and through the Lean model; token
    lists and raised exception types must agree (harness/blines_synth.py);
(2) the Lean negation witnesses (`move_codeSeq_false`, `moveSeq_codeSeq_false`, `removeCr_celSafe_false`, `removeCrAfter_celSafe_false`, `removeCrAfter_preprocSafe_false`,
    `move_celSafe_false`, `moveLeft_commentSeq_false`) replayed on the REAL classes;
(3) search on the REAL fix path (whole files, default rule set) for inputs on which a rule of the family
    reorders code, lets a comment swallow code, glues code onto a preprocessor line or indents a preprocessor line.
`check_into(res, prop, tier)` folds (1)–(3) into a C01 / C02 run.
"""
import contextlib
import io
import itertools
import json
import os
import sys

import common

FAMILY_SITES = {
    "move_token_next_to_another_token", "move_token_next_to_another_token_if_it_exists_between_tokens",
    "move_token_left_to_next_non_whitespace_token", "move_token_right_to_next_non_whitespace_token", "move_token",
    "move_token_to_the_right_of_several_possible_tokens_if_it_exists_between_tokens", "move_token_sequences_left_of_token",
    "insert_carriage_return_after_token_if_it_is_not_followed_by_a_comment",
    "insert_carriage_return_after_token_if_it_is_not_followed_by_a_comment_when_between_tokens",
    "insert_carriage_return_after_token_if_it_is_not_followed_by_a_comment_when_between_tokens_unless_between_tokens",
    "split_line_at_token", "split_line_at_token_when_between_tokens", "split_line_at_token_when_between_tokens_unless_token_is_found",
    "split_line_at_token_if_on_same_line_as_token_if_token_pair_are_not_on_the_same_line",
    "remove_carriage_return_after_token", "remove_carriage_returns_between_token_pairs",
    "remove_lines_starting_with_token_between_token_pairs",
}

# (owner key, symbols, kwargs of blines_synth.real_fix, expected result symbols) — the Lean witnesses.
# symbols: a b c = code, w = " ", n = line break, k = "-- c", p = preprocessor line
WITNESSES = [
    ("moveNext", "abc", dict(tv=2), "awcb", "C01.move_codeSeq_false: the moved token jumps over code"),
    ("moveSeq", "ancnb", dict(action={"num_tokens": 1}), "ncnawb", "C01.moveSeq_codeSeq_false: block_001 reorders label / colon"),
    ("removeCrPairs", "awknb", dict(params={"bInsertSpace": True}), "awkb", "C02.removeCr_celSafe_false (1): comment inside the region (unrepaired base class)"),
    ("removeCrPairs", "akn", dict(params={"bInsertSpace": True}), "awk", "C02.removeCr_celSafe_false (2): comment before the last line break (unrepaired base class)"),
    ("removeCr", "awknb", dict(params={"bInsertSpace": True}), "awknb", "C02: the repaired remove_carriage_return_after_token keeps the line break behind the comment"),
    ("removeCr", "na", dict(params={"bInsertSpace": False}), "a", "C02.removeCrAfter_celSafe_false (1): region starting with a line break"),
    ("removeCr", "kna", dict(params={"bInsertSpace": True}), "kwna", "C02.removeCrAfter_celSafe_false (2): whitespace inserted behind a leading comment"),
    ("removeCr", "anpnw", dict(params={"bInsertSpace": False}), "anpnw", "C02.removeCrAfter_preproc_region_kept (1): the repaired remove_carriage_return_after_token keeps the line breaks around a preprocessor line"),
    ("removeCr", "anwpn", dict(params={"bInsertSpace": False}), "anwpn", "C02.removeCrAfter_preproc_region_kept (2): … also behind an indentation"),
    ("removeCr", "an", dict(params={"bInsertSpace": False}), "a", "C02.removeCrAfter_preprocSafe_false (1): the last line break of the region goes whatever follows the region"),
    ("removeCr", "wna", dict(params={"bInsertSpace": False}), "wa", "C02.removeCrAfter_preprocSafe_false (2): region starting with whitespace"),
    ("moveLeft", "awknb", dict(params={"bInsertWhitespace": True, "bRemoveTrailingWhitespace": True}), "awbwk", "C02.move_celSafe_false (1): comment becomes the last token of the region"),
    ("moveNext", "knb", dict(tv=2), "kwbn", "C02.move_celSafe_false (2): token lands behind a comment"),
    ("moveLeft", "apnb", dict(params={"bInsertWhitespace": True, "bRemoveTrailingWhitespace": True}), "awb", "C02.moveLeft_commentSeq_false: trailing preprocessor token deleted"),
]

# whole-file reproductions (default rule set).  %s = where layouts are varied
SNIPPETS = {
    "with_select": "architecture a of e is\nbegin\n  with sel{0}select{1}q <= '1' when \"0\",\n         '0' when others;\nend architecture a;\n",
    "with_expr": "architecture a of e is\nbegin\n  with{0}sel select\n    q <= '1' when \"0\",\n         '0' when others;\nend architecture a;\n",
    "if_then": "architecture a of e is\nbegin\n  p : process (clk) is\n  begin\n    if a = '1'{0}then{1}b <= '0';\n    end if;\n  end process p;\nend architecture a;\n",
    "if_cond": "architecture a of e is\nbegin\n  p : process (clk) is\n  begin\n    if{0}a = '1' then\n      b <= '0';\n    end if;\n  end process p;\nend architecture a;\n",
    "block": "architecture a of e is\nbegin\n  lbl{0}:{1}block is\n  begin\n  end block lbl;\nend architecture a;\n",
    "arch": "architecture{0}a{1}of e is\nbegin\nend architecture a;\n",
    "entity": "entity{0}e{1}is\n  port (\n    a : in std_logic{0});\nend entity e;\n",
    "loop": "architecture a of e is\nbegin\n  p : process (clk) is\n  begin\n    for i in 0 to 3{0}loop{1}b <= '0';\n    end loop;\n  end process p;\nend architecture a;\n",
}
GAPS = [" ", "\n    ", " -- c\n    ", "\n    -- c\n    ", "\n#ifdef X\n    ", " -- c\n\n    "]


def _texts(tier):
    out = []
    for name, tpl in SNIPPETS.items():
        n = tpl.count("{1}") and 2 or 1
        for gaps in itertools.product(GAPS, repeat=n):
            g = list(gaps) + [" "]
            out.append((name, gaps, tpl.format(g[0], g[1])))
    return out


def _preproc_lines(text):
    return [l.strip() for l in text.split("\n") if l.strip().startswith("#")]


def _preproc_raw_lines(text):
    return [l for l in text.split("\n") if l.strip().startswith("#")]


def _defect_job(args):
    """runs the real fix on one text; returns findings of the family's owners"""
    import sweep

    name, gaps, text = args
    job = {"text": text, "variant": "orig", "vseed": 0, "config": "default", "cseed": 0, "features": ["trace"]}
    r = sweep.run_job(job)
    found = []
    for f in r["failures"]:
        if f["prop"] in ("C01", "C02") and f["site"] in FAMILY_SITES:
            found.append({"prop": f["prop"], "site": f["site"], "kind": f["kind"], "detail": f["detail"][:300], "input": {"text": text, "snippet": name, "gaps": gaps}})
    # preprocessor lines must stay alone on their line (the certificate checker does not look at this)
    if "#" in text:
        import vsgrun

        try:
            cla, oc, _, _ = sweep.job_config(job)
            with contextlib.redirect_stdout(io.StringIO()):
                o = vsgrun.parse(vsgrun.text_to_lines(text), cla, oc)
                rl = vsgrun.new_rule_list(o, oc)
                steps, exc, ser = vsgrun.instrumented_fix(o, rl, sweep._W["ci"])
            after = "".join(t.get_value() for t in o.lAllObjects)
            for st in steps:
                if st.kind == "fix" and st.changed:
                    b = "".join(v for _, v in st.before)
                    a = "".join(v for _, v in st.after)
                    lost = [p for p in _preproc_lines(b) if p not in _preproc_lines(a)]
                    if lost:
                        site = sweep._W["owner"].get(st.rule, st.rule)
                        if site in FAMILY_SITES:
                            line = next((l for l in a.split("\n") if lost[0] in l), "")
                            found.append({"prop": "C02", "site": site, "kind": "preprocessorAbsorbsCode", "detail": "%s: preprocessor line %r becomes %r" % (st.rule, lost[0], line.strip()), "input": {"text": text, "snippet": name, "gaps": gaps}})
                        break
                    # … and verbatim: a step that puts whitespace in front of a directive (any base class; the next run adds more,
                    # because the re-parsed directive is ONE token that includes its leading blanks)
                    moved = [p for p in _preproc_raw_lines(b) if p not in _preproc_raw_lines(a)]
                    if moved:
                        site = sweep._W["owner"].get(st.rule, st.rule)
                        line = next((l for l in a.split("\n") if moved[0].strip() in l), "")
                        found.append({"prop": "C02", "site": site, "kind": "preprocessorLineIndented", "detail": "%s: preprocessor line %r becomes %r" % (st.rule, moved[0], line), "input": {"text": text, "snippet": name, "gaps": gaps}})
                        break
        except Exception as e:  # noqa: BLE001 - crashes are C19's business
            found.append({"prop": "C19", "site": "?", "kind": type(e).__name__, "detail": repr(e)[:200], "input": {"text": text}})
    return found


def defect_search(tier):
    import multiprocessing

    import sweep

    texts = _texts(tier)
    with multiprocessing.Pool(16, initializer=sweep._init) as pool:
        res = pool.map(_defect_job, texts, chunksize=2)
    found = [f for fs in res for f in fs]
    return found, len(texts)


def witness_replay():
    """the Lean witnesses on the real classes: (mismatches with the expectation, Lean/real mismatches, n)"""
    import blines_synth

    st = blines_synth.setup()
    ci = st["ci"]
    recs, bad = [], []
    for key, sym, kw, want, what in WITNESSES:
        r = blines_synth.real_fix(key, sym, **kw)
        recs.append(r)
        wanted = [(ci.of(t), t.value) for t in blines_synth.build(want)]
        got = None if r["new"] is None else [(t[1], t[2]) for t in r["new"]]
        if got != wanted:
            bad.append({"witness": what, "real": r["exc"] or got, "expected": wanted})
    mism, n = blines_synth.lean_replay(recs)
    return bad, mism, n


def check_into(res, prop, tier, known_prop=None):
    """adds the synthetic correspondence, the witness replay and the defect search to `res`"""
    import blines_synth

    synth = blines_synth.run_synth(tier, common.seed() or 1)
    for m in synth["mismatches"][:3]:
        res.proof_break("bfix synthetic correspondence %s" % m.get("rule"), m)
    bad, wm, nw = witness_replay()
    for b in bad:
        res.proof_break("Lean witness not reproduced on the real class: %s" % b["witness"], b)
    for m in wm:
        res.proof_break("bfix witness correspondence %s" % m.get("rule"), m)
    found, ntexts = defect_search(tier)
    kp = known_prop or prop
    counts = {}
    for f in found:
        counts["%s|%s|%s" % (f["prop"], f["site"], f["kind"])] = counts.get("%s|%s|%s" % (f["prop"], f["site"], f["kind"]), 0) + 1
        if known_prop is None and f["prop"] != prop:
            continue
        res.fail(f["site"], f["kind"], f["detail"], f["input"])
    res.coverage.update(
        {
            "blines_synthetic_cases": synth["cases"],
            "blines_synthetic_raising_cases": synth["raised"],
            "blines_synthetic_token_lists": synth["token_lists"],
            "blines_synthetic_by_owner": synth["by_owner"],
            "blines_synthetic_mismatches": synth["n_mismatch"],
            "blines_witnesses_replayed_on_real_classes": nw,
            "blines_defect_search_texts": ntexts,
            "blines_defect_search_findings": counts,
        }
    )
    return synth, found, ntexts


class _MappedResult(common.Result):
    """stand-alone run: known findings are looked up under the property the finding belongs to"""

    def fail(self, site, kind, detail, replay):
        self.failures.append({"site": site, "kind": kind, "detail": detail, "replay": replay})


def run(prop, tier):
    res = common.Result(prop, tier)
    ok_model, tables, nobl, ndis, thms = common.lean_phase(res, "C02")
    ok1, _, nobl1, ndis1, thms1 = common.lean_phase(res, "C01")
    nobl, ndis, thms = nobl + nobl1, ndis + ndis1, (thms or []) + (thms1 or [])
    if not ok_model:
        return res.finish(max(nobl, 1), 0, "lake build VsgModel driver VsgProofs.Properties.C01 VsgProofs.Properties.C02", thms)
    known = common.load_known()
    import blines_synth

    synth = blines_synth.run_synth(tier, common.seed() or 1)
    for m in synth["mismatches"][:3]:
        res.proof_break("bfix synthetic correspondence %s" % m.get("rule"), m)
    bad, wm, nw = witness_replay()
    for b in bad:
        res.proof_break("Lean witness not reproduced on the real class: %s" % b["witness"], b)
    for m in wm:
        res.proof_break("bfix witness correspondence %s" % m.get("rule"), m)
    found, ntexts = defect_search(tier)
    counts = {}
    nknown = set()
    for f in found:
        key = "%s|%s|%s" % (f["prop"], f["site"], f["kind"])
        counts[key] = counts.get(key, 0) + 1
        if common.match_known(f["prop"], f["site"], f["kind"], known) is not None:
            if key not in nknown:
                nknown.add(key)
                print("KNOWN-FINDING: property=%s site=%s kind=%s (found again by the line-structure defect search)" % (f["prop"], f["site"], f["kind"]))
            continue
        res.fail(f["site"], "%s:%s" % (f["prop"], f["kind"]), f["detail"], f["input"])
    res.coverage.update(
        {
            "evaluations": synth["cases"] + nw + ntexts,
            "distinct_nontrivial": len(synth["by_owner"]),
            "rule": "an evaluation = one (owner, rule parameters, action, token list) through the real _fix_violation and the Lean model, results and exception types compared; plus one whole-file fix run per layout text; non-trivial = distinct _fix_violation owners exercised",
            "samples": [{"witness": w[4], "owner": w[0], "old": w[1], "new": w[3]} for w in WITNESSES][:5],
            "synthetic_by_owner": synth["by_owner"],
            "synthetic_raising_cases": synth["raised"],
            "synthetic_mismatches": synth["n_mismatch"],
            "witnesses_replayed_on_real_classes": nw,
            "defect_search_texts": ntexts,
            "defect_search_findings": counts,
            "known_findings_reproduced": sorted(nknown),
        }
    )
    res.assumptions = [
        "the corpus correspondence of the same models (harvest + bfix replay of every real violation step) runs in the C01/C02/C03 sweep",
        "theorems are about the token lists of one region; `CelSafe` + `update_commentEndsLine` lift the comment statement to the whole file for sorted disjoint regions",
    ]
    return res.finish(max(nobl, 1), ndis, "cd lean && lake build VsgProofs.Properties.C01 VsgProofs.Properties.C02", thms)


def replay(prop, path):
    d = json.load(open(path))
    if d.get("kind") == "no-failing-input-found":
        print(json.dumps(d, indent=1)[:3000])
        return 0
    import gen_tables

    gen_tables.generate()
    import sweep

    sweep._init()
    inp = d["input"]
    found = _defect_job((inp.get("snippet"), inp.get("gaps"), inp["text"]))
    hit = [f for f in found if f["site"] == d["site"]]
    for f in hit:
        print("REPRODUCED property=%s site=%s kind=%s %s" % (f["prop"], f["site"], f["kind"], f["detail"]))
    return 1 if hit else 0
