"""
Layer G translator: reads the *behaviour* of /repo as it is now (instantiated rule
objects, token classes, docs labels, CPython character predicates) and writes

    lean/VsgModel/Generated/Rules.lean      rule metadata table
    lean/VsgModel/Generated/Classes.lean    token class table (name, kind)
    lean/VsgModel/Generated/CharTables.lean isspace / isdigit / lower() tables
    .cache/tables.json                      the same data for the harness

Run with /venv/bin/python (the editable install points at /repo).
Only files whose content changed are rewritten, so an unchanged tree is a lake no-op.
"""
import glob
import importlib
import inspect
import json
import os
import pkgutil
import re
import sys
import warnings

warnings.simplefilter("ignore")

VERIF = os.path.dirname(os.path.dirname(os.path.abspath(__file__)))
GEN = os.path.join(VERIF, "lean", "VsgModel", "Generated")
CACHE = os.path.join(VERIF, ".cache")
REPO = os.environ.get("VSG_REPO", "/repo")

KIND = {"codeCI": 11, "code": 0, "ws": 1, "cr": 2, "blank": 3, "comment": 4, "dcBegin": 5, "dcText": 6, "dcEnd": 7, "pragma": 8, "preproc": 9, "bof": 10}


def lean_str(s):
    out = ['"']
    for ch in s:
        if ch == '"':
            out.append('\\"')
        elif ch == "\\":
            out.append("\\\\")
        elif ch == "\n":
            out.append("\\n")
        elif ch == "\t":
            out.append("\\t")
        elif 32 <= ord(ch) < 127:
            out.append(ch)
        else:
            out.append("\\u{%x}" % ord(ch))
    out.append('"')
    return "".join(out)


def lean_list(xs):
    return "[" + ", ".join(xs) + "]"


_WV = {}


def _writes_violations(k):
    """does the source of class `k` assign to / append to / extend `self.violations`?"""
    if k in _WV:
        return _WV[k]
    import ast
    import textwrap

    found = False
    try:
        tree = ast.parse(textwrap.dedent(inspect.getsource(k)))
    except Exception:  # noqa: BLE001
        _WV[k] = False
        return False

    def is_sv(n):
        return isinstance(n, ast.Attribute) and n.attr == "violations" and isinstance(n.value, ast.Name) and n.value.id == "self"

    for n in ast.walk(tree):
        if isinstance(n, (ast.Assign, ast.AugAssign, ast.AnnAssign)):
            targets = n.targets if isinstance(n, ast.Assign) else [n.target]
            if any(is_sv(t) or (isinstance(t, ast.Subscript) and is_sv(t.value)) for t in targets):
                found = True
        if isinstance(n, ast.Call) and isinstance(n.func, ast.Attribute) and n.func.attr in ("append", "extend", "insert", "__iadd__") and is_sv(n.func.value):
            found = True
    _WV[k] = found
    return found


def lean_bool(b):
    return "true" if b else "false"


def write_if_changed(path, text):
    os.makedirs(os.path.dirname(path), exist_ok=True)
    try:
        if open(path, encoding="utf-8").read() == text:
            return False
    except OSError:
        pass
    with open(path, "w", encoding="utf-8") as f:
        f.write(text)
    return True


# ---------------------------------------------------------------- token classes


def all_token_classes():
    """Every class derived from parser.item that is importable from vsg.parser / vsg.token.*"""
    from vsg import parser
    import vsg.token

    mods = [parser]
    for m in pkgutil.walk_packages(vsg.token.__path__, "vsg.token."):
        try:
            mods.append(importlib.import_module(m.name))
        except Exception:  # pragma: no cover
            pass
    # packages without __init__.py (vsg/token/psl) are invisible to walk_packages
    known = {m.__name__ for m in mods}
    for base in vsg.token.__path__:
        for dp, dn, fn in os.walk(base):
            dn[:] = sorted(d for d in dn if d != "__pycache__")
            for f in sorted(fn):
                if f.endswith(".py") and f != "__init__.py":
                    rel = os.path.relpath(os.path.join(dp, f), base)[:-3].replace(os.sep, ".")
                    name = "vsg.token." + rel
                    if name not in known:
                        try:
                            mods.append(importlib.import_module(name))
                            known.add(name)
                        except Exception:  # pragma: no cover
                            pass
    seen = {}
    for mod in mods:
        for name, obj in inspect.getmembers(mod, inspect.isclass):
            if issubclass(obj, parser.item) and obj.__module__ == mod.__name__:
                seen[obj.__module__ + "." + obj.__qualname__] = obj
    return seen


def class_kind(cls):
    from vsg import parser
    from vsg.token import delimited_comment
    import vsg.token.pragma as pragma_mod

    if issubclass(cls, parser.beginning_of_file):
        return "bof"
    if issubclass(cls, parser.whitespace):
        return "ws"
    if issubclass(cls, parser.carriage_return):
        return "cr"
    if issubclass(cls, parser.blank_line):
        return "blank"
    if issubclass(cls, delimited_comment.beginning):
        return "dcBegin"
    if issubclass(cls, delimited_comment.text):
        return "dcText"
    if issubclass(cls, delimited_comment.ending):
        return "dcEnd"
    if issubclass(cls, pragma_mod.pragma):
        return "pragma"
    if issubclass(cls, parser.preprocessor):
        return "preproc"
    if issubclass(cls, parser.comment):
        return "comment"
    from vsg.token import bit_string_literal

    if issubclass(cls, bit_string_literal.bit_value_string):
        return "codeCI"
    return "code"


def class_table():
    classes = all_token_classes()
    names = sorted(classes)
    rows = []
    for i, n in enumerate(names):
        c = classes[n]
        try:
            doc = (c.__doc__ or "").split()
            uid = None
            for k, d in enumerate(doc):
                if d == "unique_id":
                    uid = [doc[k + 2], doc[k + 4]]
                    break
        except Exception:
            uid = None
        rows.append({"idx": i, "name": n, "kind": class_kind(c), "uid": uid})
    # layer B (isinstance tests of the `_fix_violation` models): proper ancestors inside the table
    byname = {r["name"]: r["idx"] for r in rows}
    for r in rows:
        c = classes[r["name"]]
        r["ancestors"] = sorted({byname[k.__module__ + "." + k.__qualname__] for k in c.__mro__[1:] if (k.__module__ + "." + k.__qualname__) in byname})
    index = {n: i for i, n in enumerate(names)}
    for r in rows:
        # every class of the table the class is an instance of (itself first): `isinstance` as a table
        r["mro"] = [index[k.__module__ + "." + k.__qualname__] for k in classes[r["name"]].__mro__ if (k.__module__ + "." + k.__qualname__) in index]
    return rows, classes


# ---------------------------------------------------------------- rules


def owner_of(cls, attr):
    for k in cls.__mro__:
        if attr in k.__dict__:
            return k.__module__ + "." + k.__qualname__
    return None


def docs_table():
    """rule id -> {phase, severity, groups} parsed from docs/*_rules.rst label lines"""
    out = {}
    for path in sorted(glob.glob(os.path.join(REPO, "docs", "*_rules.rst"))):
        lines = open(path, encoding="utf-8").read().split("\n")
        for i in range(len(lines) - 1):
            if re.fullmatch(r"#{4,}", lines[i + 1].strip()) and re.fullmatch(r"[a-z_0-9]+_\d{3}", lines[i].strip()):
                rid = lines[i].strip()
                labels = None
                for j in range(i + 2, min(i + 8, len(lines))):
                    if lines[j].startswith("|phase_"):
                        labels = re.findall(r"\|([^|\s]+)\|", lines[j])
                        break
                    if re.fullmatch(r"#{4,}", lines[j].strip()):
                        break
                if labels is None:
                    out[rid] = None
                    continue
                phase = None
                sev = None
                groups = []
                for lab in labels:
                    m = re.fullmatch(r"phase_(\d)", lab)
                    if m:
                        phase = int(m.group(1))
                    elif lab in ("error", "warning"):
                        sev = lab
                    elif lab in ("unfixable",):
                        groups.append(lab)
                    else:
                        groups.append(lab)
                out[rid] = {"phase": phase, "severity": sev, "labels": groups}
    return out


def jsonable(v):
    try:
        json.dumps(v)
        return v
    except TypeError:
        return repr(v)


def rule_table(class_index):
    from vsg import rule as rule_mod
    from vsg import rule_list, severity, deprecated_rule

    rules = rule_list.load_rules()
    docs = docs_table()
    rows = []
    for r in rules:
        cls = type(r)
        mro = cls.__mro__
        base = mro[1]
        chain = [k.__module__ + "." + k.__qualname__ for k in mro[1:] if k is not object]
        tok_params = {}
        for k, v in r.__dict__.items():
            vals = v if isinstance(v, (list, tuple)) else [v]
            names = []
            ok = len(vals) > 0
            for x in vals:
                if inspect.isclass(x) and (x.__module__ + "." + x.__qualname__) in class_index:
                    names.append(class_index[x.__module__ + "." + x.__qualname__])
                else:
                    ok = False
            if ok:
                tok_params[k] = names
        # layer B, insert family: the token(s) a rule is parameterised to insert
        from vsg import parser as _parser

        ins_toks = None
        ins_cls = None
        for attr in ("insert_token", "oInsertToken", "insert_tokens"):
            v = r.__dict__.get(attr)
            if v is None:
                continue
            vals = v if isinstance(v, (list, tuple)) else [v]
            if all(isinstance(x, _parser.item) for x in vals):
                ins_toks = [[class_index.get(type(x).__module__ + "." + type(x).__qualname__, -1), x.get_value()] for x in vals]
            elif len(vals) == 1 and inspect.isclass(vals[0]):
                ins_cls = class_index.get(vals[0].__module__ + "." + vals[0].__qualname__, -1)
        d = docs.get(r.unique_id)
        rows.append(
            {
                "id": r.unique_id,
                "phase": r.phase if isinstance(r.phase, int) else -1,
                "subphase": r.subphase if isinstance(r.subphase, int) else -1,
                "fixable": bool(r.fixable),
                "disable": bool(r.disable),
                "sevError": r.severity.type == severity.error_type,
                "sevName": r.severity.name,
                "remap": bool(r.remap),
                "deprecated": bool(r.deprecated) or isinstance(r, deprecated_rule.Rule),
                "proposed": bool(r.proposed),
                "groups": list(r.groups),
                "prereq": len(r.prerequisites) > 0,
                "overridesFix": cls.fix is not rule_mod.Rule.fix,
                "overridesAnalyze": cls.analyze is not rule_mod.Rule.analyze,
                # violations enter the rule's list only through vsg.rule.Rule.add_violation (where the code tags are
                # consulted): the method is not overridden and no class of the rule's MRO other than vsg.rule.Rule
                # writes `self.violations` itself
                "overridesAddViolation": cls.add_violation is not rule_mod.Rule.add_violation or any(_writes_violations(k) for k in cls.__mro__ if k is not rule_mod.Rule and k is not object),
                "fixVOwner": owner_of(cls, "_fix_violation"),
                "analyzeOwner": owner_of(cls, "_analyze"),
                "toiOwner": owner_of(cls, "_get_tokens_of_interest"),
                "base": base.__module__ + "." + base.__qualname__,
                "chain": chain,
                "configuration": list(r.configuration),
                "dictKeys": sorted(r.__dict__.keys()),
                "defaults": {k: jsonable(getattr(r, k, None)) for k in r.configuration if k != "severity"},
                "options": [o.name for o in r.options],
                "tokParams": tok_params,
                "insertToks": ins_toks,
                "insertCls": ins_cls,
                "docPhase": d["phase"] if d else None,
                "docSeverity": d["severity"] if d else None,
                "docLabels": d["labels"] if d else None,
                "documented": r.unique_id in docs,
            }
        )
    rows.sort(key=lambda x: x["id"])
    return rows


# ---------------------------------------------------------------- character tables


def char_tables():
    space = []
    digit = []
    lower_e = []  # c.lower() == "e"
    lower_boxd = []  # c.lower() ends with b/o/x/d
    lower_has_e_other = []  # c.lower() contains "e" but is not "e"  (model assumption: empty)
    lower_pairs = []  # simple one-to-one lower-casing different from identity
    lower_multi = []  # code points whose lower() is not one character
    upper_pairs = []
    upper_multi = []
    for cp in range(0x110000):
        if 0xD800 <= cp <= 0xDFFF:
            continue
        c = chr(cp)
        if c.isspace():
            space.append(cp)
        if c.isdigit():
            digit.append(cp)
        lo = c.lower()
        if lo == "e":
            lower_e.append(cp)
        elif "e" in lo:
            lower_has_e_other.append(cp)
        if lo.endswith(("b", "o", "x", "d")):
            lower_boxd.append(cp)
        if lo != c:
            if len(lo) == 1:
                lower_pairs.append([cp, ord(lo)])
            else:
                lower_multi.append(cp)
        up = c.upper()
        if up != c:
            if len(up) == 1:
                upper_pairs.append([cp, ord(up)])
            else:
                upper_multi.append(cp)
    return {
        "space": space,
        "digit": digit,
        "lowerE": lower_e,
        "lowerBoxd": lower_boxd,
        "lowerHasEOther": lower_has_e_other,
        "lowerPairs": lower_pairs,
        "lowerMulti": lower_multi,
        "upperPairs": upper_pairs,
        "upperMulti": upper_multi,
    }


def lexer_symbols():
    from vsg import tokens

    return {
        "single": list(tokens.lSingleCharacterSymbols),
        "two": list(tokens.lTwoCharacterSymbols),
        "three": list(tokens.lThreeCharacterSymbols),
        "stop": list(tokens.lStopChars),
    }


# ---------------------------------------------------------------- classifier tables (C05)

# the base classes the navigation primitives and the post passes test with isinstance / type() ==
CLASSIFY_BASES = [
    "vsg.parser.whitespace",
    "vsg.parser.carriage_return",
    "vsg.parser.comment",
    "vsg.parser.blank_line",
    "vsg.parser.preprocessor",
    "vsg.parser.todo",
    "vsg.parser.keyword",
    "vsg.parser.assignment",
    "vsg.parser.comma",
    "vsg.parser.open_parenthesis",
    "vsg.parser.close_parenthesis",
    "vsg.parser.type",
    "vsg.parser.function",
    "vsg.token.delimited_comment.text",
    "vsg.token.resolution_indication.resolution_function_name",
    "vsg.token.type_mark.name",
    "vsg.token.attribute_name.name",
    "vsg.token.attribute_name.attribute",
    "vsg.token.todo.name",
    "vsg.token.exponent.e_keyword",
    "vsg.token.exponent.plus_sign",
    "vsg.token.exponent.minus_sign",
    "vsg.token.choices.bar",
    "vsg.token.logical_operator.logical_operator",
    "vsg.token.if_statement.if_keyword",
    "vsg.token.if_statement.elsif_keyword",
    "vsg.token.if_statement.else_keyword",
    "vsg.token.if_statement.semicolon",
    "vsg.token.aggregate.open_parenthesis",
    "vsg.token.element_association.assignment",
]
# classes the post passes construct
CLASSIFY_TARGETS = [
    "vsg.parser.item",
    "vsg.parser.whitespace",
    "vsg.parser.keyword",
    "vsg.parser.semicolon",
    "vsg.token.delimited_comment.text",
    "vsg.token.sign.minus",
    "vsg.parser.todo",
    "vsg.parser.comma",
    "vsg.parser.open_parenthesis",
    "vsg.parser.close_parenthesis",
    "vsg.parser.tic",
    "vsg.parser.character_literal",
    "vsg.token.predefined_attribute.keyword",
    "vsg.token.predefined_attribute.event_keyword",
    "vsg.token.adding_operator.plus",
    "vsg.token.adding_operator.minus",
    "vsg.token.multiplying_operator.star",
    "vsg.token.multiplying_operator.slash",
    "vsg.token.miscellaneous_operator.double_star",
    "vsg.token.todo.name",
    "vsg.token.todo.open_parenthesis",
    "vsg.token.todo.close_parenthesis",
    "vsg.token.aggregate.open_parenthesis",
    "vsg.token.aggregate.close_parenthesis",
    "vsg.token.exponent.e_keyword",
    "vsg.token.exponent.plus_sign",
    "vsg.token.exponent.minus_sign",
    "vsg.token.exponent.integer",
]


def lean_ident(name):
    return name.replace("vsg.token.", "").replace("vsg.", "").replace(".", "_")


def classify_tables(crow, classes):
    """isinstance facts, the string maps of vhdlFile.py and predefined_attribute.values, read from
    the imported modules of /repo"""
    import vsg.vhdlFile.vhdlFile  # noqa: F401
    from vsg.token import predefined_attribute

    VF = sys.modules["vsg.vhdlFile.vhdlFile"]
    idx = {r["name"]: r["idx"] for r in crow}

    def cidx(c):
        return idx[c.__module__ + "." + c.__qualname__]

    sub = {}
    for b in CLASSIFY_BASES:
        base = classes[b]
        sub[b] = [r["idx"] for r in crow if issubclass(classes[r["name"]], base)]
    tgt = {t: idx[t] for t in CLASSIFY_TARGETS}
    todo_map = [[k, cidx(v)] for k, v in VF.dParserTodoStringMap.items()]
    add_map = [[k, cidx(v["unary"]), cidx(v["binary"])] for k, v in VF.dUnaryOrBinaryAdditionOperatorStringMap.items()]
    log_map = [[k, cidx(v["unary"]), cidx(v["binary"])] for k, v in VF.dUnaryOrBinaryLogicalOperatorStringMap.items()]
    return {"sub": sub, "idx": tgt, "todoMap": todo_map, "addMap": add_map, "logMap": log_map, "predefinedAttributeValues": list(predefined_attribute.values)}


def emit_classify(ct):
    L = []
    L.append("/- GENERATED by harness/gen_tables.py from vsg.parser, vsg.token.*, vsg.vhdlFile.vhdlFile of /repo — do not edit -/")
    L.append("namespace Vsgm.Gen")
    L.append("/-! class indices `c` with `issubclass(class c, <base>)` -/")
    for b, xs in ct["sub"].items():
        chunked(L, "sub_" + lean_ident(b), "Nat", [str(x) for x in xs])
    L.append("/-! class indices of the classes the post passes construct -/")
    for t, i in ct["idx"].items():
        L.append(f"def idx_{lean_ident(t)} : Nat := {i}")
    L.append("/-- dParserTodoStringMap: lower-cased value -> class index -/")
    L.append("def parserTodoStringMap : List (String × Nat) := " + lean_list([f"({lean_str(k)}, {v})" for k, v in ct["todoMap"]]))
    L.append("/-- dUnaryOrBinaryAdditionOperatorStringMap: value -> (unary, binary) -/")
    L.append("def addOpMap : List (String × Nat × Nat) := " + lean_list([f"({lean_str(k)}, {u}, {b})" for k, u, b in ct["addMap"]]))
    L.append("/-- dUnaryOrBinaryLogicalOperatorStringMap -/")
    L.append("def logOpMap : List (String × Nat × Nat) := " + lean_list([f"({lean_str(k)}, {u}, {b})" for k, u, b in ct["logMap"]]))
    L.append("/-- predefined_attribute.values -/")
    L.append("def predefinedAttributeValues : List String := " + lean_list([lean_str(x) for x in ct["predefinedAttributeValues"]]))
    L.append("end Vsgm.Gen")
    return "\n".join(L) + "\n"


# ---------------------------------------------------------------- emit


def emit_rules(rows):
    L = []
    L.append("/- GENERATED by harness/gen_tables.py from the rule objects of /repo — do not edit -/")
    L.append("import VsgModel.Tables")
    L.append("namespace Vsgm.Gen")
    L.append("open Vsgm")
    chunks = []
    CH = 50
    for ci in range(0, len(rows), CH):
        name = f"ruleChunk{ci // CH}"
        chunks.append(name)
        L.append(f"def {name} : List RuleRow := [")
        items = []
        for r in rows[ci : ci + CH]:
            dp = "none" if r["docPhase"] is None else f"some {r['docPhase']}"
            ds = "none" if r["docSeverity"] is None else f"some {lean_str(r['docSeverity'])}"
            dl = lean_list([lean_str(x) for x in (r["docLabels"] or [])])
            items.append(
                "  { id := %s, phase := %d, subphase := %d, fixable := %s, disable := %s, sevError := %s, remap := %s,\n"
                "    deprecated := %s, proposed := %s, groups := %s, prereq := %s, overridesFix := %s, overridesAnalyze := %s,\n"
                "    overridesAddViolation := %s, fixVOwner := %s, base := %s, configuration := %s, configInDict := %s,\n"
                "    documented := %s, docPhase := %s, docSeverity := %s, docLabels := %s }"
                % (
                    lean_str(r["id"]),
                    r["phase"],
                    r["subphase"],
                    lean_bool(r["fixable"]),
                    lean_bool(r["disable"]),
                    lean_bool(r["sevError"]),
                    lean_bool(r["remap"]),
                    lean_bool(r["deprecated"]),
                    lean_bool(r["proposed"]),
                    lean_list([lean_str(g) for g in r["groups"]]),
                    lean_bool(r["prereq"]),
                    lean_bool(r["overridesFix"]),
                    lean_bool(r["overridesAnalyze"]),
                    lean_bool(r["overridesAddViolation"]),
                    lean_str(r["fixVOwner"] or ""),
                    lean_str(r["base"]),
                    lean_list([lean_str(c) for c in r["configuration"]]),
                    lean_bool(all(c in r["dictKeys"] for c in r["configuration"])),
                    lean_bool(r["documented"]),
                    dp,
                    ds,
                    dl,
                )
            )
        L.append(",\n".join(items))
        L.append("]")
    L.append("def ruleTable : List RuleRow := " + " ++ ".join(chunks))
    L.append("end Vsgm.Gen")
    return "\n".join(L) + "\n"


def emit_classes(rows):
    L = []
    L.append("/- GENERATED by harness/gen_tables.py from vsg.parser / vsg.token.* of /repo — do not edit -/")
    L.append("import VsgModel.Tables")
    L.append("namespace Vsgm.Gen")
    L.append("open Vsgm")
    L.append("/-- kind code per class index (see `Kind.ofCode`) -/")
    L.append("def classKinds : Array Nat := #[" + ", ".join(str(KIND[r["kind"]]) for r in rows) + "]")
    nonc = [r for r in rows if r["kind"] != "code"]
    L.append("def nonCodeClassNames : List (Nat × String) := [" + ", ".join(f"({r['idx']}, {lean_str(r['name'])})" for r in nonc) + "]")
    L.append(f"def numClasses : Nat := {len(rows)}")
    byname = {r["name"]: r["idx"] for r in rows}
    for lean_name, py_name in (("wsCls", "vsg.parser.whitespace"), ("crCls", "vsg.parser.carriage_return"), ("blankCls", "vsg.parser.blank_line"), ("commentCls", "vsg.parser.comment")):
        L.append(f"def {lean_name} : Nat := {byname.get(py_name, len(rows))}")
    L.append("end Vsgm.Gen")
    return "\n".join(L) + "\n"


def emit_class_uids(rows):
    """what token_map.py and the extract helpers read of a class: its docstring `unique_id` and its ancestors"""
    L = []
    L.append("/- GENERATED by harness/gen_tables.py from vsg.parser / vsg.token.* of /repo — do not edit -/")
    L.append("namespace Vsgm.Gen")
    items = ["none" if r["uid"] is None else "some (%s, %s)" % (lean_str(r["uid"][0]), lean_str(r["uid"][1])) for r in rows]
    names = []
    for i in range(0, max(len(items), 1), 64):
        nm = "classUids_%d" % (i // 64)
        names.append(nm)
        L.append("def %s : List (Option (String × String)) := %s" % (nm, lean_list(items[i : i + 64])))
    L.append("/-- `unique_id = base : sub` of the class docstring, per class index -/")
    L.append("def classUidList : List (Option (String × String)) := " + " ++ ".join(names))
    L.append("def classUids : Array (Option (String × String)) := classUidList.toArray")
    L.append("/-- class indices each class is an instance of (its MRO restricted to the table), per class index -/")
    L.append("def classAncestors : Array (List Nat) := #[" + ", ".join(lean_list([str(x) for x in r["mro"]]) for r in rows) + "]")
    L.append("end Vsgm.Gen")
    return "\n".join(L) + "\n"


def emit_case_rules(rrows, crow):
    """the phase-6 (case) rules: which token classes each rule's fix can write to"""
    byname = {r["name"]: r["idx"] for r in crow}
    formal = byname.get("vsg.token.association_element.formal_part", len(crow))
    assign = byname.get("vsg.token.association_element.assignment", len(crow))
    L = []
    L.append("/- GENERATED by harness/gen_tables.py from the instantiated case rules of /repo — do not edit -/")
    L.append("namespace Vsgm.Gen")
    L.append("/-- `targets`: classes of the tokens the rule's analysis can report (token_case*: `lTokens`;")
    L.append("    formal-part rules: association_element.formal_part; consistent_token_case: `lNames`;")
    L.append("    the interface / subprogram-parameter rules look at every token of a region: empty) -/")
    L.append("structure CaseRuleRow where")
    L.append("  id : String")
    L.append("  name : String")
    L.append("  fixVOwner : String")
    L.append("  targets : List Nat")
    L.append("  mapStart : Nat")
    L.append("  mapEnd : Nat")
    L.append("  deriving Repr")
    items = []
    for r in rrows:
        if r["phase"] != 6:
            continue
        tp = r["tokParams"]
        owner = r["fixVOwner"]
        if owner.endswith(".token_case"):
            targets = tp.get("lTokens", [])
        elif "formal_part" in owner:
            targets = [formal]
        elif owner.endswith(".consistent_token_case"):
            targets = tp.get("lNames", [])
        else:
            targets = []
        ms = (tp.get("oMapStart") or [0])[0]
        me = (tp.get("oMapEnd") or [0])[0]
        items.append("{ id := %s, name := %s, fixVOwner := %s, targets := %s, mapStart := %d, mapEnd := %d }" % (lean_str(r["id"]), lean_str(r["id"].rsplit("_", 1)[0]), lean_str(owner), lean_list([str(x) for x in targets]), ms, me))
    chunked(L, "caseRuleTable", "CaseRuleRow", items, 32)
    L.append(f"def formalPartCls : Nat := {formal}")
    L.append(f"def assignmentCls : Nat := {assign}")
    L.append("def bitStringBaseSpecifierCls : Nat := %d" % byname.get("vsg.token.bit_string_literal.base_specifier", len(crow)))
    L.append("def bitStringValueCls : Nat := %d" % byname.get("vsg.token.bit_string_literal.bit_value_string", len(crow)))
    L.append("end Vsgm.Gen")
    return "\n".join(L) + "\n"


NAMED_CLASSES = (
    ("semicolonCls", "vsg.parser.semicolon"),
    ("openParenCls", "vsg.parser.open_parenthesis"),
    ("closeParenCls", "vsg.parser.close_parenthesis"),
    ("parserCommentCls", "vsg.parser.comment"),
    ("interfaceListSemicolonCls", "vsg.token.interface_list.semicolon"),
    # tokens created by after_001 / process_029 (layer B, Multi family)
    ("afterKeywordCls", "vsg.token.waveform_element.after_keyword"),
    ("todoCls", "vsg.parser.todo"),
    ("risingEdgeCls", "vsg.token.ieee.std_logic_1164.function.rising_edge"),
    ("fallingEdgeCls", "vsg.token.ieee.std_logic_1164.function.falling_edge"),
    ("ticCls", "vsg.parser.tic"),
    ("eventKeywordCls", "vsg.token.predefined_attribute.event_keyword"),
    ("andOperatorCls", "vsg.token.logical_operator.and_operator"),
    ("relationalEqualCls", "vsg.token.relational_operator.equal"),
    ("characterLiteralCls", "vsg.parser.character_literal"),
)


def emit_class_tree(rows):
    """`isinstance` as data: the proper ancestors (inside the class table) of every token class"""
    L = []
    L.append("/- GENERATED by harness/gen_tables.py from the class hierarchy of vsg.parser / vsg.token.* — do not edit -/")
    L.append("namespace Vsgm.Gen")
    names = []
    CH = 64
    for i in range(0, max(len(rows), 1), CH):
        nm = f"classParents_{i // CH}"
        names.append(nm)
        L.append(f"def {nm} : List (List Nat) := " + lean_list([lean_list([str(a) for a in r["ancestors"]]) for r in rows[i : i + CH]]))
    L.append("/-- proper ancestors (class indices) per class index -/")
    L.append("def classParentsList : List (List Nat) := " + " ++ ".join(names))
    L.append("def classParents : Array (List Nat) := classParentsList.toArray")
    L.append("/-- Python `isinstance(<token of class c>, <class p>)` -/")
    L.append("def isa (c p : Nat) : Bool := c == p || (classParents.getD c []).contains p")
    byname = {r["name"]: r["idx"] for r in rows}
    for lean_name, py_name in NAMED_CLASSES:
        L.append(f"def {lean_name} : Nat := {byname.get(py_name, len(rows))}")
    L.append("end Vsgm.Gen")
    return "\n".join(L) + "\n"


def emit_struct_params(rrows, n_classes):
    """insert family: the parameter tokens (class index, value) / parameter class of every rule that has one"""
    L = []
    L.append("/- GENERATED by harness/gen_tables.py from the rule objects of /repo (insert_token / oInsertToken / insert_tokens) — do not edit -/")
    L.append("namespace Vsgm.Gen")
    fix = lambda c: c if c >= 0 else n_classes  # noqa: E731
    toks = [r for r in rrows if r.get("insertToks") is not None]
    clss = [r for r in rrows if r.get("insertCls") is not None]
    L.append("/-- rule id ↦ the token objects (class index, value) the rule inserts -/")
    L.append("def insertTokParams : List (String × List (Nat × String)) := " + lean_list(["(%s, %s)" % (lean_str(r["id"]), lean_list(["(%d, %s)" % (fix(c), lean_str(v)) for c, v in r["insertToks"]])) for r in toks]))
    L.append("/-- rule id ↦ the token class the rule instantiates with a value taken from another token -/")
    L.append("def insertClsParams : List (String × Nat) := " + lean_list(["(%s, %d)" % (lean_str(r["id"]), fix(r["insertCls"])) for r in clss]))
    L.append("end Vsgm.Gen")
    return "\n".join(L) + "\n"


# ---------------------------------------------------------------- indent configuration (set_token_indent)

# field of `Vsgm.Indent.ClsNames` -> (module attribute of set_token_indent.py / utils.py the class is read through, attribute path)
INDENT_CLASS_REFS = (
    ("whitespace", "parser", "whitespace"),
    ("blankLine", "parser", "blank_line"),
    ("carriageReturn", "parser", "carriage_return"),
    ("comment", "parser", "comment"),
    ("preprocessor", "parser", "preprocessor"),
    ("pragma", "token", "pragma.pragma"),
    ("ctxDeclEnd", "token", "context_declaration.end_keyword"),
    ("libKw", "token", "library_clause.keyword"),
    ("logicalName", "token", "logical_name_list.logical_name"),
    ("useKw", "token", "use_clause.keyword"),
    ("useLibName", "token", "use_clause.library_name"),
    ("ctxRefKw", "token", "context_reference.keyword"),
    ("archKw", "token", "architecture_body.architecture_keyword"),
    ("archSemi", "token", "architecture_body.semicolon"),
    ("entKw", "token", "entity_declaration.entity_keyword"),
    ("pkgBodyKw", "token", "package_body.package_keyword"),
    ("pkgDeclKw", "token", "package_declaration.package_keyword"),
    ("cfgDeclKw", "token", "configuration_declaration.configuration_keyword"),
    ("pkgInstKw", "token", "package_instantiation_declaration.package_keyword"),
    ("csaLabel", "token", "concurrent_signal_assignment_statement.label_name"),
    ("csaPostponed", "token", "concurrent_signal_assignment_statement.postponed_keyword"),
    ("cssaTarget", "token", "concurrent_simple_signal_assignment.target"),
    ("ccsaTarget", "token", "concurrent_conditional_signal_assignment.target"),
    ("csesaWith", "token", "concurrent_selected_signal_assignment.with_keyword"),
    ("cssaSemi", "token", "concurrent_simple_signal_assignment.semicolon"),
    ("ccsaSemi", "token", "concurrent_conditional_signal_assignment.semicolon"),
    ("csesaSemi", "token", "concurrent_selected_signal_assignment.semicolon"),
)


def indent_tables(class_index):
    """the default indent map exactly as `config.read_indent_configuration` returns it for a configuration
    without an `indent:` key, and the class-table rows of the classes set_token_indent.py names (resolved
    through the module's own `parser` / `token` globals)"""
    import contextlib
    import io

    from vsg import config
    from vsg.vhdlFile.indent import set_token_indent as sti

    with contextlib.redirect_stdout(io.StringIO()):
        d = config.read_indent_configuration({})
    toks = d["indent"]["tokens"]
    rows = []
    for g in toks:
        for k in toks[g]:
            for p, v in toks[g][k].items():
                if isinstance(v, bool) or not isinstance(v, (int, str)):
                    raise ValueError("indent_config.yaml: value of %s.%s.%s is neither int nor str: %r" % (g, k, p, v))
                rows.append([g, k, p, v])
    names = {}
    for field, root, path in INDENT_CLASS_REFS:
        o = getattr(sti, root)
        for part in path.split("."):
            o = getattr(o, part)
        names[field] = class_index.get(o.__module__ + "." + o.__qualname__, len(class_index))
    return {"rows": rows, "names": names}


def lean_raw(v):
    if isinstance(v, int):
        return ".int (%d)" % v
    return ".str %s" % lean_str(v)


def emit_indent_config(it):
    L = []
    L.append("/- GENERATED by harness/gen_tables.py from vsg/vhdlFile/indent/indent_config.yaml (through config.read_indent_configuration)")
    L.append("   and the classes named in vsg/vhdlFile/indent/set_token_indent.py — do not edit -/")
    L.append("import VsgModel.Indent.Types")
    L.append("namespace Vsgm.Gen")
    L.append("open Vsgm.Indent")
    groups = []
    for g, k, p, v in it["rows"]:
        if not groups or groups[-1][0] != g:
            groups.append((g, []))
        if not groups[-1][1] or groups[-1][1][-1][0] != k:
            groups[-1][1].append((k, []))
        groups[-1][1][-1][1].append((p, v))
    items = []
    for g, ks in groups:
        items.append("(%s, %s)" % (lean_str(g), lean_list(["(%s, %s)" % (lean_str(k), lean_list(["(%s, %s)" % (lean_str(p), lean_raw(v)) for p, v in ps])) for k, ps in ks])))
    names = []
    for i in range(0, max(len(items), 1), 16):
        nm = "indentConfig_%d" % (i // 16)
        names.append(nm)
        L.append("def %s : IndentMap := %s" % (nm, lean_list(items[i : i + 16])))
    L.append("/-- `dIndentMap[\"indent\"][\"tokens\"]` of a run without user `indent:` configuration -/")
    L.append("def indentConfig : IndentMap := " + " ++ ".join(names))
    L.append("/-- class-table rows of the classes named in set_token_indent.py / utils.token_is_whitespace_or_comment -/")
    L.append("def indentCls : ClsNames := { " + ", ".join("%s := %d" % (f, it["names"][f]) for f, _, _ in INDENT_CLASS_REFS) + " }")
    L.append("end Vsgm.Gen")
    return "\n".join(L) + "\n"


def ranges(xs):
    out = []
    for x in xs:
        if out and out[-1][1] + 1 == x:
            out[-1][1] = x
        else:
            out.append([x, x])
    return out


def chunked(L, name, ty, items, n=64):
    names = []
    for i in range(0, max(len(items), 1), n):
        nm = f"{name}_{i // n}"
        names.append(nm)
        L.append(f"def {nm} : List {ty} := " + lean_list(items[i : i + n]))
    L.append(f"def {name} : List {ty} := " + " ++ ".join(names))


def emit_chars(ct, sym):
    L = []
    L.append("/- GENERATED by harness/gen_tables.py from CPython's str predicates and vsg/tokens.py — do not edit -/")
    L.append("namespace Vsgm.Gen")
    L.append("/-- inclusive code point ranges with `str.isspace()` -/")
    chunked(L, "spaceRanges", "(Nat × Nat)", [f"({a},{b})" for a, b in ranges(ct["space"])])
    L.append("/-- inclusive code point ranges with `str.isdigit()` -/")
    chunked(L, "digitRanges", "(Nat × Nat)", [f"({a},{b})" for a, b in ranges(ct["digit"])])
    L.append("def lowerECodes : List Nat := " + lean_list([str(x) for x in ct["lowerE"]]))
    L.append("def lowerBoxdCodes : List Nat := " + lean_list([str(x) for x in ct["lowerBoxd"]]))
    L.append("def lowerHasEOtherCodes : List Nat := " + lean_list([str(x) for x in ct["lowerHasEOther"]]))
    chunked(L, "lowerPairs", "(Nat × Nat)", [f"({a},{b})" for a, b in ct["lowerPairs"]])
    L.append("def lowerMultiCodes : List Nat := " + lean_list([str(x) for x in ct["lowerMulti"]]))
    L.append("/-- code points whose `str.lower()` is not one character, with the expansion -/")
    L.append("def lowerMultiMap : List (Nat × List Nat) := " + lean_list(["(%d,[%s])" % (x, ",".join(str(ord(c)) for c in chr(x).lower())) for x in ct["lowerMulti"]]))
    L.append("/-- one-to-one `str.upper()` pairs different from the identity -/")
    chunked(L, "upperPairs", "(Nat × Nat)", [f"({a},{b})" for a, b in ct["upperPairs"]])
    L.append("/-- code points whose `str.upper()` is not one character ('ß' → 'SS' …), with the expansion -/")
    chunked(L, "upperMultiMap", "(Nat × List Nat)", ["(%d,[%s])" % (x, ",".join(str(ord(c)) for c in chr(x).upper())) for x in ct["upperMulti"]])
    L.append("def singleSymbols : List String := " + lean_list([lean_str(x) for x in sym["single"]]))
    L.append("def twoSymbols : List String := " + lean_list([lean_str(x) for x in sym["two"]]))
    L.append("def threeSymbols : List String := " + lean_list([lean_str(x) for x in sym["three"]]))
    L.append("def stopChars : List String := " + lean_list([lean_str(x) for x in sym["stop"]]))
    L.append("end Vsgm.Gen")
    return "\n".join(L) + "\n"


def generate(verbose=False):
    crow, classes = class_table()
    class_index = {r["name"]: r["idx"] for r in crow}
    rrows = rule_table(class_index)
    # CPython tables are constant for one interpreter: cache them (they take ~2 s to scan)
    os.makedirs(CACHE, exist_ok=True)
    ct_path = os.path.join(CACHE, "chartables-%s.json" % sys.version.split()[0])
    try:
        ct = json.load(open(ct_path))
    except Exception:
        ct = char_tables()
        json.dump(ct, open(ct_path, "w"))
    sym = lexer_symbols()
    changed = []
    if write_if_changed(os.path.join(GEN, "ClassTree.lean"), emit_class_tree(crow)):
        changed.append("ClassTree.lean")
    if write_if_changed(os.path.join(GEN, "StructParams.lean"), emit_struct_params(rrows, len(crow))):
        changed.append("StructParams.lean")
    if write_if_changed(os.path.join(GEN, "Rules.lean"), emit_rules(rrows)):
        changed.append("Rules.lean")
    if write_if_changed(os.path.join(GEN, "Classes.lean"), emit_classes(crow)):
        changed.append("Classes.lean")
    if write_if_changed(os.path.join(GEN, "ClassUids.lean"), emit_class_uids(crow)):
        changed.append("ClassUids.lean")
    if write_if_changed(os.path.join(GEN, "CaseRules.lean"), emit_case_rules(rrows, crow)):
        changed.append("CaseRules.lean")
    if write_if_changed(os.path.join(GEN, "CharTables.lean"), emit_chars(ct, sym)):
        changed.append("CharTables.lean")
    cft = classify_tables(crow, classes)
    if write_if_changed(os.path.join(GEN, "ClassifyTables.lean"), emit_classify(cft)):
        changed.append("ClassifyTables.lean")
    it = indent_tables(class_index)
    if write_if_changed(os.path.join(GEN, "IndentConfig.lean"), emit_indent_config(it)):
        changed.append("IndentConfig.lean")
    # BEGIN wp2_bfull2 (per-rule parameters of the B-full indent / vertical-spacing families)
    import gen_bfull2

    b2, b2_changed = gen_bfull2.generate(class_index, GEN, write_if_changed, lean_str, lean_list, lean_bool)
    if b2_changed:
        changed.append("BFull2Rules.lean")
    # END wp2_bfull2
    tables = {"indent": it, "rules": rrows, "classes": crow, "chars": {k: (v if k not in ("lowerPairs", "upperPairs") else v) for k, v in ct.items()}, "symbols": sym, "classify": cft}
    tables["bfull2"] = b2  # wp2_bfull2
    with open(os.path.join(CACHE, "tables.json"), "w") as f:
        json.dump(tables, f)
    # >>> WP1 layer P: the classifier productions as a program table
    import gen_prog

    _, prog_changed = gen_prog.generate(crow, classes)
    if prog_changed:
        changed.append("ClassifyProg.lean")
    # <<< WP1 layer P
    if verbose:
        print("generated: %d rules, %d classes; changed files: %s" % (len(rrows), len(crow), changed))
    return tables, changed


if __name__ == "__main__":
    generate(verbose=True)
