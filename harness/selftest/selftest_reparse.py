"""
Self-test of harness/props_reparse.py: never touches /repo — the real functions are monkeypatched
in this process with plausible bugs and the check logic must report them.
  /venv/bin/python harness/selftest/selftest_reparse.py
"""
import os
import sys

sys.path.insert(0, os.path.join(os.path.dirname(os.path.abspath(__file__)), ".."))

import props_reparse as P  # noqa: E402

P._init()
import vsgrun  # noqa: E402
from vsg import parser, rule_list  # noqa: E402
from vsg.rules import token_case  # noqa: E402

TEXT = """
library ieee;
  use ieee.std_logic_1164.all;

entity FIFO is
  port (
    CLK : in    std_logic; -- clock
    D   : out   std_logic
  );
end entity FIFO;

architecture RTL of FIFO is

  SIGNAL s : std_logic;

begin

  D <= s;

end architecture RTL;
""".lstrip("\n")

cla, oc = vsgrun.make_config(style=None)
P._W["configs"][("selftest", None)] = (cla, oc, None, [])
ok = True


def job(**kw):
    j = {"text": TEXT, "variant": "orig", "config": "selftest", "lean": os.path.exists(os.path.join(P.common.LEAN, ".lake", "build", "bin", "driver"))}
    j.update(kw)
    return j


def expect(name, cond, info):
    global ok
    print(("PASS " if cond else "FAIL ") + name + "  " + str(info)[:300])
    ok = ok and cond


# ---- baseline: the unpatched code on this input is clean for both properties
r = P.run_c08(job())
expect("baseline C08 clean", r["status"] == "ok" and not r["failures"] and not r["pbs"], [(f["site"], f["kind"]) for f in r["failures"]] or r.get("error"))
r = P.run_c09(job())
expect("baseline C09 converges after one fix", r.get("verdict") == "converged1" and not r["failures"], r.get("verdict"))

# ---- bug 1 (C08, class): a case fix rebuilds the token as a generic item (class lost)
TC = token_case  # `from vsg.rules import token_case` is the class


def bad_fix_violation(self, oViolation):
    lTokens = oViolation.get_tokens()
    lTokens[0] = parser.item(lTokens[0].get_value().lower())
    oViolation.set_tokens(lTokens)


real_fv = TC._fix_violation
TC._fix_violation = bad_fix_violation
try:
    r = P.run_c08(job())
finally:
    TC._fix_violation = real_fv
kinds = [(f["site"], f["kind"]) for f in r["failures"]]
expect("bug 1: class lost by a case fix is reported as modelDiffersFromReparse:class at the case rule", any(k == "modelDiffersFromReparse:class" and "case" in s for s, k in kinds), kinds or r.get("error"))

# ---- bug 2 (C08, value / T layer): rule_list.fix leaves two adjacent whitespace tokens behind
real_fix = rule_list.rule_list.fix


def fix_leaving_double_ws(self, *a, **kw):
    real_fix(self, *a, **kw)
    l = self.oVhdlFile.lAllObjects
    for i, t in enumerate(l):
        if isinstance(t, parser.whitespace) and i > 0 and not isinstance(l[i - 1], parser.carriage_return):
            l.insert(i, parser.whitespace(" "))
            break


rule_list.rule_list.fix = fix_leaving_double_ws
try:
    r = P.run_c08(job())
finally:
    rule_list.rule_list.fix = real_fix
kinds = [(f["site"], f["kind"]) for f in r["failures"]]
expect("bug 2: adjacent whitespace tokens are reported as modelDiffersFromReparse:value", any(k == "modelDiffersFromReparse:value" for s, k in kinds), kinds or r.get("error"))
expect("bug 2: … and the Lean driver saw a line that is not well formed and does not re-tokenise", r.get("retok", {}).get("notSame", 0) >= 1 and not r["pbs"], r.get("retok"))

# ---- bug 3 (C08, rejected): a fix glues two words together
def fix_gluing(self, *a, **kw):
    real_fix(self, *a, **kw)
    l = self.oVhdlFile.lAllObjects
    for i, t in enumerate(l):
        if isinstance(t, parser.whitespace) and i > 0 and l[i - 1].get_value().lower() == "entity":
            del l[i]
            break


rule_list.rule_list.fix = fix_gluing
try:
    r = P.run_c08(job())
finally:
    rule_list.rule_list.fix = real_fix
kinds = [(f["site"], f["kind"]) for f in r["failures"]]
expect("bug 3: glued keywords are reported as fixedTextRejected", any(k.startswith("fixedTextRejected") for s, k in kinds), kinds or r.get("error"))

# ---- bug 4 (C09, cycle): every fix toggles a trailing blank of the first comment
def fix_toggling(self, *a, **kw):
    real_fix(self, *a, **kw)
    for t in self.oVhdlFile.lAllObjects:
        if isinstance(t, parser.comment):
            v = t.get_value()
            t.value = v[:-1] if v.endswith("x") else v + "x"
            break


rule_list.rule_list.fix = fix_toggling
try:
    r = P.run_c09(job(hyp=False))
finally:
    rule_list.rule_list.fix = real_fix
kinds = [(f["site"], f["kind"]) for f in r["failures"]]
expect("bug 4: a toggling fix is reported as a cycle", any(k == "cycle" for s, k in kinds) and r.get("verdict") == "cycle", (kinds, r.get("verdict"), r.get("error")))

# ---- bug 5 (C09, never converges): every fix appends a character to the first comment
def fix_growing(self, *a, **kw):
    real_fix(self, *a, **kw)
    for t in self.oVhdlFile.lAllObjects:
        if isinstance(t, parser.comment):
            t.value = t.get_value() + "x"
            break


rule_list.rule_list.fix = fix_growing
try:
    r = P.run_c09(job(hyp=False))
finally:
    rule_list.rule_list.fix = real_fix
kinds = [(f["site"], f["kind"]) for f in r["failures"]]
expect("bug 5: a growing fix is reported as secondFixChanges / never stable", any(k == "secondFixChanges" for s, k in kinds) and r.get("verdict") == "never", (kinds, r.get("verdict"), r.get("error")))

# ---- bug 6 (C08, report): the in-memory re-check runs on stale rule state: violations are not cleared
real_clear = rule_list.rule_list.clear_violations
real_fixX = rule_list.rule_list.fix


def fix_leaving_stale_indent(self, *a, **kw):
    real_fixX(self, *a, **kw)
    for t in self.oVhdlFile.lAllObjects:
        if isinstance(t, parser.comment):
            t.indent = 7
            break


rule_list.rule_list.fix = fix_leaving_stale_indent
try:
    r = P.run_c08(job())
finally:
    rule_list.rule_list.fix = real_fixX
kinds = [(f["site"], f["kind"]) for f in r["failures"]]
expect("bug 6: a wrong indent attribute after the full fix is reported as modelDiffersFromReparse:indent", any(k == "modelDiffersFromReparse:indent" for s, k in kinds), kinds or r.get("error"))

drv = P._W.get("drv")
if drv is not None:
    drv.close()
print("SELFTEST", "OK" if ok else "FAILED")
sys.exit(0 if ok else 1)
