"""
C18, work package WP3: wire encoding of the extractors modelled in lean/VsgModel/Engine/Extract2*.lean …, the
canonical form of their meta data, and the replay of the Lean witnesses on the REAL extractors.

Hooked into props_c18.py (enc_extract / MODELLED_EXTRACTORS / canon of the regions / run).
"""
import zlib


def _cls(ci, c):
    i = ci.of_class(c)
    if i < 0:
        raise ValueError("class not in table")
    return str(i)


def _clist(ci, l):
    return ",".join(_cls(ci, c) for c in l)


def _nat(n):
    if not isinstance(n, int) or isinstance(n, bool) or n < 0:
        raise ValueError("not a natural number")
    return str(n)


def _b(x):
    return "1" if x else "0"


def _ints(l):
    for h in l:
        if not isinstance(h, int) or isinstance(h, bool):
            raise ValueError("not an int")
    return ",".join(str(h) for h in l)


def _pairs(ci, l):
    return ",".join("%s:%s" % (_cls(ci, p[0]), _cls(ci, p[1])) for p in l)


def _pcls(ci):
    from vsg import parser

    return ",".join(_cls(ci, c) for c in (parser.whitespace, parser.carriage_return, parser.comment, parser.blank_line, parser.preprocessor))


# extractors whose model reads `oToken.get_hierarchy()`: the token list is sent with the hierarchy values
HIER = {
    "get_line_below_line_ending_with_token_with_hierarchy",
    "get_line_above_line_starting_with_token_with_hierarchy",
    "get_blank_lines_below_line_ending_with_token",
}

# extractors whose `sTokenValue` is the `get_value()` of a token: the model returns the POSITION of that token
VALUE_TOKEN = {
    "get_tokens_between_tokens_inclusive_while_storing_value_from_token",
    "get_function_subprogram_body",
    "get_procedure_subprogram_body",
}

# extractors that record an int in dMetaData / an attribute instead of sTokenValue
META_INT = {
    "get_tokens_from_beginning_of_line_containing_token_to_the_next_non_whitespace_token_to_the_right": lambda t: t.dMetaData.get("iTokenIndex"),
    "get_line_which_includes_tokens": lambda t: getattr(t, "token_index", None),
}

MODELLED2 = [
    "get_line_succeeding_line",
    "get_line_below_line_ending_with_token",
    "get_line_below_line_ending_with_token_with_hierarchy",
    "get_line_above_line_starting_with_token_with_hierarchy",
    "get_tokens_bounded_by_unless_between",
    "get_tokens_between_tokens_inclusive_while_storing_value_from_token",
    "get_interface_elements_between_tokens",
    "get_tokens_between_non_whitespace_token_and_token",
    "get_tokens_from_line",
    "get_n_tokens_before_and_after_tokens",
    "get_tokens_bounded_by_token_when_between_tokens",
    # Extract3.lean
    "get_tokens_from_beginning_of_line_containing_token_to_the_next_non_whitespace_token_to_the_right",
    "get_token_and_n_tokens_before_it_in_between_tokens",
    "get_token_and_n_tokens_before_it_in_between_tokens_unless_between_tokens",
    "get_token_and_n_tokens_before_it_in_between_tokens_unless_token_is_found",
    "get_token_and_n_tokens_after_it_when_between_tokens",
    "get_token_and_n_tokens_after_it_when_between_tokens_unless_between_tokens",
    "get_tokens_matching_in_range_bounded_by_tokens_unless_between_tokens",
    "get_n_tokens_before_and_after_tokens_bounded_by_tokens",
    "get_line_which_includes_tokens",
    "get_sequence_of_tokens_matching_bounded_by_tokens",
    "get_association_elements_between_tokens",
    "get_tokens_matching_not_at_beginning_or_ending_of_line",
    "get_tokens_from_non_whitespace_token_until_tokens",
    "get_if_statement_conditions",
    # Extract4.lean
    "get_blank_lines_above_line_starting_with_token",
    "get_blank_lines_above_line_starting_with_token_when_between_tokens",
    "get_blank_lines_below_line_ending_with_token",
    "get_tokens_at_beginning_of_line_matching_unless_between_tokens",
    "get_tokens_at_beginning_of_line_matching_between_tokens",
    "get_tokens_at_beginning_of_line_matching_between_tokens_unless_between_tokens",
    "get_function_subprogram_body",
    "get_procedure_subprogram_body",
    # Extract5.lean
    "get_tokens_starting_with_token_and_ending_with_one_of_possible_tokens",
    # Extract6.lean (WP3b)
    "get_line_below_line_ending_with_several_possible_tokens",
    "get_blank_lines_below_line_ending_with_several_possible_tokens",
    "get_column_of_token_index",
    "get_consecutive_lines_starting_with_token",
    "get_consecutive_lines_starting_with_token_and_stopping_when_token_starting_line_is_found",
    # Extract7.lean (WP3b)
    "get_tokens_in_declarative_parts",
    # Extract8.lean (WP3b)
    "get_blank_lines_above_line_starting_with_use_clause",
]


def enc_extract2(name, a, ci):
    """wire arguments (first element: the name the driver dispatches on) or None.  ValueError / TypeError / KeyError
    (argument outside the modelled domain) are caught by the caller"""
    from vsg import token

    if name == "get_line_succeeding_line":
        return [name, _nat(a["iLine"]), _nat(a["iNumLines"])]
    if name == "get_line_below_line_ending_with_token":
        return [name, _clist(ci, a["lTokens"])]
    if name == "get_line_below_line_ending_with_token_with_hierarchy":
        return [name, _clist(ci, a["lTokens"]), _ints(a["lHierarchy"])]
    if name == "get_line_preceding_line" and a["bSkipComments"]:
        return [name + "+skip", _nat(a["iLine"]), _nat(a["iNumLines"])]
    if name == "get_line_above_line_starting_with_token" and a["bIncludeComments"]:
        return [name + "+comments", _clist(ci, a["lTokens"])]
    if name == "get_line_above_line_starting_with_token_with_hierarchy":
        return [name, _clist(ci, a["lTokens"]), _ints(a["lHierarchy"]), _b(a["bIncludeComments"])]
    if name == "get_tokens_bounded_by_unless_between":
        return [name, _cls(ci, a["oStart"]), _cls(ci, a["oEnd"]), _pairs(ci, a["lUnless"])]
    if name == "get_tokens_between_tokens_inclusive_while_storing_value_from_token":
        return [name, _cls(ci, a["left_token"]), _cls(ci, a["right_token"]), _cls(ci, a["value_token"])]
    if name == "get_interface_elements_between_tokens":
        return [name, _cls(ci, a["oStart"]), _cls(ci, a["oEnd"]), _pcls(ci), _cls(ci, token.interface_list.semicolon)]
    if name == "get_tokens_between_non_whitespace_token_and_token":
        return [name, _cls(ci, a["right_token"])]
    if name == "get_tokens_from_line":
        return [name, _nat(a["iLineNumber"])]
    if name == "get_n_tokens_before_and_after_tokens":
        return [name, _nat(a["iToken"]), _clist(ci, a["lTokens"])]
    if name == "get_tokens_bounded_by_token_when_between_tokens":
        return [name, _cls(ci, a["oLeft"]), _cls(ci, a["oRight"]), _cls(ci, a["oStart"]), _cls(ci, a["oEnd"]), _b(a["include_trailing_whitespace"])]
    # ---- Extract3.lean
    if name == "get_tokens_from_beginning_of_line_containing_token_to_the_next_non_whitespace_token_to_the_right":
        return [name, _cls(ci, a["token"])]
    if name == "get_token_and_n_tokens_before_it_in_between_tokens":
        return [name, _clist(ci, a["lTokens"]), _nat(a["iTokens"]), _cls(ci, a["oStart"]), _cls(ci, a["oEnd"])]
    if name == "get_token_and_n_tokens_before_it_in_between_tokens_unless_between_tokens":
        return [name, _clist(ci, a["lTokens"]), _nat(a["iTokens"]), _cls(ci, a["oStart"]), _cls(ci, a["oEnd"]), _pairs(ci, a["lUnless"])]
    if name == "get_token_and_n_tokens_before_it_in_between_tokens_unless_token_is_found":
        return [name, _clist(ci, a["lTokens"]), _nat(a["iTokens"]), _cls(ci, a["oStart"]), _cls(ci, a["oEnd"]), _cls(ci, a["oStop"])]
    if name == "get_token_and_n_tokens_after_it_when_between_tokens":
        return [name, _clist(ci, a["lTokens"]), _nat(a["iTokens"]), _cls(ci, a["oStart"]), _cls(ci, a["oEnd"])]
    if name == "get_token_and_n_tokens_after_it_when_between_tokens_unless_between_tokens":
        return [name, _clist(ci, a["lTokens"]), _nat(a["iTokens"]), _cls(ci, a["oStart"]), _cls(ci, a["oEnd"]), _pairs(ci, a["lUnless"])]
    if name == "get_tokens_matching_in_range_bounded_by_tokens_unless_between_tokens":
        return [name, _clist(ci, a["lTokens"]), _cls(ci, a["oStart"]), _cls(ci, a["oEnd"]), _pairs(ci, a["lUnless"])]
    if name == "get_n_tokens_before_and_after_tokens_bounded_by_tokens":
        lb = a["lBetween"]
        return [name, _nat(a["iToken"]), _clist(ci, a["lTokens"]), _cls(ci, lb[0]), _cls(ci, lb[1])]
    if name == "get_line_which_includes_tokens":
        return [name, _clist(ci, a["lTokens"])]
    if name == "get_sequence_of_tokens_matching_bounded_by_tokens":
        return [name, _clist(ci, a["lTokens"]), _cls(ci, a["oStart"]), _cls(ci, a["oEnd"])]
    if name == "get_association_elements_between_tokens":
        from vsg import parser

        return [name, _cls(ci, a["oStart"]), _cls(ci, a["oEnd"]), _cls(ci, token.association_element.formal_part), _cls(ci, token.association_element.actual_part), _cls(ci, token.association_list.comma), _cls(ci, parser.carriage_return)]
    if name == "get_tokens_matching_not_at_beginning_or_ending_of_line":
        return [name, _clist(ci, a["lTokens"])]
    if name == "get_tokens_from_non_whitespace_token_until_tokens":
        return [name, _clist(ci, a["lTokens"])]
    if name == "get_if_statement_conditions":
        its = token.if_statement
        return [name, _pcls(ci), _cls(ci, its.if_keyword), _cls(ci, its.elsif_keyword), _cls(ci, its.then_keyword), _b(a["fRemoveWhitespace"])]
    # ---- Extract4.lean
    if name == "get_blank_lines_above_line_starting_with_token":
        return [name, _clist(ci, a["lTokens"])]
    if name == "get_blank_lines_above_line_starting_with_token_when_between_tokens":
        lb = a["lBetweenTokens"]
        return [name, _clist(ci, a["lTokens"]), _cls(ci, lb[0]), _cls(ci, lb[1])]
    if name == "get_blank_lines_below_line_ending_with_token":
        return [name, _clist(ci, a["lTokens"]), "N" if a["lHierarchy"] is None else _ints(a["lHierarchy"])]
    if name == "get_tokens_at_beginning_of_line_matching_unless_between_tokens":
        return [name, _clist(ci, a["lTokens"]), _pairs(ci, a["lUnless"])]
    if name == "get_tokens_at_beginning_of_line_matching_between_tokens":
        return [name, _clist(ci, a["lTokens"]), _cls(ci, a["oStart"]), _cls(ci, a["oEnd"]), _b(a["bInclusive"])]
    if name == "get_tokens_at_beginning_of_line_matching_between_tokens_unless_between_tokens":
        return [name, _clist(ci, a["lTokens"]), _cls(ci, a["oStart"]), _cls(ci, a["oEnd"]), _pairs(ci, a["lUnless"]), _b(a["bInclusive"])]
    if name in ("get_function_subprogram_body", "get_procedure_subprogram_body"):
        sp = token.function_specification if name == "get_function_subprogram_body" else token.procedure_specification
        kw = sp.function_keyword if name == "get_function_subprogram_body" else sp.procedure_keyword
        return ["get_subprogram_body_of", _cls(ci, token.subprogram_declaration.semicolon), _cls(ci, token.subprogram_body.semicolon), _cls(ci, token.procedure_specification.procedure_keyword), _cls(ci, token.function_specification.function_keyword), _cls(ci, kw), _cls(ci, sp.designator)]
    if name == "get_tokens_starting_with_token_and_ending_with_one_of_possible_tokens":
        return [name, _clist(ci, a["lStartTokens"]), _clist(ci, a["lEndTokens"]), _pcls(ci), _b(a["bIncludeStartToken"]), _b(a["bIncludeEndToken"]), _b(a["bEarliestDetect"])]
    # ---- Extract6.lean (WP3b)
    if name in ("get_line_below_line_ending_with_several_possible_tokens", "get_blank_lines_below_line_ending_with_several_possible_tokens"):
        lt = a["lTokens"]
        return [name, _cls(ci, lt[0]), _clist(ci, lt[1:])]
    if name == "get_column_of_token_index":
        i = a["iToken"]
        if not isinstance(i, int) or isinstance(i, bool):
            raise ValueError("not an int")
        return [name, str(i)]
    if name == "get_consecutive_lines_starting_with_token":
        return [name, _cls(ci, a["search_token"]), _nat(a["min_num_lines"])]
    if name == "get_consecutive_lines_starting_with_token_and_stopping_when_token_starting_line_is_found":
        return [name, _cls(ci, a["search_token"]), _cls(ci, a["stop_token"])]
    if name == "get_blank_lines_above_line_starting_with_use_clause":
        semis = [token.context_reference.semicolon, token.entity_declaration.semicolon, token.configuration_declaration.semicolon, token.package_declaration.semicolon, token.package_instantiation_declaration.semicolon, token.context_declaration.semicolon, token.architecture_body.semicolon, token.package_body.semicolon]
        return [name, _clist(ci, a["lTokens"]), _clist(ci, semis), _cls(ci, token.use_clause.library_name)]
    if name == "get_tokens_in_declarative_parts":
        import importlib

        ks = []
        for part in ("protected_type_body", "architecture", "package_body", "subprogram", "package", "process", "entity", "block"):
            m = importlib.import_module("vsg.vhdlFile.extract.get_tokens_in_%s_declarative_part" % part)
            ks.append((m.oStart, m.oEnd))
        return [name, _pairs(ci, ks)]
    return None


# extractors whose model reads `len(oToken.get_value())`
WITH_LEN = {"get_lines_with_length_that_exceed_column", "get_column_of_token_index"}
# extractors that return an int, not regions
INT_RESULT = {"get_column_of_token_index"}


def canon_result(S, name, r, lt):
    """canonical form of what a real extractor returned"""
    if name in INT_RESULT:
        return "ok %s" % (r,)
    return "ok " + ";".join(canon_toi2(S, name, t) for t in lt)


def _h(s):
    return "h%d" % zlib.crc32(str(s).encode("utf-8", "surrogatepass"))


def canon_toi2(S, name, t):
    """canonical form of one real region; like Session.canon_toi, with the meta data the extractor sets"""
    if name in VALUE_TOKEN:
        v = t.sTokenValue
        toks = ".".join("b" if S.is_bof(o) else str(S.serial(o)) for o in t.lTokens)
        return "%s,%s,%s,%s" % ("N" if t.iStartIndex is None else t.iStartIndex, t.iLine, "N" if v is None else _h(v), toks)
    if name in META_INT:
        v = META_INT[name](t)
        toks = ".".join("b" if S.is_bof(o) else str(S.serial(o)) for o in t.lTokens)
        return "%s,%s,%s,%s" % ("N" if t.iStartIndex is None else t.iStartIndex, t.iLine, "N" if v is None else v, toks)
    if name == USE_CLAUSE:  # WP3b: dMetaData previous_library / current_library (lower-cased token values)
        p, c = t.dMetaData.get("previous_library"), t.dMetaData.get("current_library")
        toks = ".".join("b" if S.is_bof(o) else str(S.serial(o)) for o in t.lTokens)
        return "%s,%s,%s/%s,%s" % ("N" if t.iStartIndex is None else t.iStartIndex, t.iLine, "N" if p is None else _h(p), "N" if c is None else _h(c), toks)
    return S.canon_toi(t)


USE_CLAUSE = "get_blank_lines_above_line_starting_with_use_clause"


def snapshot(name, lAll):
    """the token values as they are at the call (a later fix may change them before the reply is compared)"""
    return [o.get_value() for o in lAll] if (name in VALUE_TOKEN or name == USE_CLAUSE) else None


def fix_model(name, model, lAll):
    """the model's `value` is a position for the VALUE_TOKEN extractors: replaced by the hash of that token's value"""
    if name == USE_CLAUSE and model.startswith("ok ") and model[3:]:
        out = []
        for item in model[3:].split(";"):
            f = item.split(",")
            if len(f) == 4 and "/" in f[2]:
                try:
                    f[2] = "/".join("N" if x == "N" else _h(lAll[int(x)].lower()) for x in f[2].split("/"))
                except (IndexError, ValueError):
                    f[2] = "?"
            out.append(",".join(f))
        return "ok " + ";".join(out)
    if name not in VALUE_TOKEN or not model.startswith("ok "):
        return model
    out = []
    body = model[3:]
    if not body:
        return model
    for item in body.split(";"):
        f = item.split(",")
        if len(f) == 4 and f[2] != "N":
            try:
                f[2] = _h(lAll[int(f[2])])
            except (IndexError, ValueError):
                f[2] = "?"
        out.append(",".join(f))
    return "ok " + ";".join(out)


# ------------------------------------------------------------------ real extractor vs model on arbitrary token lists

import collections
import inspect
import random


def _real_call(name, lAll, tm, kw):
    from vsg.vhdlFile import extract

    fn = getattr(extract, name)
    full = dict(kw)
    for pn in inspect.signature(fn).parameters:
        if pn in ("lAllTokens", "lAllObjects"):
            full[pn] = lAll
        elif pn == "oTokenMap":
            full[pn] = tm
    return fn, full


def eval_both(P, S, name, lAll, kw):
    """runs the REAL extractor `name` on the token list `lAll` (index = process_tokens of it) and the Lean model on the
    same list; returns (wire, real, model, positions of the real regions the Lean slice checker rejects)"""
    from vsg import token_map

    tm = token_map.process_tokens(lAll)
    fn, full = _real_call(name, lAll, tm, kw)
    wire = P.enc_extract(name, fn, S.ci, (), full)
    if wire is None:
        return None, None, None, None
    lt = []
    try:
        r = fn(**full)
        lt = P.flatten_tois(r)
        real = canon_result(S, name, r, lt)
    except P.PY_ERRORS as e:
        real = "raise " + type(e).__name__
    except UnboundLocalError:
        real = "raise UnboundLocalError"
    S.sync_tokens(lAll, with_len=(name in WITH_LEN), with_hier=(name in HIER))
    S.drv.send("REINDEX")
    model = fix_model(name, S.ask("EXTRACT\t" + "\t".join(wire)), [o.get_value() for o in lAll])
    bad = []
    if lt:

        def cb(v):
            if v.startswith("bad "):
                bad.extend(int(i) for i in v[4:].split(","))

        S.post_tois(lt, cb)
        S.drain()
    return wire, real, model, [(lt[i].iStartIndex, len(lt[i].lTokens)) for i in bad]


def _mk(cls, value):
    try:
        return cls(value)
    except TypeError:
        return cls()


def witnesses():
    """the inputs of the `decide` witnesses (and of the former witnesses that a repair in /repo turned into positive
    statements) of Properties/C18.lean (section WP3) with real token classes:
    (label, token list as (class, value), extractor, keyword arguments, expected canonical result on the real code)"""
    from vsg import parser, token

    kw, cr, ws = parser.keyword, parser.carriage_return, parser.whitespace
    comma = parser.comma
    op, cp = parser.open_parenthesis, parser.close_parenthesis
    pm, ae = token.port_map_aspect, token.association_element
    return [
        # nBeforeAndAfter_short_prefix_skipped (the former witness nBeforeAndAfter_negative_start, repaired in /repo):
        # a matched token at position 0 with iToken = 1 gets no region
        ("nBeforeAndAfter_short_prefix_skipped", [(comma, ","), (cr, None), (kw, "x")], "get_n_tokens_before_and_after_tokens", {"iToken": 1, "lTokens": [comma]}, "ok "),
        # `{k}` = serial number of the token at position k
        # nBeforeAndAfterBounded_short_prefix_skipped (the former witness nBeforeAndAfterBounded_negative_start, repaired in /repo)
        ("nBeforeAndAfterBounded_short_prefix_skipped", [(op, "("), (comma, ","), (cp, ")"), (cr, None)], "get_n_tokens_before_and_after_tokens_bounded_by_tokens", {"iToken": 2, "lTokens": [comma], "lBetween": [op, cp]}, "ok "),
        ("lineWhichIncludes_first_line", [(op, "("), (kw, "x"), (comma, ","), (cp, ")"), (cr, None)], "get_line_which_includes_tokens", {"lTokens": [comma]}, "ok 3,1,-1,{3}"),
        ("fromNonWsUntil_start_none", [(kw, "x"), (comma, ","), (cr, None)], "get_tokens_from_non_whitespace_token_until_tokens", {"lTokens": [comma]}, "ok N,1,N,{0}"),
        # ifConditions_blank_condition_skipped / _untrimmed (the former witness ifConditions_blank_condition, repaired in /repo)
        ("ifConditions_blank_condition_skipped", [(token.if_statement.if_keyword, "if"), (ws, " "), (parser.comment, "-- c"), (token.if_statement.then_keyword, "then"), (cr, None)], "get_if_statement_conditions", {"fRemoveWhitespace": True}, "ok "),
        ("ifConditions_blank_condition_untrimmed", [(token.if_statement.if_keyword, "if"), (ws, " "), (parser.comment, "-- c"), (token.if_statement.then_keyword, "then"), (cr, None)], "get_if_statement_conditions", {"fRemoveWhitespace": False}, "ok 1,1,N,{1}.{2}"),
        ("associationElements_restart", [(pm.open_parenthesis, "("), (ae.formal_part, "a"), (ae.formal_part, "b"), (token.association_list.comma, ","), (pm.close_parenthesis, ")"), (cr, None)], "get_association_elements_between_tokens", {"oStart": pm.open_parenthesis, "oEnd": pm.close_parenthesis}, "ok 2,1,N,{1}.{2}.{3}"),
        # startingEnding_blank_region_empty (the former witness startingEnding_blank_region, repaired in /repo): the empty slice at the end token
        ("startingEnding_blank_region_empty", [(kw, "x"), (ws, " "), (parser.comment, "-- c"), (comma, ","), (cr, None)], "get_tokens_starting_with_token_and_ending_with_one_of_possible_tokens", {"lStartTokens": [kw], "lEndTokens": [comma], "bIncludeStartToken": False, "bIncludeEndToken": False, "bEarliestDetect": False}, "ok 3,1,N,"),
        # WP3b: columnOf_first_line — every token of the first line has column 0 (true column 3 here)
        ("columnOf_first_line", [(kw, "ab"), (ws, " "), (kw, "cd"), (cr, None), (kw, "x"), (cr, None)], "get_column_of_token_index", {"iToken": 2}, "ok 0"),
        # the real extractor raises UnboundLocalError; the model answers `outside` (7th element: expected model reply)
        ("subprogramBody_unbound_witness", [(token.function_specification.function_keyword, "function"), (token.function_specification.designator, "f"), (token.subprogram_body.semicolon, ";"), (cr, None)], "get_function_subprogram_body", {}, "raise UnboundLocalError", "outside"),
    ]


def run_special(job, P):
    """special jobs of the C18 pool: `witness` (the Lean witnesses on the real extractors) and `synthetic` (real
    extractors against the model on mutilated token lists, with the arguments the real rules use)"""
    out = {"job": {k: job[k] for k in job if k != "text"}, "parse": "ok", "failures": [], "breaks": [], "stats": collections.Counter(), "pairs": [], "fnstats": collections.Counter(), "wp3": {}}
    ci = P._W["ci"]
    S = P.Session(P._W["drv18"], ci, P._W["kinds"])
    if job["wp3"] == "witness":
        res = []
        for w in witnesses():
            label, toks, name, kw, expect = w[:5]
            lAll = [_mk(c, v) for c, v in toks]
            expect = expect.format(*[S.serial(o) for o in lAll])
            wire, real, model, bad = eval_both(P, S, name, lAll, kw)
            ok = real == expect and model == (w[5] if len(w) > 5 else real)
            res.append({"witness": label, "extractor": name, "real": real, "model": model, "expected": expect, "agrees": ok, "real_regions_not_slices": bad})
            if not ok:
                out["breaks"].append({"what": "witness %s: the real extractor / the model / the Lean statement disagree" % label, "detail": res[-1]})
        out["wp3"]["witnesses"] = res
        return out
    return run_synthetic(job, P, S, out)


def run_synthetic(job, P, S, out):
    import sweep
    import vsgrun
    from vsg import exceptions as vexc
    from vsg.vhdlFile import extract

    cla, oc, style, dicts = sweep.job_config(job)
    text = sweep.job_text(job)
    try:
        o = vsgrun.parse(vsgrun.text_to_lines(text), cla, oc)
    except vexc.ClassifyError:
        out["parse"] = "rejected"
        return out
    except Exception:  # noqa: BLE001
        out["parse"] = "crash"
        return out
    rl = vsgrun.new_rule_list(o, oc)
    calls = {}
    saved = {}
    names = set(job.get("names") or P.MODELLED_EXTRACTORS)

    def rec(name, fn):
        def w(*a, **k):
            if name in names:
                try:
                    ba = inspect.signature(fn).bind(*a, **k)
                    ba.apply_defaults()
                    kw = {p: v for p, v in ba.arguments.items() if p not in ("lAllTokens", "lAllObjects", "oTokenMap")}
                    wire = P.enc_extract(name, fn, S.ci, a, k)
                    if wire is not None:
                        calls.setdefault(tuple(wire), (name, kw))
                except (TypeError, ValueError):
                    pass
            return fn(*a, **k)

        return w

    for name in dir(extract):
        fn = getattr(extract, name)
        if inspect.isfunction(fn):
            saved[name] = fn
            setattr(extract, name, rec(name, fn))
    try:
        try:
            rl.check_rules(bAllPhases=True, lSkipPhase=[])
        except Exception:  # noqa: BLE001 - C19's business
            pass
    finally:
        for name, fn in saved.items():
            setattr(extract, name, fn)
    rng = random.Random("syn/%s/%s" % (job.get("path"), job.get("sseed", 0)))
    lAll = list(o.lAllObjects)
    N = len(lAll)
    st = out["stats"]
    notslice = collections.Counter()
    examples = {}
    # WP3b: extractors no default-configured rule reaches — called directly, on the whole file and on the windows
    from vsg import token as _tk

    extra = []
    for name, kw in [(USE_CLAUSE, {"lTokens": [_tk.use_clause.keyword]}), (USE_CLAUSE, {"lTokens": [_tk.use_clause.keyword, _tk.library_clause.keyword]}), ("get_consecutive_lines_starting_with_token", {"search_token": _tk.use_clause.keyword, "min_num_lines": 2}), ("get_consecutive_lines_starting_with_token", {"search_token": _tk.signal_declaration.signal_keyword, "min_num_lines": 1}),
                     ("get_blank_lines_below_line_ending_with_several_possible_tokens", {"lTokens": [_tk.block_statement.block_keyword, _tk.block_statement.guard_close_parenthesis, _tk.block_statement.is_keyword]}),
                     ("get_blank_lines_below_line_ending_with_several_possible_tokens", {"lTokens": [_tk.process_statement.process_keyword, _tk.process_statement.close_parenthesis, _tk.process_statement.is_keyword]}),
                     ("get_line_below_line_ending_with_several_possible_tokens", {"lTokens": [_tk.process_statement.process_keyword, _tk.process_statement.close_parenthesis, _tk.process_statement.is_keyword]})]:
        if name in names:
            fn, full = _real_call(name, lAll, None, kw)
            wire = P.enc_extract(name, fn, S.ci, (), full)
            if wire is not None:
                calls.setdefault(tuple(wire), (name, kw))
                extra.append((name, kw))
    for name, kw in extra:
        wire, real, model, bad = eval_both(P, S, name, lAll, kw)
        st["synthetic_calls"] += 1
        out["fnstats"]["direct:" + name] += 1
        if real.startswith("raise"):
            out["fnstats"]["direct-raising:" + name] += 1
        elif real != "ok ":
            out["fnstats"]["direct-nonempty:" + name] += 1
        if real != model:
            out["breaks"].append({"what": "correspondence extractor %s (direct call on a parsed file)" % name, "detail": {"job": out["job"], "args": list(wire), "model": model[:300], "real": real[:300]}})
        if bad:
            notslice[name] += len(bad)
    for m in range(job.get("nmut", 6)):
        # a window of the real token list, with a few tokens dropped: unusual but type-correct sequences
        n = rng.choice([3, 8, 20, 60, 200])
        a = rng.randrange(0, max(1, N - 2))
        win = lAll[a : a + n]
        for _ in range(rng.choice([0, 0, 1, 3])):
            if len(win) > 2:
                del win[rng.randrange(len(win))]
        if rng.random() < 0.3 and len(win) > 3:
            i, j = rng.randrange(len(win)), rng.randrange(len(win))
            win[i], win[j] = win[j], win[i]
        for key, (name, kw) in calls.items():
            wire, real, model, bad = eval_both(P, S, name, win, kw)
            if wire is None:
                continue
            st["synthetic_calls"] += 1
            out["fnstats"]["synthetic:" + name] += 1
            if real.startswith("raise"):
                st["synthetic_raising"] += 1
                out["fnstats"]["synthetic-raising:" + name] += 1
            if model == "outside":
                out["fnstats"]["synthetic-outside-model:" + name] += 1
            elif real != model:
                out["breaks"].append({"what": "correspondence extractor %s (synthetic token list)" % name, "detail": {"job": out["job"], "args": list(wire), "window": [a, n], "ntokens": len(win), "classes": [type(t).__module__.replace("vsg.token.", "").replace("vsg.", "") + "." + type(t).__name__ for t in win][:40], "model": model[:300], "real": real[:300]}})
            if bad:
                notslice[name] += len(bad)
                if name not in examples:
                    examples[name] = {"args": list(wire), "regions(start,ntokens)": bad[:3], "path": job.get("path"), "window": [a, n], "real": real[:200], "classes": [type(t).__module__.replace("vsg.token.", "").replace("vsg.", "") + "." + type(t).__name__ for t in win][:30]}
    out["wp3"]["synthetic_notSlice"] = dict(notslice)
    out["wp3"]["synthetic_notSlice_examples"] = examples
    return out


# WP3b: texts that make the extractors no default-configured rule reaches deliver regions
DIRECTED_TEXTS = [
    "library ieee;\n  use ieee.std_logic_1164.all;\n\n  use ieee.numeric_std.all;\n\nlibrary work;\n\n  use work.pkg.all;\n\n\n  use work.other.all;\n  use ieee.math_real.all;\n\nentity e is\nend entity e;\n\nlibrary ieee;\n\n  use ieee.std_logic_1164.all;\n\narchitecture a of e is\n\n  signal s : std_logic;\n  signal t : std_logic;\n\n  signal u : std_logic;\n\nbegin\n\nend architecture a;\n",
    "architecture a of e is\nbegin\n  b1 : block is\n\n\n    signal s : bit;\n  begin\n  end block b1;\n  p1 : process (clk) is\n\n  begin\n  end process p1;\nend architecture a;\n",
    "context c1 is\n  library ieee;\n\n  use ieee.std_logic_1164.all;\nend context c1;\n\n  use work.a.all;\n\npackage p is\nend package p;\n\n  use work.b.all;\n",
]


def extra_jobs(tier, sample, seedv):
    """the witness job and the synthetic-token-list jobs appended to the C18 job list"""
    n = 30 if tier == "quick" else 400
    jobs = [{"wp3": "witness", "features": []}]
    for k, text in enumerate(DIRECTED_TEXTS):  # WP3b
        jobs.append({"wp3": "synthetic", "text": text, "variant": "orig", "config": "default", "features": [], "nmut": 12, "sseed": seedv + k})
    for i, p in enumerate(sample[:n]):
        jobs.append({"wp3": "synthetic", "path": p, "variant": "orig", "config": "default", "features": [], "nmut": 6, "sseed": seedv})
    return jobs


def merge_coverage(res, results):
    wit = []
    ns = collections.Counter()
    ex = {}
    for r in results:
        w = r.get("wp3") or {}
        wit.extend(w.get("witnesses", []))
        ns.update(w.get("synthetic_notSlice", {}))
        for k, v in w.get("synthetic_notSlice_examples", {}).items():
            ex.setdefault(k, v)
    res.coverage["wp3_witnesses_on_real_extractors"] = wit
    res.coverage["wp3_synthetic_regions_not_slices"] = dict(ns)
    res.coverage["wp3_synthetic_regions_not_slices_examples"] = ex
