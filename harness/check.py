"""Entry point of every registered check."""
import importlib
import json
import os
import sys
import traceback

HERE = os.path.dirname(os.path.abspath(__file__))
sys.path.insert(0, HERE)

import common  # noqa: E402

MODULES = {
    "BCASE": "props_bcase",  # layer-B case family correspondence (development aid)
    "BIND": "props_bind",  # layer-B indent / vertical spacing / post-phase-1 correspondence (development aid)
    "BWS": "props_bws",  # layer-B whitespace family correspondence (development aid, not a property)
    "C01": "props_trace",
    "C02": "props_trace",
    "C03": "props_trace",
    "C04": "props_c04",
    "C05": "props_c05",
    "C06": "props_frame",
    "C07": "props_trace",
    "C15": "props_frame",
    "C08": "props_reparse",
    "C09": "props_reparse",
    "C10": "props_c10",
    "C11": "props_c11",
    "C12": "props_c12",
    "C13": "props_engine",
    "C17": "props_c12",
    "C14": "props_engine",
    "C16": "props_c16",
    "C18": "props_c18",
    "C20": "props_engine",
    "C19": "props_c19",
    "BLINES": "props_blines",
    "SETINDENT": "props_setindent",  # model of set_token_indent / read_indent_configuration (development aid for C05 / C08)
    "BFULL2": "props_bfull2",  # wp2_bfull2: whole-rule (B-full) correspondence of the indent / vertical-spacing families
    "BMULTI": "props_bmulti",
    "PROG": "props_prog",  # >>> WP1 layer P: translated classifier productions vs the real ones (development aid) <<<  # layer-B multi-line structure family correspondence (development aid)
}


def main():
    if len(sys.argv) < 3:
        print("usage: check <Cxx> <quick|thorough> | check <Cxx> --replay <file>")
        return 2
    prop = sys.argv[1]
    if prop not in MODULES:
        print("unknown property", prop)
        return 2
    mod = importlib.import_module(MODULES[prop])
    if sys.argv[2] == "--replay":
        return mod.replay(prop, sys.argv[3])
    tier = sys.argv[2]
    if tier not in ("quick", "thorough"):
        tier = os.environ.get("VERIF_TIER", "quick")
    try:
        return mod.run(prop, tier)
    except Exception:  # noqa: BLE001 - an error of the harness is exit 2, never a violation
        traceback.print_exc()
        print("HARNESS-ERROR property=%s" % prop)
        return 2


if __name__ == "__main__":
    sys.exit(main())
