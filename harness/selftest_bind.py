"""
Self-test of the check logic of props_bind: plausible bugs are injected into the REAL functions by
monkeypatching (this process and its forked workers only, /repo is never touched) and the check
functions must report them.  Run: /venv/bin/python -W ignore harness/selftest_bind.py
"""
import os
import sys

sys.path.insert(0, os.path.dirname(os.path.abspath(__file__)))
import gen_tables  # noqa: E402

gen_tables.generate()
import props_bind as pb  # noqa: E402

from vsg import parser  # noqa: E402
from vsg.rules import blank_line_below_line_ending_with_token as below_mod  # noqa: E402
from vsg.rules import blank_lines_between_token_pairs as pairs_mod  # noqa: E402
from vsg.rules import previous_line as prev_mod  # noqa: E402
from vsg.rules import token_indent as indent_mod  # noqa: E402  (vsg.rules exports the CLASSES under the module names)
from vsg.rules.whitespace import rule_200 as ws200_mod  # noqa: E402
from vsg.vhdlFile import utils as vutils  # noqa: E402

RESULTS = []


class FakeRes:
    def __init__(self):
        self.breaks = []
        self.fails = []
        self.coverage = {}

    def proof_break(self, what, detail):
        self.breaks.append((what, detail))

    def fail(self, site, kind, detail, replay):
        self.fails.append((site, kind))


def expect(name, cond, info=""):
    RESULTS.append((name, bool(cond)))
    print("%-96s %s %s" % (name, "ok" if cond else "MISSED", info))


def post_only():
    r, st = FakeRes(), {}
    pb.post_correspondence(r, "quick", st)
    return r, st


def synth_only():
    r, st = FakeRes(), {}
    pb.synthetic_bfix(r, "quick", st)
    return r, st


# 0. baseline ------------------------------------------------------------------------------------
r, st = post_only()
expect("baseline post: no mismatch", st["post_mismatches"] == 0 and not r.breaks, "%d lists" % (st["post_synthetic_cases"] + st["post_corpus_lists"]))
r, st = synth_only()
expect("baseline synthetic bfix: no mismatch", st["bfix_synthetic_mismatches"] == 0 and not r.breaks, "%d cases" % st["bfix_synthetic_cases"])

# 1. fix_blank_lines: index 0 no longer wraps to the last token ------------------------------------
real_fbl = vutils.fix_blank_lines


def fbl_no_wrap(lTokens):
    lReturn = []
    for iToken, oToken in enumerate(lTokens):
        try:
            if isinstance(oToken, parser.carriage_return) and isinstance(lTokens[iToken + 1], parser.carriage_return):
                lReturn.append(oToken)
                lReturn.append(parser.blank_line())
                continue
        except IndexError:
            pass
        try:
            if iToken > 0 and isinstance(lTokens[iToken - 1], parser.carriage_return) and isinstance(oToken, parser.whitespace) and isinstance(lTokens[iToken + 1], parser.carriage_return):
                lReturn.append(parser.blank_line())
                continue
        except IndexError:
            pass
        lReturn.append(oToken)
    return lReturn


vutils.fix_blank_lines = fbl_no_wrap
r, st = post_only()
vutils.fix_blank_lines = real_fbl
expect("fix_blank_lines without the index-0 wrap-around -> post correspondence break", st["post_mismatches"] > 0 and r.breaks, "%d mismatches" % st["post_mismatches"])

# 2. fix_trailing_whitespace: also strips whitespace at the very end of the list --------------------
real_ftw = vutils.fix_trailing_whitespace


def ftw_strip_end(lTokens):
    out = real_ftw(lTokens)
    if out and isinstance(out[-1], parser.whitespace):
        out = out[:-1]
    return out


vutils.fix_trailing_whitespace = ftw_strip_end
r, st = post_only()
vutils.fix_trailing_whitespace = real_ftw
expect("fix_trailing_whitespace dropping a final whitespace -> post correspondence break", st["post_mismatches"] > 0, "%d mismatches" % st["post_mismatches"])

# 2b. fix_trailing_whitespace: pops EVERY whitespace token before the carriage return ("fixing" ws ws CR)
def ftw_all_ws(lTokens):
    lReturn = []
    for oToken in lTokens:
        if isinstance(oToken, parser.carriage_return):
            while len(lReturn) > 1 and isinstance(lReturn[-1], parser.whitespace):
                lReturn.pop()
        lReturn.append(oToken)
    return lReturn


vutils.fix_trailing_whitespace = ftw_all_ws
r, st = post_only()
vutils.fix_trailing_whitespace = real_ftw
expect("fix_trailing_whitespace popping every whitespace before a CR -> post correspondence break", st["post_mismatches"] > 0, "%d mismatches" % st["post_mismatches"])

# 3. token_indent: smart_tabs writes spaces -------------------------------------------------------
real_ti = indent_mod._fix_violation


def ti_bad(self, oViolation):
    if oViolation.get_action() == "adjust_whitespace" and self.indent_style == "smart_tabs":
        lTokens = oViolation.get_tokens()
        lTokens[0].set_value(lTokens[1].get_indent() * " ")
        oViolation.set_tokens(lTokens)
        return
    return real_ti(self, oViolation)


indent_mod._fix_violation = ti_bad
r, st = synth_only()
indent_mod._fix_violation = real_ti
expect("token_indent smart_tabs writing blanks -> bfix correspondence break", st["bfix_synthetic_mismatches"] > 0 and any("token_indent" in b[0] for b in r.breaks), "%d mismatches" % st["bfix_synthetic_mismatches"])

# 3b. token_indent: remove_whitespace keeps the whitespace when the level is not 0 -------------------
def ti_bad2(self, oViolation):
    if oViolation.get_action() == "remove_whitespace":
        lTokens = oViolation.get_tokens()
        oViolation.set_tokens([lTokens[1]] if len(lTokens) == 2 else lTokens)
        return
    return real_ti(self, oViolation)


indent_mod._fix_violation = ti_bad2
r, st = synth_only()
indent_mod._fix_violation = real_ti
expect("token_indent remove_whitespace guarded by len == 2 -> bfix correspondence break", st["bfix_synthetic_mismatches"] > 0, "%d mismatches" % st["bfix_synthetic_mismatches"])

# 4. blank_line_below: Insert forgets the carriage return -------------------------------------------
real_below = below_mod._fix_violation


def below_bad(self, oViolation):
    from vsg.rules import utils as ru

    lTokens = oViolation.get_tokens()
    if oViolation.get_action()["action"] == "Insert":
        ru.insert_blank_line(lTokens, 0)
        oViolation.set_tokens(lTokens)
        return
    return real_below(self, oViolation)


below_mod._fix_violation = below_bad
r, st = synth_only()
below_mod._fix_violation = real_below
expect("blank_line_below Insert without carriage return -> bfix correspondence break", st["bfix_synthetic_mismatches"] > 0 and any("blank_line_below" in b[0] for b in r.breaks), "%d mismatches" % st["bfix_synthetic_mismatches"])

# 5. previous_line: blank_line before carriage_return ------------------------------------------------
real_prev = prev_mod._fix_violation


def prev_bad(self, oViolation):
    lTokens = oViolation.get_tokens()
    if oViolation.get_action()["action"] == "Insert":
        lTokens.append(parser.blank_line())
        lTokens.append(parser.carriage_return())
        oViolation.set_tokens(lTokens)
        return
    return real_prev(self, oViolation)


prev_mod._fix_violation = prev_bad
r, st = synth_only()
prev_mod._fix_violation = real_prev
expect("previous_line Insert in the other order -> bfix correspondence break", st["bfix_synthetic_mismatches"] > 0 and any("previous_line" in b[0] for b in r.breaks), "%d mismatches" % st["bfix_synthetic_mismatches"])

# 6. whitespace_200: off by one ----------------------------------------------------------------------
real_200 = ws200_mod._fix_violation


def ws200_bad(self, oViolation):
    lTokens = oViolation.get_tokens()
    oViolation.set_tokens(lTokens[2 * oViolation.get_action()["remove"] + 1 :])


ws200_mod._fix_violation = ws200_bad
r, st = synth_only()
ws200_mod._fix_violation = real_200
expect("whitespace_200 slicing one token too many -> bfix correspondence break", st["bfix_synthetic_mismatches"] > 0 and any("rule_200" in b[0] for b in r.breaks), "%d mismatches" % st["bfix_synthetic_mismatches"])

# 7. the property search: the stray-blank_line texts must be reported on the unpatched tree, and must
#    NOT be reported once the two rules are repaired (so the search is not a constant alarm) -------------
fails = []
for name, text in pb.STRAY_TEXTS.items():
    b, a, culprits = pb.end_to_end(text)
    fails.append((name, [c["rule"] for c in culprits]))
expect("end-to-end search finds concurrent_010 and whitespace_200 deleting `others`", ("concurrent", ["concurrent_010"]) in fails and ("process", ["whitespace_200"]) in fails, str(fails))


def ws200_repaired(self, oViolation):
    lTokens = oViolation.get_tokens()
    if all(isinstance(t, (parser.blank_line, parser.carriage_return, parser.whitespace)) for t in lTokens[: 2 * oViolation.get_action()["remove"]]):
        oViolation.set_tokens(lTokens[2 * oViolation.get_action()["remove"] :])


def pairs_repaired(self, oViolation):
    lTokens = oViolation.get_tokens()
    if all(isinstance(t, (parser.blank_line, parser.carriage_return, parser.whitespace)) for t in lTokens):
        oViolation.set_tokens([])


real_pairs = pairs_mod._fix_violation
ws200_mod._fix_violation = ws200_repaired
pairs_mod._fix_violation = pairs_repaired
fails2 = []
for name, text in pb.STRAY_TEXTS.items():
    b, a, culprits = pb.end_to_end(text)
    fails2.append((name, [c["rule"] for c in culprits], len(b) - len(a)))
ws200_mod._fix_violation = real_200
pairs_mod._fix_violation = real_pairs
expect("end-to-end search silent once both `_fix_violation`s refuse to delete code", all(not c and d == 0 for _, c, d in fails2), str(fails2))

bad = [n for n, ok in RESULTS if not ok]
print("\n%d/%d self-tests passed" % (len(RESULTS) - len(bad), len(RESULTS)))
sys.exit(1 if bad else 0)
