"""
Layer B, INDENT and VERTICAL-SPACING families + the post-phase-1 normalisation.

What is checked (all against the REAL code of /repo, in-process):
  1. `post` correspondence: `vsg.vhdlFile.utils.fix_blank_lines` / `fix_trailing_whitespace` / their
     composition vs the Lean transcriptions (driver mode `post`) on (a) the token lists of parsed corpus
     files and re-layout variants, windows and token-thinned versions of them, (b) every list over
     {CR, whitespace, blank_line, code, comment} up to a length, (c) named edge cases.
  2. synthetic `bfix` correspondence: the real `_fix_violation` of every base class of the two families
     on hand-built tokens of interest — every action (also unknown ones), both indent styles (+ an unknown
     one), indent level None / 0 / n, sizes ≤ 0, empty lists, out-of-range and negative slice bounds —
     vs `Base.fixByOwner` (driver mode `bfix`), results AND raised exception classes compared.
     The negation witnesses of the Lean theorems are part of these cases (replayed on the real class).
  3. harvested `bfix` correspondence: instrumented full-rule-set fix runs (sweep feature `trace`), every
     real violation step of the families replayed; replays are counted per owner.
  4. search on the real code: the end-to-end reproduction of the whitespace_200 defect (`vsg --fix`
     semantics in-process) and the contract `ToiOk` / "region is layout only" on every harvested step
     (a harvested step that breaks LayoutOnly is reported as a failure of C03 at its owner).

`run("BIND", tier)` is the stand-alone entry (evidence/BIND.json); `extra(res, tier)` adds the same checks to
a running C03 result (hook for props_trace).
"""
import itertools
import json
import multiprocessing
import os
import random
import subprocess
import sys
import time

HERE = os.path.dirname(os.path.abspath(__file__))
sys.path.insert(0, HERE)

import common  # noqa: E402
from leanio import DRIVER, dec_str, enc_str  # noqa: E402

INDENT_OWNER = "vsg.rules.token_indent.token_indent"
BELOW = "vsg.rules.blank_line_below_line_ending_with_token.blank_line_below_line_ending_with_token"
PREV = "vsg.rules.previous_line.previous_line"
ABOVE = "vsg.rules.blank_line_above_line_starting_with_token.blank_line_above_line_starting_with_token"
EXC_ABOVE = "vsg.rules.remove_excessive_blank_lines_above_line_starting_with_token.remove_excessive_blank_lines_above_line_starting_with_token"
EXC_BELOW = "vsg.rules.remove_excessive_blank_lines_below_line_ending_with_token.remove_excessive_blank_lines_below_line_ending_with_token"
REM_ABOVE = "vsg.rules.remove_blank_lines_above_line_starting_with_token.remove_blank_lines_above_line_starting_with_token"
WS200 = "vsg.rules.whitespace.rule_200.rule_200"
PAIRS = "vsg.rules.blank_lines_between_token_pairs.blank_lines_between_token_pairs"
FAMILY = [INDENT_OWNER, BELOW, PREV, ABOVE, EXC_ABOVE, EXC_BELOW, REM_ABOVE, WS200, PAIRS]

PYERR = {"IndexError": "indexError", "TypeError": "typeError", "KeyError": "keyError", "AttributeError": "attributeError", "ValueError": "valueError"}


# ------------------------------------------------------------------ token helpers (real objects)


def mk_token(kind, value=None):
    from vsg import parser

    if kind == "c":
        return parser.carriage_return()
    if kind == "w":
        return parser.whitespace(value if value is not None else " ")
    if kind == "b":
        return parser.blank_line()
    if kind == "m":
        return parser.comment(value if value is not None else "-- c")
    return parser.todo(value if value is not None else "x")


def mk_tokens(spec):
    """spec: string over c w b m x, or list of (kind, value)"""
    return [mk_token(s) if isinstance(s, str) else mk_token(*s) for s in spec]


class _CI:
    ci = None
    ncls = None


def class_index():
    if _CI.ci is None:
        import vsgrun

        tables = json.load(open(os.path.join(common.CACHE, "tables.json")))
        _CI.ci = vsgrun.ClassIndex(tables)
        _CI.ncls = len(tables["classes"])
        _CI.tables = tables
    return _CI.ci, _CI.ncls


def plain(lObjects):
    ci, ncls = class_index()
    out = []
    for o in lObjects:
        c = ci.of(o)
        out.append((c if c >= 0 else ncls, o.get_value()))
    return out


def enc_plain(pl):
    return " ".join("0:%d:%s" % (c, enc_str(v)) for c, v in pl)


def dec_plain(s):
    out = []
    if s:
        for p in s.split(" "):
            c, _, v = p.partition(":")
            out.append((int(c), dec_str(v)))
    return out


def driver_batch(mode, lines):
    if not lines:
        return []
    pr = subprocess.run([DRIVER, mode], input="".join(l + "\n" for l in lines), stdout=subprocess.PIPE, text=True, encoding="utf-8")
    out = pr.stdout.split("\n")
    return out[: len(lines)]


# ------------------------------------------------------------------ 1. post correspondence


def real_post(toks):
    from vsg.vhdlFile import utils

    a = utils.fix_blank_lines(list(toks))
    b = utils.fix_trailing_whitespace(list(toks))
    c = utils.fix_trailing_whitespace(utils.fix_blank_lines(list(toks)))
    return plain(a), plain(b), plain(c)


NAMED_POST = {
    "empty": "",
    "leading ws at index 0, CR at the end (index 0 wraps to the last token)": "wcxc",
    "leading ws at index 0, no CR at the end": "wcx",
    "ws only": "w",
    "CR only": "c",
    "ws CR": "wc",
    "CR at the end (IndexError on lTokens[i+1])": "xcc",
    "consecutive CRs": "xcccx",
    "whitespace-only lines": "xcwcwcx",
    "whitespace-only last line without CR": "xcw",
    "trailing ws before CR": "xwc",
    "two ws before CR (fix_trailing_whitespace not idempotent)": "xwwc",
    "CR first, ws last (pop from empty list)": "cxw",
    "blank_line tokens present": "xcbcbcx",
    "comment lines": "mcwmcwc",
    "ws CR CR": "wcc",
}


def post_case_lists(tier):
    """synthetic specs"""
    maxlen = 6 if tier == "quick" else 7
    for n in range(0, maxlen + 1):
        for s in itertools.product("cwbxm" if n <= 5 else "cwbx", repeat=n):
            yield "".join(s)


def _post_file_job(args):
    """worker: parse one corpus file (variant), return post cases as plain token lists + real results"""
    path, variant, vseed, nwin = args
    import gen_inputs
    import vsgrun

    try:
        text = gen_inputs.read_text(path)
        if variant != "orig":
            text = gen_inputs.variant(text, random.Random("var/%s/%s/%s" % (common.rel(path), variant, vseed)), variant)
        cla, oc = _post_file_job.cfg
        o = vsgrun.parse(vsgrun.text_to_lines(text), cla, oc)
    except BaseException:  # noqa: BLE001 - unparsable variant
        return []
    toks = list(o.lAllObjects)
    rng = random.Random("post/%s/%s/%s" % (common.rel(path), variant, vseed))
    cases = [toks]
    n = len(toks)
    for _ in range(nwin):
        if n < 2:
            break
        a = rng.randrange(0, n)
        b = min(n, a + rng.randrange(1, 60))
        cases.append(toks[a:b])
        # thinned: drop code tokens at random so that CR/ws/blank adjacency patterns appear
        p = rng.choice((0.3, 0.6, 0.9))
        thin = [t for t in toks[a : min(n, a + 200)] if type(t).__name__ in ("carriage_return", "whitespace", "blank_line") or rng.random() > p]
        cases.append(thin)
        # rotated: a window that starts with whitespace / ends with CR if possible
        ws = [i for i in range(a, b) if type(toks[i]).__name__ == "whitespace"]
        crs = [i for i in range(a, b) if type(toks[i]).__name__ == "carriage_return"]
        if ws and crs and ws[0] < crs[-1]:
            cases.append(toks[ws[0] : crs[-1] + 1])
    out = []
    for c in cases:
        try:
            r = real_post(c)
        except BaseException as e:  # noqa: BLE001
            r = ("raised", type(e).__name__, str(e))
        out.append((plain(c), r))
    return out


def _post_init():
    import vsgrun

    _post_file_job.cfg = vsgrun.make_config(style=None)


def post_correspondence(res, tier, stats):
    import gen_inputs

    mism = 0
    # (b)+(c) synthetic
    specs = [(k, v) for k, v in NAMED_POST.items()] + [(None, s) for s in post_case_lists(tier)]
    lines, expect = [], []
    for name, s in specs:
        toks = mk_tokens(s)
        lines.append(enc_plain(plain(toks)))
        try:
            expect.append((name or s, real_post(toks)))
        except BaseException as e:  # noqa: BLE001
            expect.append((name or s, ("raised", type(e).__name__, str(e))))
    replies = driver_batch("post", lines)
    for (name, exp), rep in zip(expect, replies):
        got = tuple(dec_plain(p) for p in (rep.split("\t") + ["", "", ""])[:3])
        if exp[0] == "raised" or tuple(exp) != got:
            mism += 1
            if mism <= 3:
                res.proof_break("post correspondence (synthetic %r)" % (name,), {"real": exp, "lean": got})
    stats["post_synthetic_cases"] = len(specs)
    # (a) corpus
    files = gen_inputs.corpus_files()
    rng = common.rng("bind/post")
    rng.shuffle(files)
    nfiles = 120 if tier == "quick" else 600
    jobs = []
    for i, p in enumerate(files[:nfiles]):
        jobs.append((p, "orig", i, 6))
        jobs.append((p, "messy", i, 6))
    with multiprocessing.Pool(16, initializer=_post_init) as pool:
        results = pool.map(_post_file_job, jobs, chunksize=4)
    cases = [c for r in results for c in r]
    replies = driver_batch("post", [enc_plain(c[0]) for c in cases])
    changed = 0
    for (pl, exp), rep in zip(cases, replies):
        got = tuple(dec_plain(p) for p in (rep.split("\t") + ["", "", ""])[:3])
        if exp[0] == "raised" or tuple(exp) != got:
            mism += 1
            if mism <= 3:
                res.proof_break("post correspondence (corpus token list, %d tokens)" % len(pl), {"real": str(exp)[:600], "lean": str(got)[:600], "input": pl[:80]})
        elif exp[2] != pl:
            changed += 1
    stats["post_corpus_lists"] = len(cases)
    stats["post_corpus_lists_changed_by_post"] = changed
    stats["post_mismatches"] = mism
    return len(specs) + len(cases), mism


# ------------------------------------------------------------------ 2. synthetic bfix on the real classes


class _Toi:
    def __init__(self, l):
        self.l = l

    def get_tokens(self):
        return self.l

    def set_tokens(self, l):
        self.l = l


def real_rule(owner):
    """an instance of a concrete rule whose `_fix_violation` is the owner's"""
    import importlib

    from vsg import parser

    ci, _ = class_index()
    if owner == REM_ABOVE:
        from vsg.rules import remove_blank_lines_above_line_starting_with_token as B

        class R(B):
            def __init__(self):
                self.name = "synthetic"
                self.identifier = "000"
                super().__init__([parser.todo])

        return R()
    rid = next(r["id"] for r in _CI.tables["rules"] if r["fixVOwner"] == owner)
    grp, _, num = rid.rpartition("_")
    mod = importlib.import_module("vsg.rules.%s.rule_%s" % (grp, num))
    return getattr(mod, "rule_" + num)()


def run_real_fix(rule, action, toks):
    from vsg import violation

    toi = _Toi(list(toks))
    v = violation.New(1, toi, "")
    v.set_action(action)
    try:
        rule._fix_violation(v)
    except Exception as e:  # noqa: BLE001
        return ("err", type(e).__name__)
    return ("ok", plain(toi.get_tokens()))


def synth_cases(tier):
    """(owner, params-overrides, action, spec, indents)"""
    big = tier != "quick"
    specs2 = ["".join(s) for n in range(0, 4) for s in itertools.product("wxc", repeat=n)] + ["wxm", "bx", "wxxx", "mx"]
    for style in ("spaces", "smart_tabs", "tabs?"):
        for size in (2, 0, -1, 3):
            for action in ("remove_whitespace", "adjust_whitespace", "add_whitespace", "something_else", {"action": "adjust_whitespace"}, None):
                for spec in specs2:
                    for lvl in (None, 0, 2, -1):
                        if not big and size in (-1, 3) and lvl in (-1,) and len(spec) > 2:
                            continue
                        yield (INDENT_OWNER, {"indent_style": style, "indent_size": size}, action, [(k, "   " if k == "w" else None) for k in spec], [lvl] * len(spec))
    # the Lean negation witnesses
    yield (INDENT_OWNER, {"indent_style": "spaces", "indent_size": 2}, "adjust_whitespace", [("x", "a"), ("x", "b")], [None, 1])
    yield (INDENT_OWNER, {"indent_style": "spaces", "indent_size": 2}, "remove_whitespace", [("x", "a"), ("x", "b")], [None, None])
    yield (INDENT_OWNER, {"indent_style": "spaces", "indent_size": 2}, "remove_whitespace", [("c", None), ("x", "b")], [None, None])
    specs3 = ["".join(s) for n in range(0, 4) for s in itertools.product("bcxwm", repeat=n)] + ["bcbcbc", "bxxcbc", "bcbcx", "xwmc"]
    for owner in (BELOW, PREV, ABOVE):
        for action in ({"action": "Insert"}, {"action": "Remove"}, {"action": "Skip"}, {"action": 3}, {}, "Insert", None):
            for spec in specs3:
                yield (owner, {}, action, [(k, None) for k in spec], None)
    specs4 = ["".join(s) for n in range(0, 5) for s in itertools.product("bcx", repeat=n)] + ["bcbcbc", "bcbcbcbc", "bxxcbc", "bcbcbcx"]
    for owner, key in ((EXC_ABOVE, "index"), (EXC_BELOW, "remove"), (REM_ABOVE, "remove_to_index"), (WS200, "remove")):
        for val in (-9, -3, -2, -1, 0, 1, 2, 3, 4, 9):
            for spec in specs4:
                yield (owner, {}, {key: val}, [(k, None) for k in spec], None)
        for spec in ("", "bc", "bcbc"):
            yield (owner, {}, {}, [(k, None) for k in spec], None)
            yield (owner, {}, {key: None}, [(k, None) for k in spec], None)
    for spec in specs4[:60]:
        yield (PAIRS, {}, None, [(k, None) for k in spec], None)
    # the whitespace_200 witness as it occurs in real runs
    yield (WS200, {}, {"remove": 1}, [("b", None), ("x", "others"), ("x", ";"), ("c", None), ("b", None), ("c", None)], None)
    yield (PREV, {}, {"action": "Remove"}, [("x", "a")], None)


def is_layout_only(old_pl, new_pl):
    ci, _ = class_index()
    lay = {c for c, k in ci.kind.items() if k in ("ws", "cr", "blank")}
    return [t for t in old_pl if t[0] not in lay] == [t for t in new_pl if t[0] not in lay]


def synthetic_bfix(res, tier, stats):
    import bfix
    import vsgrun

    ci, ncls = class_index()
    rules = {}
    lines, expect, meta = [], [], []
    for owner, over, action, spec, indents in synth_cases(tier):
        if owner not in rules:
            rules[owner] = real_rule(owner)
        rule = rules[owner]
        for k, v in over.items():
            setattr(rule, k, v)
        toks = mk_tokens(spec)
        if indents is not None:
            for t, i in zip(toks, indents):
                t.set_indent(i)
        old = plain(toks)
        real = run_real_fix(rule, action, toks)
        params = vsgrun.rule_params(rule, ci)
        act = vsgrun.jsonable_action(action, ci)
        lines.append("%s\t%s\t%s\t%s" % (owner, bfix.enc_kv(params), bfix.enc_action(act, indents), enc_plain(old)))
        expect.append(real)
        meta.append((owner, over, action, old, indents))
    replies = driver_batch("bfix", lines)
    mism = 0
    per_owner = {}
    nerr = 0
    witnesses = []
    for real, rep, m in zip(expect, replies, meta):
        per_owner[m[0].split(".")[-1]] = per_owner.get(m[0].split(".")[-1], 0) + 1
        ok = False
        if real[0] == "ok":
            ok = rep.startswith("ok") and dec_plain(rep[3:]) == real[1]
            if ok and not is_layout_only(m[3], real[1]):
                witnesses.append(m + (real[1],))
        else:
            nerr += 1
            want = PYERR.get(real[1], "?")
            ok = rep.startswith("err") and (("PyErr." + want) in rep or rep.split(" ", 1)[-1].strip() == real[1])
        if not ok:
            mism += 1
            if mism <= 4:
                res.proof_break("bfix correspondence (synthetic) %s" % m[0].split(".")[-1], {"params": m[1], "action": repr(m[2]), "old": m[3], "indents": m[4], "real": real, "lean": rep[:300]})
    stats["bfix_synthetic_cases"] = len(lines)
    stats["bfix_synthetic_per_owner"] = per_owner
    stats["bfix_synthetic_real_exceptions"] = nerr
    stats["bfix_synthetic_mismatches"] = mism
    stats["bfix_synthetic_not_layout_only_on_real_class"] = len(witnesses)
    return len(lines), mism, witnesses


# ------------------------------------------------------------------ 3. harvested bfix per owner + contract search


def _harvest_job(job):
    """one instrumented full-rule-set fix run; returns the family's records (plain data)"""
    import sweep
    import vsgrun

    if not sweep._W:
        sweep._init()
    try:
        cla, oc, style, dicts = sweep.job_config(job)
        text = sweep.job_text(job)
        o = vsgrun.parse(vsgrun.text_to_lines(text), cla, oc)
        rl = vsgrun.new_rule_list(o, oc)
    except BaseException:  # noqa: BLE001
        return {"recs": [], "rejected": 1}
    ci = sweep._W["ci"]
    steps, exc, ser = vsgrun.instrumented_fix(o, rl, ci, harvest=True)
    recs = []
    posts = []
    for st in steps:
        if st.kind == "post" and st.before is not None and st.after is not None and st.changed:
            posts.append(([(ci.of(t), v) for t, v in st.before], [(ci.of(t), v) for t, v in st.after]))
        if st.kind != "fix" or not st.edits or st.before is None or st.exc is not None:
            continue
        owner = sweep._W["fullowner"].get(st.rule)
        if owner not in FAMILY:
            continue
        spans = sorted((e["start"], e["stop"]) for e in st.edits if isinstance(e["start"], int) and isinstance(e["stop"], int))
        if any(a[1] > b[0] for a, b in zip(spans, spans[1:])):
            continue
        rule = next((r for r in rl.rules if r.unique_id == st.rule), None)
        params = vsgrun.rule_params(rule, ci) if rule is not None else {}
        bw = vsgrun.wire(st.before, ci, ser)
        for e in st.edits:
            if not isinstance(e["start"], int) or not isinstance(e["stop"], int):
                continue
            recs.append({"owner": owner, "rule": st.rule, "params": params, "action": e.get("action_data"), "indents": e.get("old_indents"), "old": bw[e["start"] : e["stop"]], "new": e["new"]})
    return {"recs": recs, "posts": posts, "rejected": 0, "job": {k: job[k] for k in ("path", "variant", "vseed", "config", "cseed")}}


def harvested(res, tier, stats, prop_for_fail="C03"):
    import bfix
    import gen_inputs

    files = gen_inputs.corpus_files()
    rng = common.rng("bind/harvest")
    rng.shuffle(files)
    n = 260 if tier == "quick" else 1300
    jobs = []
    for i, p in enumerate(files[:n]):
        jobs.append({"path": p, "variant": "orig", "vseed": i, "config": "default", "cseed": i})
        jobs.append({"path": p, "variant": ("messy", "lines", "blank")[i % 3], "vseed": i, "config": ("random", "default", "random")[i % 3], "cseed": i})
    with multiprocessing.Pool(16) as pool:
        outs = pool.map(_harvest_job, jobs, chunksize=2)
    ci, ncls = class_index()
    per_owner = {}
    actions = {}
    mism_total = 0
    replayed = 0
    not_layout = {}
    post_cases = []
    for out in outs:
        recs = out["recs"]
        post_cases.extend(out.get("posts", []))
        if not recs:
            continue
        nm, unm, mism = bfix.replay_records(recs, ncls)
        replayed += nm
        for r in recs:
            so = r["owner"].split(".")[-1] if r["owner"] != WS200 else "whitespace.rule_200"
            per_owner[so] = per_owner.get(so, 0) + 1
            a = r["action"]
            key = so + ":" + (a if isinstance(a, str) else (str(a.get("action")) if isinstance(a, dict) and "action" in a else ",".join(sorted(a)) if isinstance(a, dict) else "none"))
            actions[key] = actions.get(key, 0) + 1
            old = [(t[1] if t[1] >= 0 else ncls, t[2]) for t in r["old"]]
            new = [(t[1] if t[1] >= 0 else ncls, t[2]) for t in r["new"]]
            if not is_layout_only(old, new):
                not_layout.setdefault(so, []).append({"rule": r["rule"], "action": a, "old": old[:30], "new": new[:30], "job": out["job"]})
        for m in mism:
            mism_total += 1
            if mism_total <= 4:
                res.proof_break("bfix correspondence (harvested) %s" % m["owner"].split(".")[-1], {"detail": json.dumps(m, default=str)[:1200], "input": out["job"]})
    # the real post steps of those runs (before/after of fix_blank_lines ∘ fix_trailing_whitespace ∘ …)
    pm = 0
    if post_cases:
        replies = driver_batch("post", [enc_plain([(c if c >= 0 else ncls, v) for c, v in b]) for b, _ in post_cases])
        for (b, a), rep in zip(post_cases, replies):
            got = dec_plain((rep.split("\t") + ["", "", ""])[2])
            if got != [(c if c >= 0 else ncls, v) for c, v in a]:
                pm += 1
                if pm <= 2:
                    res.proof_break("post correspondence (real post-phase-1 step of a fix run)", {"real_after": a[:60], "lean": got[:60]})
    stats["harvest_jobs"] = len(jobs)
    stats["harvest_rejected"] = sum(o["rejected"] for o in outs)
    stats["bfix_replayed"] = replayed
    stats["bfix_replayed_per_owner"] = per_owner
    stats["bfix_actions_seen"] = actions
    stats["bfix_harvest_mismatches"] = mism_total
    stats["post_real_steps_changed"] = len(post_cases)
    stats["post_real_step_mismatches"] = pm
    stats["harvested_steps_not_layout_only"] = {k: len(v) for k, v in not_layout.items()}
    return replayed, mism_total + pm, not_layout


# ------------------------------------------------------------------ 4. end-to-end search: whitespace_200


STRAY_TEXTS = {
    # a blank line inside a selected assignment, the next code token at column 0: the phase-1 line-joining
    # fixes leave the `blank_line` token in the middle of the joined line; every phase-3 rule that takes
    # "a blank_line token and the token after it" for a blank LINE then deletes code
    "concurrent": """architecture rtl of fifo is

begin

  with sel select
    addr <= "0000" when 0,
            "1111" when

others;

  a <= b;

end architecture rtl;
""",
    "process": """architecture rtl of fifo is

begin

  process is
  begin

    with sel select
      addr := "0000" when 0,
              "1111" when

others;

    a := b;

  end process;

end architecture rtl;
""",
}


def end_to_end(text):
    """full default fix of `text` in-process (what `vsg --fix` does); returns (code tokens before, after,
    the fix steps of THIS family that lost code)"""
    import sweep
    import vsgrun

    ci, ncls = class_index()
    if not sweep._W:
        sweep._init()
    cla, oc = vsgrun.make_config(style=None)
    o = vsgrun.parse(vsgrun.text_to_lines(text), cla, oc)
    rl = vsgrun.new_rule_list(o, oc)
    iscode = lambda t: ci.kind.get(ci.of(t)) in ("code", "codeCI")  # noqa: E731
    before = [t.get_value().lower() for t in o.lAllObjects if iscode(t)]
    steps, exc, ser = vsgrun.instrumented_fix(o, rl, ci, harvest=True)
    culprits = []
    for st in steps:
        if st.kind == "fix" and st.changed and st.before is not None:
            b = [v.lower() for t, v in st.before if iscode(t)]
            a = [v.lower() for t, v in st.after if iscode(t)]
            owner = sweep._W["fullowner"].get(st.rule)
            if len(a) < len(b) and owner in FAMILY:
                culprits.append({"rule": st.rule, "owner": sweep.short_owner(owner), "lost": [x for x in b if x not in a], "edits": [(e["start"], e["stop"], e["action_data"], [(type(t).__name__, v) for t, v in st.before[e["start"] : e["stop"]]], [(x[1], x[2]) for x in e["new"]]) for e in st.edits if len(e["new"]) < e["stop"] - e["start"]][:3]})
    after = [t.get_value().lower() for t in o.lAllObjects if iscode(t)]
    return before, after, culprits


# ------------------------------------------------------------------ entry points


def checks(res, tier, fail):
    """runs everything; `fail(site, kind, detail, replay)` reports a property failure of C03 on the real code"""
    stats = {}
    t0 = time.time()
    n1, m1 = post_correspondence(res, tier, stats)
    stats["t_post"] = round(time.time() - t0, 1)
    t0 = time.time()
    n2, m2, witnesses = synthetic_bfix(res, tier, stats)
    stats["t_synth"] = round(time.time() - t0, 1)
    t0 = time.time()
    n3, m3, not_layout = harvested(res, tier, stats)
    stats["t_harvest"] = round(time.time() - t0, 1)
    # harvested steps of the families that break layout-only: failures of C03 at their owner
    for so, lst in not_layout.items():
        fail(so, "notLayoutOnly", json.dumps(lst[0], default=str)[:1500], lst[0]["job"])
    stats["end_to_end"] = {}
    for name, text in STRAY_TEXTS.items():
        before, after, culprits = end_to_end(text)
        stats["end_to_end"][name] = {"code_before": len(before), "code_after": len(after), "culprits": culprits}
        for c in culprits:
            fail(c["owner"], "notLayoutOnly", "vsg --fix of a selected assignment with a blank line before `others` at column 0 (%s): %s drops %r: %s" % (name, c["rule"], c["lost"], json.dumps(c["edits"])[:700]), {"text": text, "variant": "orig", "config": "default"})
    return stats, n1 + n2 + n3, witnesses


def extra(res, tier):
    """hook for props_trace (C03): same checks, failures go to `res.fail`"""
    stats, n, witnesses = checks(res, tier, res.fail)
    res.coverage["layer_b_bind"] = stats
    return stats


def run(prop, tier):
    res = common.Result(prop, tier)
    ok_model, tables, nobl, ndis, thms = common.lean_phase(res, "C03")
    if not ok_model:
        return res.finish(max(nobl, 1), 0, "lake build VsgModel driver VsgProofs.Properties.C03", thms)
    for p in ("C01", "C02", "C07"):
        okp, outp, _ = common.lake_build(["VsgProofs.Properties." + p])
        if not okp:
            res.proof_break("proof build " + p, outp[-600:])
    known_lines = []

    def fail(site, kind, detail, replay):
        k = common.match_known("C03", site, kind)
        if k is not None:
            known_lines.append("KNOWN-FINDING: property=C03 site=%s kind=%s %s" % (site, kind, k.get("detail", "")))
        else:
            res.fail(site, kind, detail, replay)

    stats, n, witnesses = checks(res, tier, fail)
    for l in sorted(set(known_lines)):
        print(l)
    ours = [t for t in thms if t["name"].split(".")[-1].startswith(("bfix_indent", "bfix_blankline", "bfix_ws200", "bind_", "postPhase1", "cut_layoutOnly", "fixRun_nonLayout_post"))]
    res.coverage.update(
        {
            "evaluations": n,
            "distinct_nontrivial": len(stats.get("bfix_replayed_per_owner", {})) + len(stats.get("bfix_synthetic_per_owner", {})),
            "rule": "an evaluation = one token list through real fix_blank_lines/fix_trailing_whitespace and the Lean `post` mode, or one (owner, params, action, tokens of interest) through the real `_fix_violation` and the Lean `bfix` mode; distinct_nontrivial = owners with harvested replays + owners with synthetic cases",
            "samples": [{"witness_on_real_class": {"owner": w[0].split(".")[-1], "action": repr(w[2]), "old": w[3], "new": w[5]}} for w in witnesses[:5]],
            "known_findings_reproduced": sorted(set(known_lines)),
        }
    )
    res.coverage.update(stats)
    res.assumptions = [
        "the indent level of a token (`get_indent()`) is an oracle of the Lean model; the harvester records the real levels of the old tokens",
        "`has_tab(s)` flags set on whitespace tokens are not modelled (not observable in token values)",
        "layout-only of `remove_whitespace` / `adjust_whitespace` / `Remove` / the slicing rules is proved under the extractor contracts `ToiOk` / `nonLayout old = []`; the contracts themselves are checked on every harvested step, not proved",
    ]
    return res.finish(max(len(ours), 1), sum(1 for t in ours if t.get("axioms") is not None), "cd lean && lake build VsgProofs.Properties.C03 VsgProofs.Properties.C01 VsgProofs.Properties.C02 VsgProofs.Properties.C07", ours)


def replay(prop, path):
    d = json.load(open(path))
    inp = d.get("input") or {}
    if "text" in inp:
        import gen_tables

        gen_tables.generate()
        before, after, culprits = end_to_end(inp["text"])
        print("code tokens before:", before)
        print("code tokens after: ", after)
        for c in culprits:
            print("REPRODUCED property=C03 rule=%s owner=%s verdict=notLayoutOnly lost=%r" % (c["rule"], c["owner"], c["lost"]))
        return 1 if culprits else 0
    if "path" in inp:
        import replay as rp
        import gen_tables

        gen_tables.generate()
        found, exc = rp.show(inp, None)
        bad = [(st.rule, r) for st, r in found if r["c03"] != "ok"]
        for rule, r in bad:
            print("REPRODUCED property=C03 rule=%s verdict=%s" % (rule, r["c03"]))
        return 1 if bad else 0
    print(json.dumps(d, indent=1)[:3000])
    return 0


if __name__ == "__main__":
    sys.exit(run("BIND", sys.argv[1] if len(sys.argv) > 1 else "quick"))
