"""
Development aid (not a MANIFEST command): evaluate a seeded mutation delivered in a directory
with patch.diff / demo.py / meta.json.

  seedtest.py <dir> [--suite] [--props C01,C03] [--tier quick]

* makes two scratch worktrees of /repo (clean, mutated) under /tmp, removes them at the end;
* runs demo.py on both (must pass on clean, fail on mutated);
* with --suite runs the full test suite on the mutated tree;
* runs ./check <prop> <tier> with PYTHONPATH / VSG_REPO pointing at the mutated tree (so /repo itself
  is not touched while helpers use it) and reports which properties raised a VIOLATION.
"""
import json
import os
import re
import subprocess
import sys
import time

VERIF = os.path.dirname(os.path.dirname(os.path.abspath(__file__)))
ALWAYS_FAIL = ("test_summary_output_format_", "file_timestamp")


def sh(cmd, cwd=None, env=None, timeout=3600):
    p = subprocess.run(cmd, shell=True, cwd=cwd, env=env, stdout=subprocess.PIPE, stderr=subprocess.STDOUT, text=True, timeout=timeout)
    return p.returncode, p.stdout


def main():
    d = os.path.abspath(sys.argv[1])
    args = sys.argv[2:]
    name = os.path.basename(d)
    meta = json.load(open(os.path.join(d, "meta.json"))) if os.path.exists(os.path.join(d, "meta.json")) else {}
    props = [meta.get("property", name.split("_")[0])]
    tier = "quick"
    for i, a in enumerate(args):
        if a == "--props":
            props = args[i + 1].split(",")
        if a == "--tier":
            tier = args[i + 1]
    clean = "/tmp/seedchk_clean_%s" % name
    mut = "/tmp/seedchk_mut_%s" % name
    out = {"name": name, "props": props}
    for w in (clean, mut):
        sh("git -C /repo worktree remove --force %s" % w)
        rc, o = sh("git -C /repo worktree add --detach %s HEAD" % w)
        if rc:
            print(o)
            return 2
    try:
        rc, o = sh("git apply %s" % os.path.join(d, "patch.diff"), cwd=mut)
        out["apply"] = rc
        if rc:
            print("patch does not apply:", o[-500:])
            out["apply_error"] = o[-500:]
        else:
            for label, w in (("clean", clean), ("mutated", mut)):
                sh("cp %s %s/demo_seed.py" % (os.path.join(d, "demo.py"), w))
                rc, o = sh("/venv/bin/python -W ignore demo_seed.py", cwd=w, timeout=900)
                out["demo_" + label] = rc
                out["demo_%s_tail" % label] = o[-300:]
                os.remove(os.path.join(w, "demo_seed.py"))
            if "--suite" in args:
                t0 = time.time()
                rc, o = sh("/venv/bin/python -W ignore -m pytest -q -p no:cacheprovider --no-cov -n 12 --timeout=900 2>&1 | tail -40", cwd=mut, timeout=3000)
                failed = [l for l in o.split("\n") if l.startswith("FAILED") and not any(a in l for a in ALWAYS_FAIL)]
                m = re.search(r"(\d+) passed", o)
                out["suite_passed"] = int(m.group(1)) if m else None
                out["suite_new_failures"] = failed
                out["suite_wall"] = round(time.time() - t0)
            env = dict(os.environ)
            env["PYTHONPATH"] = mut
            env["VSG_REPO"] = mut
            # run the checks in a private copy of /verif so that the working directory stays usable
            vcopy = "/tmp/seedverif_%s" % name
            sh("rm -rf %s && mkdir -p %s && rsync -a --exclude out --exclude .cache/sweep-* %s/ %s/" % (vcopy, vcopy, VERIF, vcopy))
            for p in props:
                t0 = time.time()
                rc, o = sh("./check %s %s" % (p, tier), cwd=vcopy, env=env, timeout=3000)
                viol = [l for l in o.split("\n") if l.startswith("VIOLATION")]
                os.makedirs("/tmp/seed_res", exist_ok=True)
                open("/tmp/seed_res/%s_%s.log" % (name, p), "w").write(o)
                for v in viol:
                    m2 = re.search(r"replay=(\S+)", v)
                    if m2 and os.path.exists(m2.group(1)):
                        try:
                            rj = json.load(open(m2.group(1)))
                            out.setdefault("replays", []).append({"prop": p, "site": rj.get("site"), "failure": rj.get("failure"), "detail": str(rj.get("detail"))[:300], "kind": rj.get("kind"), "broken": str(rj.get("broken"))[:300]})
                        except Exception:
                            pass
                sh("mkdir -p /tmp/seed_res/replays_%s && cp %s/out/replays/%s_*.json /tmp/seed_res/replays_%s/ 2>/dev/null" % (name, vcopy, p, name))
                out["check_%s" % p] = {"exit": rc, "violations": viol, "wall": round(time.time() - t0), "tail": o[-4000:] if rc not in (0, 1) else ""}
    finally:
        for w in (clean, mut):
            sh("git -C /repo worktree remove --force %s" % w)
        sh("rm -rf /tmp/seedverif_%s" % name)
    print(json.dumps(out, indent=1))
    return 0


if __name__ == "__main__":
    sys.exit(main())
