"""
BFULL2, vertical-spacing families (plug-in of props_bfull2.run_job): the REAL rules

    blank_line_below_line_ending_with_token   (family 0, `vspace_below`)
    blank_line_above_line_starting_with_token (family 1, `vspace_above`)
    previous_line                             (family 2, `vspace_previous`)

against the Lean whole-rule model `lean/VsgModel/BFull2/VSpace.lean` (driver request `VSP`).

For every rule of the generated table whose extractor / analysis / allow-token hook is the base class's own
(`own`), for the default style on every job and for every other documented style on every third job: the real
`_get_tokens_of_interest`, `_analyze`, then the real `fix`, then a second real `analyze`; compared with the model:
regions (start, line, length; `None` regions; pairs of regions for require_comment), violations (line, start,
action, solution text), the token list after the fix, and the second analysis (line, action).

State leak handled here, not modelled: `require_blank_line_unless_pragma` appends token.pragma.pragma to
`self.lAllowTokens` (a list shared with the rule's module) at every analysis; the list is restored after each run.
"""
import leanio

FAMILY = {0: "vspace_below", 1: "vspace_above", 2: "vspace_previous"}
SITE = {0: "blank_line_below_line_ending_with_token", 1: "blank_line_above_line_starting_with_token", 2: "previous_line"}
STYLES = {
    0: ["require_blank_line", "no_blank_line", "require_blank_line_unless_pragma"],
    1: ["require_blank_line", "no_blank_line"],
    2: ["require_blank_line", "no_blank_line", "no_code", "allow_comment", "require_comment"],
}
NOT_MODELLED = {"no_blank_line_unless_different_library"}
ACT = {"Insert": 0, "Remove": 1, "Skip": 2}
_FAM_OF = {}


def _region(t):
    if t is None:
        return "N"
    if isinstance(t, tuple):
        return tuple(_region(x) for x in t)
    return (t.iStartIndex, t.iLine, len(t.lTokens))


def _viols(r):
    return [(v.get_line_number(), v.oTokens.iStartIndex, ACT.get((v.get_action() or {}).get("action"), -1), v.get_solution()) for v in r.violations]


def real_rule(o, r, style, snap, plain):
    """the real rule on the shared file object; object and rule are restored afterwards"""
    rec = {"tois": None, "viols": None, "fixed": None, "exc": None, "second": None, "fixable": bool(r.fixable)}
    allow_obj = r.lAllowTokens
    allow_orig = list(allow_obj)
    style_orig = r.style
    r.style = style
    r.violations = []
    try:
        try:
            lToi = r._get_tokens_of_interest(o)
            if lToi is not None:
                lToi = list(lToi)
            rec["tois"] = [_region(t) for t in (lToi or [])]
            r._analyze(lToi)
        except Exception as e:  # noqa: BLE001
            rec["exc"] = type(e).__name__
            return rec
        rec["viols"] = _viols(r)
        nviol = len(r.violations)
        r.violations = []
        if nviol and r.fixable:
            try:
                r.fix(o, None)
                rec["fixed"] = plain(o.lAllObjects)
                r.violations = []
                try:
                    r.analyze(o)
                    rec["second"] = [(v[0], v[2]) for v in _viols(r)]
                except Exception as e:  # noqa: BLE001
                    rec["second"] = "!" + type(e).__name__
            except Exception as e:  # noqa: BLE001
                rec["fixed"] = "!" + type(e).__name__
            finally:
                snap.restore(o)
        return rec
    finally:
        r.violations = []
        r.had_violations = False
        r.style = style_orig
        r.lAllowTokens = allow_obj
        allow_obj[:] = allow_orig


def requests(o, rules, snap, W, req, recs, idx):
    ci, ncls, kind = W["ci"], W["ncls"], W["kind"]

    def plain(objs):
        out = []
        for t in objs:
            c = ci.of(t)
            out.append((c if c >= 0 else ncls, t.get_value()))
        return out

    # hierarchy of the k-th token that is neither a line break nor a blank_line
    hier = []
    k = 0
    for t in o.lAllObjects:
        c = ci.of(t)
        if kind.get(c) in ("cr", "blank"):
            continue
        h = t.get_hierarchy()
        if h is not None:
            hier.append("%d=%d" % (k, int(h)))
        k += 1
    hier_s = ",".join(hier)
    for row in W["vspace"]:
        if not row["own"]:
            continue
        r = rules.get(row["id"])
        if r is None:
            continue
        fam = row["family"]
        _FAM_OF[row["id"]] = fam
        default = row["style"]
        styles = [default] if default not in NOT_MODELLED else []
        if idx % 3 == 0:
            styles += [s for s in STYLES[fam] if s != default]
        for style in styles:
            real = real_rule(o, r, style, snap, plain)
            req.append("VSP\t%s\t%s\t%s" % (row["id"], leanio.enc_str(style), hier_s if row["hier"] is not None else ""))
            recs.append((FAMILY[fam], row["id"], (style,), real))


def _parse_region(s):
    if s == "N":
        return "N"
    if "+" in s:
        return tuple(_parse_region(x) for x in s.split("+"))
    return tuple(int(x) for x in s.split(","))


def parse_reply(rep):
    if rep.startswith("raise "):
        return {"exc": rep[6:]}
    if not rep.startswith("ok "):
        return {"bad": rep[:200]}
    parts = rep[3:].split("|")
    if len(parts) != 4:
        return {"bad": rep[:200]}
    tois = [_parse_region(t) for t in parts[0].split(";")] if parts[0] else []
    viols = []
    if parts[1]:
        for v in parts[1].split(";"):
            a = v.split(",")
            viols.append((int(a[0]), int(a[1]), int(a[2]), leanio.dec_str(a[3])))
    if parts[2] == "=":
        fixed = None
    elif parts[2].startswith("!"):
        fixed = parts[2]
    else:
        fixed = []
        if parts[2]:
            for p in parts[2].split(" "):
                c, _, v = p.partition(":")
                fixed.append((int(c), leanio.dec_str(v)))
    if parts[3] == "-":
        second = None
    elif parts[3].startswith("!"):
        second = parts[3]
    else:
        second = [tuple(int(x) for x in s.split(",")) for s in parts[3].split(";")] if parts[3] else []
    return {"tois": tois, "viols": viols, "fixed": fixed, "second": second}


def compare(out, path, variant, rid, cfg, real, rep):
    fam = _FAM_OF.get(rid, 0)
    lean = parse_reply(rep)

    def mm(what, a, b):
        out["mismatch"].append({"family": FAMILY[fam], "rule": rid, "path": path, "variant": variant, "cfg": list(cfg), "what": what, "real": repr(a)[:600], "lean": repr(b)[:600]})

    def finding(kind, detail, prop="C10"):
        out["findings"].append({"prop": prop, "site": SITE[fam], "kind": kind, "rule": rid, "path": path, "variant": variant, "cfg": list(cfg), "detail": detail})

    if "bad" in lean:
        mm("bad reply", None, lean["bad"])
        return
    if real["exc"] is not None or "exc" in lean:
        if real["exc"] != lean.get("exc"):
            mm("exception", real["exc"], lean.get("exc"))
        else:
            out["nontrivial"] += 1
            # real rule and model raise the same exception: a crash of the real rule (C19), predicted by the model
            finding(real["exc"], "analysis raises (model agrees)", prop="C19")
        return
    out["tois"] += len(real["tois"])
    out["viols"] += len(real["viols"])
    if real["tois"] != lean["tois"]:
        k = next((i for i, (x, y) in enumerate(zip(real["tois"], lean["tois"])) if x != y), min(len(real["tois"]), len(lean["tois"])))
        mm("tois (first difference at %d of %d/%d)" % (k, len(real["tois"]), len(lean["tois"])), real["tois"][max(0, k - 1) : k + 3], lean["tois"][max(0, k - 1) : k + 3])
        return
    if real["viols"] != lean["viols"]:
        mm("violations", real["viols"], lean["viols"])
        return
    if not real["viols"]:
        return
    out["nontrivial"] += 1
    if not real["fixable"]:
        return
    out["fixes"] += 1
    if isinstance(real["fixed"], str) or isinstance(lean["fixed"], str):
        if real["fixed"] != lean["fixed"]:
            mm("fix exception", real["fixed"], lean["fixed"])
        else:
            finding(real["fixed"][1:], "_fix_violation raises (model agrees)", prop="C19")
        return
    if real["fixed"] != lean["fixed"]:
        a, b = real["fixed"], lean["fixed"] or []
        k = next((i for i, (x, y) in enumerate(zip(a, b)) if x != y), min(len(a), len(b)))
        mm("fixed tokens (first difference at %d, lengths %d/%d)" % (k, len(a), len(b)), a[max(0, k - 3) : k + 4], b[max(0, k - 3) : k + 4])
        return
    if real["second"] != lean["second"]:
        mm("second analysis", real["second"], lean["second"])
        return
    if real["second"]:
        # the model predicts the same second analysis: a property of the rule.  Not a finding when every
        # remaining violation is the unrepairable "Skip" of require_comment
        if isinstance(real["second"], str):
            finding(real["second"][1:], "second analysis raises (model agrees)", prop="C19")
        elif any(a != ACT["Skip"] for _, a in real["second"]):
            first = sorted({v[0] for v in real["viols"]})[:4]
            finding("secondAnalysisNonEmpty", "model agrees; first analysis lines %r, second analysis %r" % (first, real["second"][:4]))
