"""development aid: copy the `BEGIN <tag>` … `END <tag>` block (with the comment that opens it) and the missing
imports of property files from a helper's copy into /verif.  usage: merge_blocks.py <copy root> <tag> C01 C02 …"""
import re
import sys

A, tag = sys.argv[1].rstrip("/") + "/", sys.argv[2]
V = "/verif/"
for P in sys.argv[3:]:
    a = open(A + "lean/VsgProofs/Properties/%s.lean" % P).read()
    m = open(V + "lean/VsgProofs/Properties/%s.lean" % P).read()
    if "BEGIN " + tag in m:
        print(P, "already merged")
        continue
    if "BEGIN " + tag not in a:
        print(P, "no block")
        continue
    b = a.index("BEGIN " + tag)
    i = a.rfind("/-", 0, b)
    # the comment must still be open at the marker
    if a.find("-/", i, b) != -1:
        i = a.rfind("\n", 0, b) + 1
    j = a.index("END " + tag)
    j = a.index("\n", j) + 1
    block = a[i:j]
    imps = [l for l in a.split("\n") if l.startswith("import ") and l not in m.split("\n")]
    for l in imps:
        last = [x for x in re.finditer(r"^import .*$", m, flags=re.M)][-1]
        m = m[: last.end()] + "\n" + l + m[last.end() :]
    e = m.rindex("end Vsgm.%s" % P)
    m = m[:e] + block + "\n" + m[e:]
    open(V + "lean/VsgProofs/Properties/%s.lean" % P, "w").write(m)
    print(P, "block", len(block), "imports", imps)
