"""
Layer B, multi-line STRUCTURE family (20 `_fix_violation` owners, 28 rules; models in
lean/VsgModel/Base/Multi.lean, theorems in the `ag_bmulti` blocks of lean/VsgProofs/Properties/C01.lean /
C02.lean / C03.lean / C08.lean).

  ./check BMULTI quick|thorough        (auxiliary id; the corpus correspondence of the same models also runs
                                        inside the C01/C02/C03 sweep: CORR … bfix-mismatch)

(1) synthetic correspondence: hand-built token lists x every action value in and out of range through the
    REAL `_fix_violation` of a real rule instance of each owner and through the Lean model; token lists and
    raised exception types must agree (harness/bmulti_synth.py);
(2) per-violation correspondence: corpus files x re-layout variants, the rules of the family with random
    option values, every violation of the real analysis one by one (also the overlapping regions the trace
    sweep has to skip);
(3) the Lean witnesses (negations / defects / C08 causes) replayed on the REAL classes;
(4) whole-file reproduction of the defects on the real fix path: a comment of the input must still be in
    the output and must still end its line.
"""
import contextlib
import io
import json
import os
import sys

import common

FAMILY_SITES = {
    "multiline_structure", "multiline_simple_structure", "multiline_subprogram_specification_structure", "multiline_constraint_structure",
    "multiline_procedure_call_structure", "comment.rule_011", "conditional_waveforms.rule_001", "concurrent.rule_008", "process.rule_021",
    "process.rule_026", "process.rule_027", "signal.rule_012", "instantiation.rule_005", "when.rule_001",
    "align_consecutive_lines_starting_with_a_comment_above_line_starting_with_token", "align_left_token_with_right_token_if_right_token_starts_a_line",
    "after.rule_001", "after.rule_002", "after.rule_003", "process.rule_029",
}

# (owner key, symbols, kwargs of bmulti_synth.real_fix, expected symbols or None = only compare with Lean, Lean theorem)
# symbols: a b c = code, ; = a semicolon, w = " ", W = "   ", n = line break, B = blank_line, k = "-- c", p = preprocessor
def _witnesses():
    import bmulti_synth

    ms = bmulti_synth.ms_mod
    return [
        ("multiStruct", "cwknWc", dict(action={"type": ms._fix_new_line_after_comma, "action": "remove"}), "cwknWc", "C02.multiStruct_comment_region_kept (was multiStruct_commentLost before the fix: commits)"),
        ("multiStruct", "cwknWc", dict(action={"type": ms._fix_last_paren_new_line, "action": "remove"}), "cwknWc", "C02.multiStruct_comment_region_kept (last_paren)"),
        ("multiStruct", "abc", dict(action={"type": ms._fix_last_paren_new_line, "action": "remove"}), "ac", "C01.multiStruct_remove_changes_code (1)"),
        ("multiStruct", "c", dict(action={"type": ms._fix_last_paren_new_line, "action": "remove"}), "cc", "C01.multiStruct_remove_changes_code (2): one token doubled"),
        ("simple", "awknWb", dict(action={"type": "new_line_after_assign", "action": "remove"}), "awb", "C02.simple_commentLost"),
        ("subprogram", "wknWa", dict(action={"action": "remove_new_line"}), "kwa", "C02.fixpy_commentAbsorbsCode (1)"),
        ("subprogram", "anp", dict(action={"action": "remove_new_line"}), "a", "C02.fixpy_commentAbsorbsCode (2): trailing preprocessor token deleted"),
        ("subprogram", "anBnWc", dict(action={"action": "remove_new_line"}), "aBwc", "C08.fixpy_stray_blank_line"),
        ("process021", "Ba", dict(params={"style": "no_blank_line"}), "", "C03.process021_deletes_code"),
        ("process021", "awkna", dict(params={"style": "require_blank_line"}), "awkBnna", "C02.process021_commentAbsorbsCode"),
        ("process021", "anWb", dict(params={"style": "require_blank_line"}), "aBnnWb", "C08.process021_stray_blank_line"),
        ("process026", "anBnc", dict(action={"action": "Remove", "start": 1, "end": 2}), "aBnc", "C08.process026_027_stray_blank_line (1)"),
        ("process027", "cwb", dict(action={"action": "Insert", "index": 1}), "cBnwb", "C08.process026_027_stray_blank_line (2)"),
        ("comment011", "ab", dict(action={"iToken": 1, "index": 0}), "bna", "C01.comment011_codeSeq_false"),
        ("when001", "ca", dict(), "wac", "C01.when001_codeSeq_false"),
        ("signal012", "cab", dict(action={"adjust": 1}), None, "C03.multi_aligners_not_layoutOnly (signal_012)"),
        ("alignCommentAbove", "cab", dict(action={"action": "adjust", "whitespace": "  "}), None, "C03.multi_aligners_not_layoutOnly (library_009)"),
        ("alignLeftRight", "cab", dict(action={"action": "adjust", "whitespace": "  "}), None, "C03.multi_aligners_not_layoutOnly (process_028)"),
    ]


# whole-file reproductions: (name, rule options, text, expected failure kind or None)
FILES = [
    ("simple_commentLost", {}, "architecture a of e is\nbegin\n  x <= -- c\n    b;\nend architecture a;\n", ("multiline_simple_structure", "commentLost")),
    ("fixpy_commentAbsorbsCode", {}, "architecture a of e is\n  procedure p -- c\n  (a : integer);\nbegin\nend architecture a;\n", ("multiline_subprogram_specification_structure", "commentAbsorbsCode")),
    ("multiStruct_commentLost_comma", {"constant_016": {"new_line_after_comma": "no", "assign_on_single_line": "ignore"}},
     "architecture rtl of fifo is\n\n  constant c_rom : t_rom :=\n  (\n    1, -- one\n    2  -- two\n  );\n\nbegin\n\nend architecture rtl;\n", None),  # repaired by the fix: commits c6e66e8 / 8e6c5bb (was multiline_structure/commentLost)
    ("multiStruct_commentLost_last_paren", {"constant_016": {"last_paren_new_line": "no", "assign_on_single_line": "ignore"}},
     "architecture rtl of fifo is\n\n  constant c_rom : t_rom :=\n  (\n    1, -- one\n    2  -- two\n  );\n\nbegin\n\nend architecture rtl;\n", None),  # repaired by the fix: commits c6e66e8 / 8e6c5bb (was multiline_structure/commentLost)
    ("multiStruct_commentLost_concurrent", {"concurrent_012": {"new_line_after_comma": "no", "assign_on_single_line": "ignore"}},
     "architecture rtl of fifo is\nbegin\n\n  x <=\n  (\n    1, -- one\n    2\n  );\n\nend architecture rtl;\n", None),  # repaired by the fix: commits c6e66e8 / 8e6c5bb (was multiline_structure/commentLost)
    ("multiStruct_default_keeps_comments", {}, "architecture rtl of fifo is\n\n  constant c_rom : t_rom :=\n  (\n    1, -- one\n    2  -- two\n  );\n\nbegin\n\nend architecture rtl;\n", None),
]


def _comments(text):
    out = []
    for l in text.split("\n"):
        i = l.find("--")
        if i >= 0:
            out.append(l[i:].rstrip())
    return out


def file_job(args):
    """the real fix of one text; returns (kind or None, output text, rules that changed the file)"""
    import vsgrun

    name, opts, text = args
    conf = {"rule": opts} if opts else {}
    cla, oConfig = vsgrun.make_config(style=None, conf_dicts=[conf] if conf else ())
    with contextlib.redirect_stdout(io.StringIO()), contextlib.redirect_stderr(io.StringIO()):
        lines, _, o, rl = vsgrun.plain_fix(vsgrun.text_to_lines(text), cla, oConfig)
    out = "\n".join(lines) + "\n"
    cin, cout = _comments(text), _comments(out)
    kind = None
    if [c for c in cin if not any(c == d for d in cout)]:
        # a comment whose text is gone, or that now has code behind it
        missing = [c for c in cin if not any(d.startswith(c) for d in cout)]
        kind = "commentLost" if missing else "commentAbsorbsCode"
    return kind, out


def witness_replay():
    import bmulti_synth

    st = bmulti_synth.setup()
    ci = st["ci"]
    recs, bad = [], []
    for key, sym, kw, want, what in _witnesses():
        r = bmulti_synth.real_fix(key, sym, **kw)
        recs.append(r)
        if want is not None:
            wanted = [(ci.of(t), t.value) for t in bmulti_synth.build(want)]
            got = None if r["new"] is None else [(c, v) for c, v in r["new"]]
            # whitespace values are normalised by some fixes: compare classes, and values of non-whitespace
            same = got is not None and len(got) == len(wanted) and all(a[0] == b[0] and (a[1] == b[1] or ci.kind.get(a[0]) == "ws") for a, b in zip(got, wanted))
            if not same:
                bad.append({"witness": what, "real": r["exc"] or got, "expected": wanted})
    mism, n, unm = bmulti_synth.lean_replay(recs)
    return bad, mism, n


def run(prop, tier):
    res = common.Result(prop, tier)
    ok_model, tables, nobl, ndis, thms = common.lean_phase(res, "C02")
    ok1, _, nobl1, ndis1, thms1 = common.lean_phase(res, "C01")
    nobl, ndis, thms = nobl + nobl1, ndis + ndis1, (thms or []) + (thms1 or [])
    if not ok_model:
        return res.finish(max(nobl, 1), 0, "lake build VsgModel driver VsgProofs.Properties.C01 VsgProofs.Properties.C02", thms)
    known = common.load_known()
    import bmulti_synth

    sd = common.seed() or 1
    synth = bmulti_synth.run_synth(tier, sd)
    for m in synth["mismatches"][:3]:
        res.proof_break("bfix synthetic correspondence %s" % m.get("rule"), m)
    viol = bmulti_synth.run_violations(tier, sd)
    for m in viol["mismatches"][:3]:
        res.proof_break("bfix per-violation correspondence %s" % m.get("rule"), m)
    bad, wm, nw = witness_replay()
    for b in bad:
        res.proof_break("Lean witness not reproduced on the real class: %s" % b["witness"], b)
    for m in wm:
        res.proof_break("bfix witness correspondence %s" % m.get("rule"), m)
    counts = {}
    nknown = set()
    for name, opts, text, expect in FILES:
        kind, out = file_job((name, opts, text))
        if expect is None:
            if kind is not None:
                res.fail("multiline_structure", "C02:" + kind, "%s: %r -> %r" % (name, text, out), {"name": name, "options": opts, "text": text})
            continue
        site, want = expect
        if kind != want:
            res.proof_break("defect %s no longer reproduces on the real fix path" % name, {"expected": want, "got": kind, "output": out})
            continue
        key = "C02|%s|%s" % (site, kind)
        counts[key] = counts.get(key, 0) + 1
        if common.match_known("C02", site, kind, known) is not None:
            if key not in nknown:
                nknown.add(key)
                print("KNOWN-FINDING: property=C02 site=%s kind=%s (reproduced by %s)" % (site, kind, name))
            continue
        res.fail(site, "C02:" + kind, "%s: %r -> %r" % (name, text, out), {"name": name, "options": opts, "text": text})
    res.coverage.update(
        {
            "evaluations": synth["cases"] + viol["violations"] + nw + len(FILES),
            "distinct_nontrivial": len(synth["by_owner"]),
            "rule": "an evaluation = one (owner, rule parameters, action, token list) through the real _fix_violation and the Lean model, results and exception types compared; plus one whole-file fix per reproduction text; non-trivial = distinct _fix_violation owners exercised",
            "samples": [{"witness": w[4], "owner": w[0], "old": w[1], "new": w[3]} for w in _witnesses()][:6],
            "synthetic_by_owner": synth["by_owner"],
            "synthetic_cases": synth["cases"],
            "synthetic_raising_cases": synth["raised"],
            "synthetic_unmodelled": synth["unmodelled"],
            "synthetic_mismatches": synth["n_mismatch"],
            "per_violation_jobs": viol["jobs"],
            "per_violation_replayed": viol["violations"],
            "per_violation_by_owner": viol["by_owner"],
            "per_violation_unmodelled": viol["unmodelled"],
            "per_violation_mismatches": viol["n_mismatch"],
            "witnesses_replayed_on_real_classes": nw,
            "whole_file_reproductions": counts,
            "known_findings_reproduced": sorted(nknown),
        }
    )
    res.assumptions = [
        "the corpus correspondence of the same models (harvest + bfix replay of every real violation step) also runs in the C01/C02/C03 sweep",
        "theorems are about the token list of one region; `update_hom` / `update_commentEndsLine` lift them to the whole file for sorted disjoint regions",
        "code tags of inserted tokens (copied from a neighbour by rules_utils.insert_token) are outside the wire form",
    ]
    return res.finish(max(nobl, 1), ndis, "cd lean && lake build VsgProofs.Properties.C01 VsgProofs.Properties.C02 VsgProofs.Properties.C03 VsgProofs.Properties.C08", thms)


def replay(prop, path):
    d = json.load(open(path))
    if d.get("kind") == "no-failing-input-found":
        print(json.dumps(d, indent=1)[:3000])
        return 0
    import gen_tables

    gen_tables.generate()
    inp = d["input"]
    kind, out = file_job((inp.get("name"), inp.get("options") or {}, inp["text"]))
    print("input:\n%s\noutput of the real fix:\n%s" % (inp["text"], out))
    if kind is not None:
        print("REPRODUCED property=C02 site=%s kind=%s" % (d["site"], kind))
        return 1
    return 0
