"""
Layer B, multi-line structure family (lean/VsgModel/Base/Multi.lean; 20 `_fix_violation` owners).

(A) per-violation correspondence: corpus files x re-layout variants, the rules of the family with
    RANDOM option values; `rule.analyze` on the real file, then EVERY violation one by one through the real
    `_fix_violation` and through the Lean model (driver mode `bfix`).  Unlike the trace sweep this also
    covers the violations whose regions overlap (multiline_structure creates several per assignment).
(B) synthetic correspondence: hand-built token lists (real token classes) x every action value in and
    out of range through the real `_fix_violation` of a real rule instance of each owner; token lists AND
    raised exception types are compared.
"""
import contextlib
import copy
import io
import itertools
import json
import os
import random
import sys

HERE = os.path.dirname(os.path.abspath(__file__))
sys.path.insert(0, HERE)

import bfix  # noqa: E402
import vsgrun  # noqa: E402
from leanio import Driver  # noqa: E402

from vsg import parser, violation  # noqa: E402
import vsg.rules  # noqa: E402,F401

ms_mod = sys.modules["vsg.rules.multiline_structure"]  # the MODULE (the package attribute of that name is the class)
from vsg.token import constant_declaration, if_statement, pragma, delimited_comment  # noqa: E402
from vsg.vhdlFile.extract import tokens as toi_mod  # noqa: E402

P = "vsg.rules."
# key -> (owner, id of one rule that uses it)
OWN = {
    "multiStruct": (P + "multiline_structure.multiline_structure", "constant_016"),
    "simple": (P + "multiline_simple_structure.multiline_simple_structure", "concurrent_011"),
    "subprogram": (P + "multiline_subprogram_specification_structure.multiline_subprogram_specification_structure", "function_019"),
    "constraint": (P + "multiline_constraint_structure.multiline_constraint_structure", "constant_017"),
    "procCall": (P + "multiline_procedure_call_structure.multiline_procedure_call_structure", "procedure_call_003"),
    "comment011": (P + "comment.rule_011.rule_011", "comment_011"),
    "condWave001": (P + "conditional_waveforms.rule_001.rule_001", "conditional_waveforms_001"),
    "concurrent008": (P + "concurrent.rule_008.rule_008", "concurrent_008"),
    "process021": (P + "process.rule_021.rule_021", "process_021"),
    "process026": (P + "process.rule_026.rule_026", "process_026"),
    "process027": (P + "process.rule_027.rule_027", "process_027"),
    "signal012": (P + "signal.rule_012.rule_012", "signal_012"),
    "inst005": (P + "instantiation.rule_005.rule_005", "instantiation_005"),
    "when001": (P + "when.rule_001.rule_001", "when_001"),
    "alignCommentAbove": (P + "align_consecutive_lines_starting_with_a_comment_above_line_starting_with_token.align_consecutive_lines_starting_with_a_comment_above_line_starting_with_token", "library_009"),
    "alignLeftRight": (P + "align_left_token_with_right_token_if_right_token_starts_a_line.align_left_token_with_right_token_if_right_token_starts_a_line", "process_028"),
    "after001": (P + "after.rule_001.rule_001", "after_001"),
    "after002": (P + "after.rule_002.rule_002", "after_002"),
    "after003": (P + "after.rule_003.rule_003", "after_003"),
    "process029": (P + "process.rule_029.rule_029", "process_029"),
}
OWNER_KEYS = {v[0]: k for k, v in OWN.items()}

SYM = {
    "a": lambda: if_statement.if_keyword("if"),
    "b": lambda: if_statement.then_keyword("then"),
    "c": lambda: parser.todo("x"),
    ";": lambda: constant_declaration.semicolon(";"),
    "w": lambda: parser.whitespace(" "),
    "W": lambda: parser.whitespace("   "),
    "n": lambda: parser.carriage_return(),
    "B": lambda: parser.blank_line(),
    "k": lambda: parser.comment("-- c"),
    "p": lambda: parser.preprocessor("`if X"),
    "g": lambda: pragma.pragma("-- synthesis off"),
    "[": lambda: delimited_comment.beginning("/*"),
    "t": lambda: delimited_comment.text(" t "),
    "]": lambda: delimited_comment.ending("*/"),
}

ERRNAMES = {"IndexError", "TypeError", "KeyError", "AttributeError", "ValueError"}


def build(sym):
    return [SYM[s]() for s in sym]


_STATE = {}


def setup():
    if _STATE:
        return _STATE
    import gen_tables

    tables, _ = gen_tables.generate()
    ci = vsgrun.ClassIndex(tables)
    cla, oConfig = vsgrun.make_config(style=None)
    with contextlib.redirect_stdout(io.StringIO()):
        oFile = vsgrun.parse([""], cla, oConfig)
        rl = vsgrun.new_rule_list(oFile, oConfig)
    inst = {}
    for key, (owner, rid) in OWN.items():
        inst[key] = next(x for x in rl.rules if x.unique_id == rid)
    rows = {r["id"]: r for r in tables["rules"]}
    family = {}
    for r in tables["rules"]:
        if r["fixVOwner"] in OWNER_KEYS:
            family[r["id"]] = r["fixVOwner"]
    _STATE.update({"tables": tables, "ci": ci, "inst": inst, "ncls": len(tables["classes"]), "rows": rows, "family": family, "cla": cla, "oConfig": oConfig})
    return _STATE


def snap(ci, toks):
    return [(i, ci.of(t), t.value, ()) for i, t in enumerate(toks)]


def run_violation(rule, v, owner, label, ci):
    """one violation through the real `_fix_violation`; the record for the Lean replay"""
    old = snap(ci, v.get_tokens())
    act = bfix.enc_action(vsgrun.jsonable_action(v.get_action(), ci), None, vsgrun.violation_attrs(v, ci))
    rec = {"owner": owner, "rule": label, "params": bfix.enc_kv(vsgrun.rule_params(rule, ci)), "action": act, "old": old, "raw_action": repr(v.get_action())[:120]}
    try:
        rule._fix_violation(v)
        rec["new"] = [(t[1], t[2]) for t in snap(ci, v.get_tokens())]
        rec["exc"] = None
    except Exception as e:  # noqa: BLE001 - the exception type is part of the model
        rec["new"] = None
        rec["exc"] = type(e).__name__
    return rec


def real_fix(key, sym, params=None, action="__unset__", attrs=None):
    st = setup()
    ci = st["ci"]
    rule = copy.copy(st["inst"][key])
    for k, v in (params or {}).items():
        if v == "__del__":
            if hasattr(rule, k):
                delattr(rule, k)
        else:
            setattr(rule, k, v)
    toks = build(sym)
    oToi = toi_mod.New(0, 1, toks)
    v = violation.New(1, oToi, "")
    if action != "__unset__":
        v.set_action(action)
    for k, x in (attrs or {}).items():
        setattr(v, k, x)
    rec = run_violation(rule, v, OWN[key][0], key, ci)
    rec["sym"] = sym
    return rec


def lean_replay(records):
    """(mismatches, n compared, n unmodelled) — compares token lists and exception types"""
    st = setup()
    ncls = st["ncls"]
    import subprocess

    from leanio import DRIVER

    payload = "".join("%s\t%s\t%s\t%s\n" % (r["owner"], r["params"], r["action"], bfix.enc_plain_toks(r["old"], ncls)) for r in records)
    p = subprocess.run([DRIVER, "bfix"], input=payload, stdout=subprocess.PIPE, text=True, encoding="utf-8")
    replies = p.stdout.split("\n")
    mism = []
    unm = 0
    for k, r in enumerate(records):
        line = replies[k] if k < len(replies) else "error no reply"
        want = None if r["new"] is None else [(c if c >= 0 else ncls, v) for c, v in r["new"]]
        desc = {"rule": r["rule"], "sym": r.get("sym"), "action": r["raw_action"], "old": [(t[1], t[2]) for t in r["old"]][:30]}
        if line == "unmodelled" or line.startswith("err unmodelled:"):
            unm += 1
        elif line.startswith("ok"):
            got = bfix.dec_plain_toks(line[3:])
            if got != want:
                mism.append(dict(desc, real=r["exc"] or want[:30], lean=got[:30]))
        elif line.startswith("err "):
            got = line[4:].strip()
            if r["exc"] != got:
                mism.append(dict(desc, real=r["exc"] or "ok", lean=line))
        else:
            mism.append(dict(desc, lean=line))
    return mism, len(records) - unm, unm


# ------------------------------------------------------------------ (B) synthetic


def cases_for(key, sym):
    n = len(sym)
    rng_i = list(range(-(n + 2), n + 3))
    if key == "multiStruct":
        fns = [ms_mod._fix_first_paren_new_line, ms_mod._fix_last_paren_new_line, ms_mod._fix_open_paren_new_line, ms_mod._fix_close_paren_new_line, ms_mod._fix_new_line_after_comma, ms_mod._fix_assign_on_single_line]
        for f in fns:
            for a in ("insert", "remove", "insert_and_move_comment", "zz", None, 3):
                yield dict(action={"type": f, "action": a})
                if f is ms_mod._fix_last_paren_new_line and a == "insert_and_move_comment":
                    yield dict(action={"type": f, "action": a}, attrs={"semicolon": constant_declaration.semicolon})
                    yield dict(action={"type": f, "action": a}, attrs={"semicolon": if_statement.then_keyword})
            yield dict(action={"type": f})
        yield dict(action={"type": "_fix_first_paren_new_line", "action": "insert"})
        yield dict(action={"type": None, "action": "insert"})
        yield dict(action={"action": "insert"})
        yield dict(action=None)
        yield dict(action="insert")
        yield dict()
    elif key == "simple":
        for t in ("new_line_after_assign", "zz", None):
            for a in ("insert", "remove", "zz", None):
                yield dict(action={"type": t, "action": a})
        yield dict(action={"type": "new_line_after_assign"})
        yield dict(action={"action": "insert"})
        yield dict(action=None)
        yield dict(action="x")
    elif key in ("subprogram", "constraint", "procCall"):
        for a in ("add_new_line", "remove_new_line", "add_new_line_and_remove_carraige_returns", "zz", None):
            yield dict(action={"action": a})
        yield dict(action={})
        yield dict(action=None)
    elif key == "comment011":
        for i in rng_i:
            yield dict(action={"iToken": i, "index": 0})
        yield dict(action={"iToken": None})
        yield dict(action={"iToken": "s"})
        yield dict(action={"index": 1})
        yield dict(action=None)
    elif key in ("condWave001", "when001", "after003"):
        yield dict()
        yield dict(action={"x": 1})
    elif key in ("concurrent008", "after002"):
        for i in rng_i:
            for adj in (-4, -1, 0, 1, 3):
                yield dict(action={"token_index": i, "adjust": adj})
            yield dict(action={"token_index": i})
        yield dict(action={"adjust": 1})
        yield dict(action={"token_index": "s", "adjust": 1})
        yield dict(action={"token_index": 1, "adjust": "s"})
        yield dict(action=None)
    elif key == "process021":
        for s in ("no_blank_line", "require_blank_line", "zz", None):
            yield dict(params={"style": s})
    elif key in ("process026", "process027"):
        for i in rng_i:
            yield dict(action={"action": "Insert", "index": i})
        small = rng_i if n <= 4 else [-n - 1, -2, -1, 0, 1, 2, n - 1, n, n + 1]
        for a in ("Remove", "zz"):
            for i in small:
                for j in small:
                    yield dict(action={"action": a, "start": i, "end": j})
            yield dict(action={"action": a, "start": None, "end": 1})
            yield dict(action={"action": a, "start": 1, "end": None})
            yield dict(action={"action": a, "start": 1})
            yield dict(action={"action": a, "end": 1})
            yield dict(action={"action": a, "start": "s", "end": 1})
        yield dict(action={"action": "Insert"})
        yield dict(action={"action": "Insert", "index": None})
        yield dict(action={})
        yield dict(action=None)
    elif key == "signal012":
        for adj in (-4, -1, 0, 1, 3):
            yield dict(action={"adjust": adj})
        yield dict(action={})
        yield dict(action={"adjust": "s"})
        yield dict(action=None)
    elif key == "inst005":
        for a in ("add", "remove", "zz", None, {"action": "add"}, 1):
            yield dict(action=a)
        yield dict()
    elif key in ("alignCommentAbove", "alignLeftRight"):
        for a in ("insert", "adjust", "zz", None):
            for w in ("", "  ", "\t", "    "):
                yield dict(action={"action": a, "whitespace": w})
            yield dict(action={"action": a})
        yield dict(action={"whitespace": " "})
        yield dict(action=None)
    elif key == "after001":
        for m in (1, 10, "2", -3):
            for u in ("ns", "ps"):
                yield dict(params={"magnitude": m, "units": u})
        yield dict(params={"magnitude": "__del__"})
        yield dict(params={"units": "__del__"})
    elif key == "process029":
        for conv in ("edge", "event", "zz", None):
            for e in ("rising_edge", "falling_edge", "'1'", "'0'", "zz"):
                for clk in ("clk", "CLK_i"):
                    yield dict(action={"convert_to": conv, "edge": e, "clock": clk})
            yield dict(action={"convert_to": conv, "edge": "rising_edge"})
            yield dict(action={"convert_to": conv, "clock": "clk"})
        yield dict(action={})
        yield dict(action=None)
    else:
        yield dict()


NAMED = ["", "a", "w", "n", "k", "B", "ab", "aw", "wa", "an", "ak", "ka", "awb", "anb", "akb", "akn", "aknb", "awknb", "awknwb", "annb", "anwnb", "wanb", "wawb",
         "awwb", "aWnWb", "kab", "akwb", "abk", "abwk", "awbwk", "abwkn", "ankb", "anknb", "apnb", "agnb", "nnn", "www", "wnw", "nwn", "aBb", "anBnb", "anBnwb",
         "a;k", "a;wk", "a;wkn", "wa;wk", "ab;", "a;", ";k", "w;k", "a[t]b", "an[t]nb", "nwa", "nwaw", "na", "nBnwa", "ca", "cwa", "cnwa", "anBnBnb", "aBnb", "anB", "Bnb",
         "abnBnwc", "abwknBnwc", "abnwc", "abnc", "abwnc", "aw", "awc", "awwc", "aWc", "c,W", "kn", "wkn"]


def sym_corpus(tier="quick", seed=1):
    rng = random.Random(seed)
    out = [s for s in NAMED if all(ch in SYM for ch in s)]
    alpha = "abwnk"
    for n in range(0, 5):
        out.extend("".join(x) for x in itertools.product(alpha, repeat=n))
    alpha2 = "abc;wWnBkpg"
    for _ in range(600 if tier == "quick" else 4000):
        n = rng.randint(3, 9)
        out.append("".join(rng.choice(alpha2) for _ in range(n)))
    seen, res = set(), []
    for s in out:
        if s not in seen:
            seen.add(s)
            res.append(s)
    return res


def _synth_work(args):
    key, syms = args
    recs = []
    for sym in syms:
        for kw in cases_for(key, sym):
            recs.append(real_fix(key, sym, **kw))
    mism, n, unm = lean_replay(recs)
    nexc = sum(1 for r in recs if r["exc"])
    return key, n, unm, nexc, mism[:5], len(mism)


def run_synth(tier="quick", seed=1, procs=16):
    import multiprocessing

    setup()
    syms = sym_corpus(tier, seed)
    heavy = ("process026", "process027", "concurrent008", "after002", "multiStruct")
    jobs = []
    for key in OWN:
        ss = syms if key not in heavy else [s for s in syms if len(s) <= 4][:350] + [s for s in syms if len(s) >= 5][:200]
        for i in range(0, len(ss), 100):
            jobs.append((key, ss[i : i + 100]))
    out = {"cases": 0, "unmodelled": 0, "raised": 0, "by_owner": {}, "mismatches": [], "n_mismatch": 0, "token_lists": len(syms)}
    with multiprocessing.Pool(procs) as pool:
        for key, n, unm, nexc, mism, nm in pool.imap_unordered(_synth_work, jobs):
            out["cases"] += n
            out["unmodelled"] += unm
            out["raised"] += nexc
            out["by_owner"][key] = out["by_owner"].get(key, 0) + n
            out["n_mismatch"] += nm
            out["mismatches"].extend(mism)
    out["mismatches"] = out["mismatches"][:20]
    return out


# ------------------------------------------------------------------ (A) per-violation replay on real analyses


def _random_options(row, rng):
    import gen_inputs

    d = {}
    for nm in row["configuration"]:
        if nm in ("phase", "disable", "fixable", "severity", "user_error_message", "indent_style", "indent_size", "exceptions"):
            continue
        vals = gen_inputs.option_values(row, nm)
        if vals and vals != [row["defaults"].get(nm)]:
            d[nm] = rng.choice(vals)
    if row["id"].startswith("after_00") and rng.random() < 0.5:
        d["magnitude"] = rng.choice([1, 2, 10, "5"])
        d["units"] = rng.choice(["ns", "ps"])
    if row["fixVOwner"].endswith(".multiline_structure") and rng.random() < 0.5:
        # not listed in `configuration`, but `configure_rule_attributes` sets any attribute of the rule object
        d["move_last_comment"] = "yes"
    if "exceptions" in row["configuration"] and rng.random() < 0.3:
        d["exceptions"] = ["keep_record_constraint_with_single_element_on_one_line"]
    return d


def _viol_work(job):
    """job = (path, variant, seed).  Returns (n records, by_owner, n_unmodelled, n_raised, mismatches, analysis errors)"""
    import gen_inputs

    st = setup()
    ci = st["ci"]
    path, var, seed = job
    rng = random.Random(seed)
    try:
        text = gen_inputs.variant(gen_inputs.read_text(path), rng, var)
    except Exception:  # noqa: BLE001
        return 0, {}, 0, 0, [], 0
    conf = {"rule": {rid: dict(_random_options(st["rows"][rid], rng), disable=False) for rid in st["family"]}}
    try:
        cla, oConfig = vsgrun.make_config(style=None, conf_dicts=[conf])
        with contextlib.redirect_stdout(io.StringIO()), contextlib.redirect_stderr(io.StringIO()):
            oFile = vsgrun.parse(vsgrun.text_to_lines(text), cla, oConfig)
            rl = vsgrun.new_rule_list(oFile, oConfig)
    except BaseException:  # noqa: BLE001 - unparsable variant
        return 0, {}, 0, 0, [], 0
    recs = []
    aerr = 0
    for rule in rl.rules:
        owner = st["family"].get(rule.unique_id)
        if owner is None:
            continue
        try:
            with contextlib.redirect_stdout(io.StringIO()), contextlib.redirect_stderr(io.StringIO()):
                rule.analyze(oFile)
        except BaseException:  # noqa: BLE001 - crashes of the analysis belong to C19
            aerr += 1
            rule.violations = []
            continue
        for v in rule.violations[::-1]:
            recs.append(run_violation(rule, v, owner, rule.unique_id, ci))
        rule.violations = []
    if not recs:
        return 0, {}, 0, 0, [], aerr
    mism, n, unm = lean_replay(recs)
    by = {}
    for r in recs:
        k = OWNER_KEYS[r["owner"]]
        by[k] = by.get(k, 0) + 1
    for m in mism:
        m["input"] = "%s | variant=%s seed=%d" % (path, var, seed)
    return n, by, unm, sum(1 for r in recs if r["exc"]), mism[:3], aerr


def run_violations(tier="quick", seed=1, procs=16):
    import multiprocessing

    import gen_inputs

    setup()
    files = gen_inputs.corpus_files()
    random.Random(seed).shuffle(files)
    nf = 450 if tier == "quick" else len(files)
    variants = ("orig", "lines", "splitall", "comments", "messy")
    jobs = [(p, v, seed * 100003 + i * 11 + k) for i, p in enumerate(files[:nf]) for k, v in enumerate(variants)]
    out = {"jobs": len(jobs), "violations": 0, "unmodelled": 0, "raised": 0, "by_owner": {}, "mismatches": [], "n_mismatch": 0, "analysis_errors": 0}
    with multiprocessing.Pool(procs) as pool:
        for n, by, unm, nexc, mism, aerr in pool.imap_unordered(_viol_work, jobs, chunksize=4):
            out["violations"] += n
            out["unmodelled"] += unm
            out["raised"] += nexc
            out["analysis_errors"] += aerr
            for k, c in by.items():
                out["by_owner"][k] = out["by_owner"].get(k, 0) + c
            out["n_mismatch"] += len(mism)
            out["mismatches"].extend(mism)
    out["mismatches"] = out["mismatches"][:20]
    return out


if __name__ == "__main__":
    tier = sys.argv[1] if len(sys.argv) > 1 else "quick"
    sd = int(os.environ.get("VERIF_SEED", "1") or 1)
    a = run_synth(tier, sd)
    print(json.dumps(a, indent=1, default=str)[:8000])
    b = run_violations(tier, sd)
    print(json.dumps(b, indent=1, default=str)[:8000])
    sys.exit(1 if a["n_mismatch"] or b["n_mismatch"] else 0)
