"""
Layer B, structure family: SYNTHETIC correspondence, witness replay and self-test.

* `synthetic_records(n, seed)`: hand-built / random token lists and actions pushed through the REAL
  `_fix_violation` of one real rule object per base class of the family (empty lists, index 0 / last,
  negative and out-of-range indices, actions that point at non-whitespace tokens, missing keys …).
  Every case — also those on which the real code raises — is replayed through the Lean driver
  (`bfix` mode); a Python exception must correspond to a Lean `err`, a result to the same token list.
* `witnesses()`: the concrete token lists of the Lean witness theorems (`C02.bfix_bounded_commentLost`,
  `C02.bfix_signal_commentLost`, `C02.bfix_signal_commentAbsorbsCode`, `C02.bfix_port_commentInvented`,
  `C03.bfix_alignMulti_not_layoutOnly`, `C01.bfix_parens_remove_unbalanced`) replayed on the REAL classes,
  plus the real ANALYSIS of `if_002` on the unbalanced witness (the action is what `create_remove_action_dict`
  computes) and file-level reproductions through the real rule objects.
* `selftest()`: monkeypatches real helper functions with plausible bugs (never touching /repo) and
  confirms the correspondence reports them.

Run:  /venv/bin/python harness/bsynth_struct.py [n_per_owner] [seed]
"""
import collections
import copy
import json
import os
import random
import subprocess
import sys

sys.path.insert(0, os.path.dirname(os.path.abspath(__file__)))

import bfix  # noqa: E402
import common  # noqa: E402
import vsgrun  # noqa: E402
from leanio import DRIVER  # noqa: E402

from vsg import parser, rule_list, violation  # noqa: E402
from vsg import token as vtoken  # noqa: E402,F401
from vsg.vhdlFile.extract import tokens as toi_mod  # noqa: E402

_S = {}


def setup():
    if _S:
        return _S
    tables = json.load(open(os.path.join(common.CACHE, "tables.json")))
    _S["tables"] = tables
    _S["ci"] = vsgrun.ClassIndex(tables)
    _S["ncls"] = len(tables["classes"])
    _S["owner"] = {r["id"]: r["fixVOwner"] for r in tables["rules"]}
    import warnings

    warnings.simplefilter("ignore")
    _S["rules"] = {r.unique_id: r for r in rule_list.load_rules()}
    return _S


def tok(cls, value=None):
    """a real token object of class `cls`"""
    import inspect

    n = len(inspect.signature(cls.__init__).parameters) - 1
    return cls() if n == 0 else cls(value if value is not None else "x")


def plain(ts, ci):
    return [(0, ci.of(t), t.get_value(), ()) for t in ts]


def run_real(rule, toks, action, token_value=None, attrs=None):
    """one call of the real `_fix_violation`; returns (params, action_data, old, new | None, exc | None)"""
    S = setup()
    ci = S["ci"]
    saved = {}
    for k, v in (attrs or {}).items():
        saved[k] = getattr(rule, k, None)
        setattr(rule, k, v)
    try:
        lTokens = list(toks)
        oToi = toi_mod.New(0, 1, lTokens)
        if token_value is not None:
            oToi.set_token_value(token_value)
        v = violation.New(1, oToi, "synthetic")
        if action is not None:
            v.set_action(action)
        rule.violations = [v]
        old = plain(lTokens, ci)
        params = vsgrun.rule_params(rule, ci)
        adata = vsgrun.harvest_action(v, ci)
        exc = None
        new = None
        try:
            rule._fix_violation(v)
            new = plain(v.get_tokens(), ci)
        except (IndexError, KeyError, TypeError, AttributeError, ValueError) as e:
            exc = type(e).__name__
        return params, adata, old, new, exc
    finally:
        rule.violations = []
        for k, v0 in saved.items():
            setattr(rule, k, v0)


# ------------------------------------------------------------------ case generators


def pool_for(rule):
    """token factories relevant for a rule: its parameter classes plus the generic ones"""
    from vsg.token import architecture_body, case_statement, interface_list, interface_unknown_declaration, signal_declaration

    fs = [
        lambda: parser.whitespace(" "),
        lambda: parser.whitespace("   "),
        lambda: parser.carriage_return(),
        lambda: parser.comment("-- c"),
        lambda: parser.blank_line(),
        lambda: parser.open_parenthesis(),
        lambda: parser.close_parenthesis(),
        lambda: parser.todo("a"),
        lambda: parser.todo("b"),
        lambda: architecture_body.semicolon(),
        lambda: interface_list.semicolon(),
        lambda: signal_declaration.identifier("s1"),
        lambda: signal_declaration.comma(",") if hasattr(signal_declaration, "comma") else parser.comma(","),
        lambda: interface_unknown_declaration.identifier("p1"),
        lambda: case_statement.case_label("lbl"),
    ]
    import inspect

    for k, v in rule.__dict__.items():
        vals = v if isinstance(v, (list, tuple)) else [v]
        for x in vals:
            if inspect.isclass(x) and issubclass(x, parser.item):
                fs.append(lambda x=x: tok(x, "end" if "end" in x.__name__ else "v"))
                fs.append(lambda x=x: tok(x, "end" if "end" in x.__name__ else "v"))
    return fs


def rand_toks(rng, fs, lo=0, hi=7):
    return [rng.choice(fs)() for _ in range(rng.randint(lo, hi))]


def rint(rng):
    return rng.choice([-9, -3, -2, -1, 0, 0, 1, 1, 2, 2, 3, 4, 5, 8])


REPRESENTATIVE = {
    # owner short name -> rule ids exercised
    "nextTo": ["architecture_024", "process_018", "function_018", "record_type_definition_005", "package_body_003"],
    "rightOf": ["architecture_010", "component_021", "package_007"],
    "rightOfPossible": ["process_012", "block_002"],
    "leftOf": ["instantiation_033"],
    "tokensRightOf": ["package_body_002"],
    "generate011": ["generate_011"],
    "bounded": ["case_019", "concurrent_005"],
    "removeTokens": ["case_020"],
    "removeComments": ["component_019", "port_map_010"],
    "if002": ["if_002"],
    "signal015": ["signal_015"],
    "port026": ["port_026"],
    "multiAlign": ["concurrent_003", "if_009"],
    "alignConsecutive": ["assert_400", "case_011"],
    "arrayAlign": ["constant_012"],
    "condAlign": ["concurrent_009"],
}


def gen_cases(fam, rule, rng, n):
    """yields (toks, action, token_value, attrs)"""
    fs = pool_for(rule)
    for _ in range(n):
        toks = rand_toks(rng, fs)
        if fam == "nextTo":
            yield toks, None, rng.choice([None, "rtl", "RTL", "Foo"]), {"action": rng.choice(["add", "add", "remove"])}
        elif fam == "rightOf":
            yield toks, None, None, {"action": rng.choice(["add", "add", "remove"])}
        elif fam == "rightOfPossible":
            a = rng.choice([None, {}, {"whitespace": rng.random() < 0.5, "carriage_return": rng.random() < 0.5}, {"whitespace": True}])
            yield toks, a, None, {"action": rng.choice(["add", "add", "add", "remove"])}
        elif fam == "leftOf":
            yield toks, rng.choice([{"index": rint(rng)}, {"index": rint(rng)}, {}]), None, {"action": rng.choice(["add", "add", "remove"])}
        elif fam == "tokensRightOf":
            yield toks, rng.choice([None, {"iStartIndex": rint(rng), "iEndIndex": rint(rng)}, {"iStartIndex": 1, "iEndIndex": 4}]), None, {"action": rng.choice(["add", "remove", "remove"])}
        elif fam == "generate011":
            from vsg.token import for_generate_statement

            a = rng.choice([{"label": for_generate_statement.end_generate_label("g1")}, {"label": parser.comment("-- x")}, {}])
            yield toks, a, None, {"action": rng.choice(["add", "add", "remove"])}
        elif fam in ("bounded", "removeTokens", "removeComments"):
            yield toks, None, None, {}
        elif fam == "if002":
            mode = rng.choice(["insert", "remove", "remove"])
            if mode == "insert":
                yield toks, {"action": "insert"}, None, {"parenthesis": "insert"}
            else:
                n_ = len(toks)
                a = {
                    "action": "remove",
                    "left_remove": rng.choice([[0], [0, 1], [1], [rint(rng)], []]),
                    "left_insert": rng.choice([[], [parser.whitespace(" ")]]),
                    "right_remove": rng.choice([[n_ - 1], [n_ - 1, n_ - 2], [n_ - 2], [rint(rng)], []]),
                    "right_insert": rng.choice([[], [parser.whitespace(" ")]]),
                }
                if rng.random() < 0.1:
                    a.pop(rng.choice(["left_remove", "right_insert"]))
                yield toks, a, None, {"parenthesis": "remove"}
        elif fam == "signal015":
            from vsg.token import signal_declaration

            k = rng.randint(0, 3)
            ids = [signal_declaration.identifier("i%d" % j) for j in range(k)]
            a = {"start": rint(rng), "end": rint(rng), "number": k, "identifiers": ids}
            if rng.random() < 0.5 and toks:
                s = rng.randrange(len(toks))
                a["start"] = s
                a["end"] = rng.randint(s, len(toks) - 1)
            if rng.random() < 0.05:
                a.pop("end")
            yield toks, a, None, {}
        elif fam == "port026":
            k = rng.randint(0, 3)
            idx = [rint(rng) if rng.random() < 0.3 or not toks else rng.randrange(len(toks)) for _ in range(k)]
            a = {"last_element": rng.random() < 0.5, "identifier_indexes": idx, "split_index": rint(rng)}
            if rng.random() < 0.05:
                a.pop("split_index")
            yield toks, a, None, {}
        elif fam == "multiAlign":
            a = rng.choice([{"line": 3, "column": " " * rng.randint(0, 6), "action": rng.choice(["adjust", "insert"])}, {"column": "\t ", "action": "adjust"}, {"action": "insert"}, {}])
            yield toks, a, None, {}
        elif fam in ("alignConsecutive", "arrayAlign"):
            a = rng.choice([{"column": 4, "whitespace": " " * rng.randint(0, 6), "action": rng.choice(["adjust", "insert", "other"])}, {"action": "adjust"}, {}])
            yield toks, a, None, {}
        elif fam == "condAlign":
            a = rng.choice(
                [
                    {"type": "when", "adjust": rng.randint(-4, 4)},
                    {"type": "else", "adjust": rng.randint(-4, 4)},
                    {"type": "indent", "action": rng.choice(["adjust", "insert"]), "column": " " * rng.randint(0, 5)},
                    {"type": "other"},
                    {"type": "when"},
                    {},
                ]
            )
            yield toks, a, None, {}


def synthetic_records(n_per_rule=150, seed=1):
    S = setup()
    rng = random.Random("bsynth/%s" % seed)
    recs = []
    for fam, ids in REPRESENTATIVE.items():
        for rid in ids:
            rule = S["rules"][rid]
            for toks, action, tv, attrs in gen_cases(fam, rule, rng, n_per_rule):
                params, adata, old, new, exc = run_real(rule, toks, action, tv, attrs)
                recs.append({"fam": fam, "owner": S["owner"][rid], "rule": rid, "params": params, "action": adata, "old": old, "new": new, "exc": exc})
    return recs


# ------------------------------------------------------------------ replay through Lean


def replay(recs):
    """returns (n_ok_results, n_exceptions, per_family counts, mismatches)"""
    S = setup()
    ncls = S["ncls"]
    inp = "".join("%s\t%s\t%s\t%s\n" % (r["owner"], bfix.enc_kv(r["params"]), bfix.enc_kv(r["action"]), bfix.enc_plain_toks(r["old"], ncls)) for r in recs)
    cp = subprocess.run([DRIVER, "bfix"], input=inp, stdout=subprocess.PIPE, text=True, encoding="utf-8")
    lines = cp.stdout.split("\n")
    fam = collections.Counter()
    mism = []
    nok = nexc = 0
    for k, r in enumerate(recs):
        line = lines[k] if k < len(lines) else "error missing reply"
        if r["exc"] is not None:
            nexc += 1
            fam[r["fam"] + "/raises"] += 1
            if not line.startswith("err"):
                mism.append({"rule": r["rule"], "real": "raises " + r["exc"], "lean": line[:200], "action": r["action"], "old": [(t[1], t[2]) for t in r["old"]]})
            continue
        nok += 1
        real_new = [(t[1] if t[1] >= 0 else ncls, t[2]) for t in r["new"]]
        changed = [(t[1], t[2]) for t in r["old"]] != [(t[1], t[2]) for t in r["new"]]
        fam[r["fam"] + ("/changed" if changed else "/same")] += 1
        if not line.startswith("ok"):
            mism.append({"rule": r["rule"], "real": real_new, "lean": line[:200], "action": r["action"], "old": [(t[1], t[2]) for t in r["old"]]})
        elif bfix.dec_plain_toks(line[3:]) != real_new:
            mism.append({"rule": r["rule"], "real": real_new, "lean": bfix.dec_plain_toks(line[3:]), "action": r["action"], "old": [(t[1], t[2]) for t in r["old"]]})
    return nok, nexc, dict(fam), mism


# ------------------------------------------------------------------ witnesses on the real classes


def witnesses():
    """list of (name, ok, detail)"""
    S = setup()
    from vsg.token import case_statement, identifier_list, interface_unknown_declaration, mode, signal_declaration, type_mark

    out = []
    R = S["rules"]

    def vals(new):
        return [t[2] for t in new]

    def kinds(ts):
        return [(S["ci"].kind[t[1]] if t[1] >= 0 else "code") for t in ts]

    recs = []

    def case(name, fam, rid, toks, action, attrs, expect):
        params, adata, old, new, exc = run_real(R[rid], toks, action, None, attrs)
        recs.append({"fam": fam, "owner": S["owner"][rid], "rule": rid, "params": params, "action": adata, "old": old, "new": new, "exc": exc})
        ok = exc is None and expect(old, new)
        out.append((name, ok, "old=%r new=%r exc=%r" % (vals(old), vals(new) if new is not None else None, exc)))

    w = lambda: parser.whitespace(" ")  # noqa: E731
    cr = parser.carriage_return
    # C03.bfix_alignMulti_not_layoutOnly: adjust rewrites a code token
    case("alignMulti adjust rewrites a code token (C03.bfix_alignMulti_not_layoutOnly)", "multiAlign", "concurrent_003", [parser.todo("a"), parser.todo("b")], {"action": "adjust", "column": "  "}, {}, lambda o, n: vals(n) == ["  ", "b"])
    # C02.bfix_bounded_commentLost
    case(
        "label remover deletes the comment between label and colon (C02.bfix_bounded_commentLost)",
        "bounded",
        "case_019",
        [case_statement.case_label("lbl"), cr(), parser.comment("-- c"), cr(), tok(case_statement.label_colon, ":"), w()],
        None,
        {},
        lambda o, n: n == [],
    )
    a = signal_declaration.identifier("a")
    b = signal_declaration.identifier("b")
    sig_tail = lambda: [w(), signal_declaration.colon(":"), w(), type_mark.name("bit"), signal_declaration.semicolon(";")]  # noqa: E731
    comma = identifier_list.comma
    case(
        "signal_015 drops the comment between identifiers (C02.bfix_signal_commentLost)",
        "signal015",
        "signal_015",
        [signal_declaration.signal_keyword("signal"), w(), a, comma(","), w(), parser.comment("-- c"), cr(), b] + sig_tail(),
        {"start": 2, "end": 7, "number": 2, "identifiers": [a, b]},
        {},
        lambda o, n: "-- c" in vals(o) and "-- c" not in vals(n),
    )
    a2 = signal_declaration.identifier("a")
    b2 = signal_declaration.identifier("b")
    case(
        "signal_015 repeats a leading comment and lets it swallow code (C02.bfix_signal_commentAbsorbsCode)",
        "signal015",
        "signal_015",
        [signal_declaration.signal_keyword("signal"), w(), parser.comment("-- c"), cr(), a2, comma(","), w(), b2] + sig_tail(),
        {"start": 4, "end": 7, "number": 2, "identifiers": [a2, b2]},
        {},
        lambda o, n: vals(n).count("-- c") == 2 and kinds(n)[vals(n).index("-- c") + 1] != "cr",
    )
    case(
        "port_026 duplicates the trailing comment (C02.bfix_port_commentInvented)",
        "port026",
        "port_026",
        [interface_unknown_declaration.identifier("a"), identifier_list.comma(","), w(), interface_unknown_declaration.identifier("b"), w(), interface_unknown_declaration.colon(":"), w(), mode.in_keyword("in"), w(), type_mark.name("bit"), w(), parser.comment("-- c")],
        {"last_element": False, "identifier_indexes": [0, 3], "split_index": 4},
        {},
        lambda o, n: vals(n).count("-- c") == 2,
    )
    # C01.bfix_parens_remove_unbalanced: the action is computed by the REAL analysis
    import importlib

    if002 = importlib.import_module("vsg.rules.if_statement.rule_002")
    if not hasattr(if002, "enclosing_parens_found"):
        if002 = sys.modules["vsg.rules.if_statement.rule_002"]

    toks = [cr(), parser.open_parenthesis(), parser.todo("a"), parser.close_parenthesis(), w()]
    act = if002.create_remove_action_dict(toks) if if002.enclosing_parens_found(toks) else None
    ok_act = act is not None and act["left_remove"] == [0] and act["right_remove"] == [3] and len(act["left_insert"]) == 1 and act["right_insert"] == []
    out.append(("if_002 real analysis records the line break index for `if<CR>(a) then`", ok_act, repr({k: v for k, v in (act or {}).items() if "insert" not in k})))
    if act is not None:
        case("if_002 remove deletes the line break and the CLOSING parenthesis (C01.bfix_parens_remove_unbalanced)", "if002", "if_002", toks, act, {"parenthesis": "remove"}, lambda o, n: vals(n) == [" ", "(", "a", " "])
    toks = [parser.open_parenthesis(), parser.todo("a"), parser.close_parenthesis(), cr()]
    act = if002.create_remove_action_dict(toks) if if002.enclosing_parens_found(toks) else None
    ok_act = act is not None and act["left_remove"] == [0] and act["right_remove"] == [3]
    out.append(("if_002 real analysis records the line break index for `if (a)<CR>then`", ok_act, repr({k: v for k, v in (act or {}).items() if "insert" not in k})))
    if act is not None:
        case("if_002 remove deletes the OPENING parenthesis and the line break (C01.bfix_parens_remove_unbalanced_end)", "if002", "if_002", toks, act, {"parenthesis": "remove"}, lambda o, n: vals(n) == [" ", "a", ")", " "])
    nok, nexc, fam, mism = replay(recs)
    out.append(("witness cases replayed through Lean: model == real", not mism, "replayed=%d mismatches=%r" % (nok + nexc, mism[:2])))
    # file level, through the real rule objects
    sys.path.insert(0, "/tmp")

    def run_rule(text, rid, conf=None):
        cla, oc = vsgrun.make_config(style=None, conf_dicts=[conf] if conf else [])
        o = vsgrun.parse(vsgrun.text_to_lines(text), cla, oc)
        rl = vsgrun.new_rule_list(o, oc)
        r = next(r for r in rl.rules if r.unique_id == rid)
        r.fix(o, None)
        return "\n".join(o.get_lines()[1:])

    t = "architecture rtl of e is\nbegin\n  process (clk) is\n  begin\n    if\n(a = b) then\n      x <= '1';\n    end if;\n  end process;\nend architecture rtl;\n"
    res = run_rule(t, "if_002", {"rule": {"if_002": {"parenthesis": "remove"}}})
    out.append(("FILE: if_002 parenthesis=remove on `if<CR>(a = b) then` yields unbalanced `if (a = b then`", "if (a = b then" in res, res.split("\n")[4]))
    t = "architecture rtl of e is\nbegin\n  process (clk) is\n  begin\n    if (a = b)\nthen\n      x <= '1';\n    end if;\n  end process;\nend architecture rtl;\n"
    res = run_rule(t, "if_002", {"rule": {"if_002": {"parenthesis": "remove"}}})
    out.append(("FILE: if_002 parenthesis=remove on `if (a = b)<CR>then` yields unbalanced `if a = b) then`", "if a = b) then" in res, res.split("\n")[4]))
    t = "architecture rtl of e is\n  signal a, -- first\n    b : bit;\nbegin\nend architecture rtl;\n"
    res = run_rule(t, "signal_015", {"rule": {"signal_015": {"consecutive": 1}}})
    out.append(("FILE: signal_015 loses the comment between identifiers", "-- first" not in res, repr(res.split("\n")[1:3])))
    t = "architecture rtl of e is\n  signal -- lead\n    a, b : bit;\nbegin\nend architecture rtl;\n"
    res = run_rule(t, "signal_015", {"rule": {"signal_015": {"consecutive": 1}}})
    out.append(("FILE: signal_015 leading comment swallows the declaration", "-- lead    a : bit;" in res.replace("  ", "  ") or "-- lead" in res and "a : bit" in res.split("-- lead")[1].split("\n")[0], repr(res.split("\n")[1:3])))
    t = "entity e is\n  port (\n    a, b : in bit -- tail\n    ;\n    c : in bit\n  );\nend entity e;\n"
    res = run_rule(t, "port_026")
    out.append(("FILE: port_026 duplicates the comment that precedes the `;`", res.count("-- tail") == 2, repr(res.split("\n")[2:6])))
    t = "entity e is\n  port (\n    a, -- x\n    b : in bit;\n    c : in bit\n  );\nend entity e;\n"
    res = run_rule(t, "port_026")
    out.append(("FILE: port_026 loses a comment inside the identifier list", "-- x" not in res, repr(res.split("\n")[2:4])))
    t = "architecture rtl of e is\nbegin\n  process is\n  begin\n    lbl\n-- c\n: case a is\n      when others => null;\n    end case;\n  end process;\nend architecture rtl;\n"
    try:
        res = run_rule(t, "case_019")
        out.append(("FILE: case_019 deletes the own-line comment between label and colon", "-- c" not in res, repr(res.split("\n")[4:6])))
    except Exception as e:  # noqa: BLE001
        out.append(("FILE: case_019 (parse)", False, repr(e)))
    return out


# ------------------------------------------------------------------ self-test


def selftest():
    """plausible bugs in the real helpers must show up as mismatches"""
    from vsg.rules import utils as rules_utils
    from vsg.vhdlFile import utils as vutils

    results = []

    def with_patch(mod, name, fn, fams):
        real = getattr(mod, name)
        setattr(mod, name, fn)
        try:
            recs = [r for r in synthetic_records(60, seed=7) if r["fam"] in fams]
            _, _, _, mism = replay(recs)
        finally:
            setattr(mod, name, real)
        return len(recs), len(mism)

    def bad_remove_optional_item(oViolation, oInsertToken=None):
        lTokens = oViolation.get_tokens()
        oViolation.set_tokens([lTokens[0]])  # bug: keeps a leading whitespace token

    n, m = with_patch(rules_utils, "remove_optional_item", bad_remove_optional_item, {"rightOf", "leftOf", "generate011"})
    results.append(("remove_optional_item keeps the whitespace", n, m))

    real_iw = rules_utils.insert_whitespace

    def bad_insert_whitespace(lTokens, index, num=1, sString=" "):
        return real_iw(lTokens, index + 1, num, sString)  # bug: off by one

    n, m = with_patch(rules_utils, "insert_whitespace", bad_insert_whitespace, {"rightOf", "leftOf", "nextTo", "rightOfPossible"})
    results.append(("insert_whitespace off by one", n, m))

    def bad_rcw(lTokens):
        return [t for k, t in enumerate(lTokens) if not (k > 0 and isinstance(t, parser.whitespace))]  # bug: drops every later whitespace

    n, m = with_patch(vutils, "remove_consecutive_whitespace_tokens", bad_rcw, {"removeTokens", "tokensRightOf"})
    results.append(("remove_consecutive_whitespace_tokens drops too much", n, m))

    def bad_rcr(lTokens):
        return list(lTokens)  # bug: keeps the line breaks

    n, m = with_patch(vutils, "remove_carriage_returns_from_token_list", bad_rcr, {"signal015"})
    results.append(("signal_015 keeps carriage returns", n, m))
    return results


def main():
    import gen_tables

    gen_tables.generate()
    n = int(sys.argv[1]) if len(sys.argv) > 1 else 150
    seed = int(sys.argv[2]) if len(sys.argv) > 2 else 1
    recs = synthetic_records(n, seed)
    nok, nexc, fam, mism = replay(recs)
    print("synthetic cases: %d (results %d, real exceptions %d), mismatches %d" % (len(recs), nok, nexc, len(mism)))
    print(json.dumps(fam, sort_keys=True))
    for m in mism[:10]:
        print("MISMATCH", json.dumps(m, default=str)[:1200])
    rc = 1 if mism else 0
    for name, ok, detail in witnesses():
        print(("WITNESS ok   " if ok else "WITNESS FAIL ") + name + " :: " + detail[:300])
        if not ok:
            rc = 1
    for name, n_, m_ in selftest():
        print("SELFTEST %-55s cases=%d mismatches=%d %s" % (name, n_, m_, "detected" if m_ > 0 else "NOT DETECTED"))
        if m_ == 0:
            rc = 1
    return rc


if __name__ == "__main__":
    sys.exit(main())
