"""
Correspondence of the Lean model of the CASE family's analysis (lean/VsgModel/Base/Case.lean, driver
mode `caseu`) with the real code:

  C  vsg.rules.case_utils.check_for_case_violation           on (value, parameters, flags, index)
  A  token_case_formal_part_of_association_element_in_map_between_tokens._analyze   on token lists
  F  vsg.rules.consistent_case_utils.create_tois             (value choice; real function, stub file)
  M  consistent_interface_token_case.validate_interface_name_in_token_list (real function)
  X  hand-built token lists through the REAL `_fix_violation` of the five owners vs driver `bfix`
     (index 0 / last / negative / out of range, None values, empty lists, literals)

and a search for property-failing inputs on the real code (value changed in more than letter case,
length changed, extended identifier touched, crashes).  Nothing of case_utils is re-implemented
here: the real functions are called with stub `self` objects carrying the attributes they read.
"""
import itertools
import multiprocessing
import os
import re
import sys
import types

sys.path.insert(0, os.path.dirname(os.path.abspath(__file__)))

import common  # noqa: E402
import gen_inputs  # noqa: E402
from leanio import Driver, dec_str, enc_str  # noqa: E402

import importlib  # noqa: E402

for _m in ("port_map_aspect", "generic_map_aspect", "association_element", "association_list", "component_instantiation_statement", "signal_declaration"):
    importlib.import_module("vsg.token." + _m)  # `vsg.token` has an empty __init__
import vsg.rules  # noqa: E402,F401


def rmod(name):
    """the MODULE vsg.rules.<name> (vsg.rules re-exports some classes under their module's name)"""
    return sys.modules.get("vsg.rules." + name) or importlib.import_module("vsg.rules." + name)


def rcls(name):
    return getattr(rmod(name), name)

STYLES = ["lower", "upper", "upper_or_lower", "camelCase", "relaxedCamelCase", "PascalCase", "RelaxedPascalCase", "Pascal_Snake_Case", "regex"]
REGEXES = ["[A-Z][a-z0-9_]*", "[a-z]+_[A-Z]+", ".*", "", "(?i)abc.*"]
ERR = {"KeyError": "keyError", "TypeError": "typeError", "ValueError": "valueError", "IndexError": "indexError", "AttributeError": "attributeError"}


def enc_s(s):
    return "e" if s == "" else enc_str(s)


def dec_s(s):
    return "" if s == "e" else dec_str(s)


def enc_l(l):
    return "-" if not l else ",".join(enc_s(x) for x in l)


# ------------------------------------------------------------------ the real side


def stub_rule(name, case, prefixes, suffixes, exceptions, regex=""):
    rules_utils = rmod("utils")
    o = types.SimpleNamespace()
    o.name = name
    o.case = case
    o.prefix_exceptions = list(prefixes)
    o.suffix_exceptions = list(suffixes)
    o.case_exceptions = list(exceptions)
    o.case_exceptions_lower = rules_utils.lowercase_list(o.case_exceptions)  # what _get_tokens_of_interest does
    o.regex = regex
    o.oRegex = re.compile(regex)  # what _analyze does
    o.violations = []
    o.add_violation = o.violations.append
    return o


def real_check(c):
    """c: dict name case prefixes suffixes exceptions regex cp cs value index  →  result string in
    the driver's format"""
    from vsg import parser
    from vsg.vhdlFile.extract import tokens as toi

    case_utils = rmod("case_utils")
    idx = c["index"]
    toks = [parser.item("pad%d" % i) for i in range(idx)] + [parser.item(c["value"])]
    oToi = toi.New(0, 1, toks)
    rule = stub_rule(c["name"], c["case"], c["prefixes"], c["suffixes"], c["exceptions"], c.get("regex", ""))
    try:
        v = case_utils.check_for_case_violation(oToi, rule, c["cp"], c["cs"], False, idx, None)
    except Exception as e:  # noqa: BLE001
        return "err " + lean_err(e)
    if v is None:
        return "none"
    a = v.get_action()
    return "some %s %d" % ("n" if a["value"] is None else "s" + enc_s(a["value"]), a["index"])


def lean_err(e):
    n = type(e).__name__
    if n == "KeyError":
        return 'Vsgm.Base.PyErr.keyError "%s"' % e.args[0]
    return "Vsgm.Base.PyErr." + ERR.get(n, n)


def regex_matches(c):
    """the words the user regex full-matches among all substrings of the value (what the model's
    `fullmatch "regex"` is answered from)"""
    if c["case"] != "regex":
        return []
    rx = re.compile(c.get("regex", ""))
    v = c["value"]
    subs = {v[i:j] for i in range(len(v) + 1) for j in range(i, len(v) + 1)}
    return sorted(s for s in subs if rx.fullmatch(s) is not None)


def wire_check(c):
    return "\t".join(["C", enc_s(c["name"]), c["case"], enc_l(c["prefixes"]), enc_l(c["suffixes"]), enc_l(c["exceptions"]), enc_l(regex_matches(c)), "1" if c["cp"] else "0", "1" if c["cs"] else "0", enc_s(c["value"]), str(c["index"])])


# ------------------------------------------------------------------ samples

SYNTH_VALUES = [
    "", "a", "A", "abc", "ABC", "Abc", "aBC", "abC", "a1", "A1", "1a", "_", "__", "a_b", "A_B", "A_b", "i_i", "I_I", "i_", "_i", "I_X_O", "c_Foo_t", "C_FOO_T", "C_foo_T",
    "fooBar", "FooBar", "FOOBar", "fooBAR", "foo_Bar", "Foo_Bar", "Foo_bar", "FooB", "fooB", "fOO", "F", "f", "X9", "x9Y", "Ab1Cd2", "AB", "ABc", "aBc1D",
    '"abc"', '"ABC"', "'a'", "'A'", "\\Abc\\", "\\ABC\\", "\\a b\\", '"', "'", "\\", 'x"Ab"', 'X"FF"', "16#Ab#", "1e5", "1E5", "0", "12_3",
    "straße", "STRASSE", "ß", "µm", "Ärger", "ÄRGER", "ärger", "ÿ", "Ÿ", "ǅ", "ǆ", "ǄX", "İx", "i̇x", "ıd", "ID", "ﬁx", "FIx", "ŉ", "K", "k", "K", "Å", "å",
    "abc def", " a", "a ", "a\tb", "a-b", "a.b", "a(0)", "work.pkg", "é", "É", "日本", "a日B", "ΑΒΓ", "αβγ",
]
CAPITAL_SIGMA = ["ΑΣ", "Σ", "σ", "ς", "ΑΣΒ"]


def corpus_values(limit=None):
    """distinct words of the corpus (identifiers, keywords, literals as the real tokenizer cuts them)"""
    from vsg import tokens

    seen = set()
    for p in gen_inputs.corpus_files():
        try:
            text = gen_inputs.read_text(p)
        except OSError:
            continue
        for line in text.split("\n"):
            if "--" in line:
                line = line.split("--")[0]
            if not line.strip():
                continue
            try:
                for t in tokens.create(line.rstrip("\r")):
                    if t and not t.isspace() and len(t) < 60:
                        seen.add(t)
            except Exception:  # noqa: BLE001
                pass
    out = sorted(seen)
    if limit:
        common.rng("corpus-values").shuffle(out)
        out = out[:limit]
    return out


def flip(s, rng):
    return "".join((c.upper() if rng.random() < 0.5 else c.lower()) if len(c.upper()) == 1 and len(c.lower()) == 1 else c for c in s)


def param_sets_for(v, rng, full):
    """parameter settings aimed at value v: exception lists cut from v itself in other spellings"""
    out = []
    n = len(v)
    cuts = sorted({0, 1, 2, n // 2, max(n - 2, 0), max(n - 1, 0), n, n + 1})
    pre_cands = [[]]
    suf_cands = [[]]
    for k in cuts:
        if k <= n:
            pre_cands.append([flip(v[:k], rng)])
            suf_cands.append([flip(v[n - k :], rng)])
    pre_cands.append(["zz_", flip(v[:1], rng), flip(v[:2], rng)])
    suf_cands.append(["_zz", flip(v[-1:], rng), flip(v[-2:], rng)])
    pre_cands.append([v + "x"])
    suf_cands.append(["x" + v])
    exc_cands = [[], [v], [flip(v, rng)], [flip(v, rng), v], [v.upper(), v.lower(), v], ["other", v.swapcase()]]
    if not full:
        pre_cands = rng.sample(pre_cands, min(3, len(pre_cands)))
        suf_cands = rng.sample(suf_cands, min(3, len(suf_cands)))
        exc_cands = rng.sample(exc_cands, 2)
    for pre, suf, exc in itertools.product(pre_cands, suf_cands, exc_cands):
        out.append((pre, suf, exc))
    return out


def make_checks(values, rng, full, styles=STYLES):
    checks = []
    for v in values:
        for pre, suf, exc in param_sets_for(v, rng, full):
            sts = styles if full else rng.sample(styles, 3)
            for case in sts:
                c = {"name": "bit_string_literal" if rng.random() < 0.15 else "signal", "case": case, "prefixes": pre, "suffixes": suf, "exceptions": exc, "cp": bool(pre), "cs": bool(suf), "value": v, "index": rng.choice([0, 0, 0, 1, 3])}
                if case == "regex":
                    c["regex"] = rng.choice(REGEXES)
                if rng.random() < 0.05:
                    # flags that do not follow from the lists (direct callers may pass anything)
                    c["cp"] = not c["cp"]
                if rng.random() < 0.05:
                    c["cs"] = not c["cs"]
                if rng.random() < 0.01:
                    c["case"] = "Upper"  # not a key of dCase
                checks.append(c)
    return checks


# ------------------------------------------------------------------ running both sides


def _run_chunk(chunk):
    drv = Driver("caseu")
    for c in chunk:
        drv.send(wire_check(c))
    drv.flush()
    drv.p.stdin.close()
    res = []
    for c in chunk:
        lean = drv.p.stdout.readline().rstrip("\n")
        real = real_check(c)
        res.append((c, real, lean))
    drv.p.wait()
    return res


def classify(c, real):
    """property judgement of one REAL result (None = nothing to say)"""
    if real.startswith("err"):
        kind = real.split(".")[-1].split(" ")[0]
        # KeyError for a `case` value that is not a key of dCase is a configuration error, not a crash of interest
        if kind == "keyError":
            return None
        return ("C19", "case_utils", kind)
    if not real.startswith("some s"):
        return None
    e = dec_s(real.split(" ")[1][1:])
    v = c["value"]
    import props_bcase

    k = props_bcase.judge_value_change(v, e, "bit_value_string" if c["name"] == "bit_string_literal" else "item")
    if k is None:
        return None
    return (k[0], "case_utils", k[1])


def run_checks(checks, procs=16):
    """returns dict: n, nontrivial, mismatches [(c, real, lean)], unmodelled, findings {key: [examples]}"""
    chunks = [checks[i : i + 2000] for i in range(0, len(checks), 2000)]
    out = {"n": 0, "nontrivial": 0, "mismatches": [], "unmodelled": 0, "findings": {}, "by_result": {}}
    with multiprocessing.Pool(procs) as pool:
        for res in pool.imap_unordered(_run_chunk, chunks):
            for c, real, lean in res:
                out["n"] += 1
                k = real.split(" ")[0] + ("" if not real.startswith("some") else (" n" if real.split(" ")[1] == "n" else " s"))
                out["by_result"][k] = out["by_result"].get(k, 0) + 1
                if real != "none":
                    out["nontrivial"] += 1
                if lean == "unmodelled":
                    out["unmodelled"] += 1
                elif lean != real:
                    if len(out["mismatches"]) < 20:
                        out["mismatches"].append((c, real, lean))
                    else:
                        out["mismatches"].append(None)
                f = classify(c, real)
                if f is not None:
                    # keep the simplest witness (fewest / shortest exception-list entries, then shortest value)
                    size = (sum(len(x) + 1 for k in ("prefixes", "suffixes", "exceptions") for x in c[k]), len(c["value"]), c["value"])
                    cur = out["findings"].get(f)
                    if cur is None or size < cur[0]["size"]:
                        out["findings"][f] = [{"check": c, "real": real if not real.startswith("some s") else "value " + repr(dec_s(real.split(" ")[1][1:])), "size": size}]
    return out


# ------------------------------------------------------------------ formal part `_analyze` (A)


def formal_classes(tables):
    by = {r["name"]: r["idx"] for r in tables["classes"]}
    return {
        "port": (by["vsg.token.port_map_aspect.open_parenthesis"], by["vsg.token.port_map_aspect.close_parenthesis"]),
        "generic": (by["vsg.token.generic_map_aspect.open_parenthesis"], by["vsg.token.generic_map_aspect.close_parenthesis"]),
        "formal": by["vsg.token.association_element.formal_part"],
        "assign": by["vsg.token.association_element.assignment"],
    }


def formal_samples(tables, rng, n):
    """token lists over the classes the loop looks at: real token objects + wire form"""
    from vsg import parser, token

    fc = formal_classes(tables)
    by = {r["name"]: r["idx"] for r in tables["classes"]}
    palette = [
        (token.port_map_aspect.open_parenthesis, "("),
        (token.port_map_aspect.close_parenthesis, ")"),
        (token.generic_map_aspect.open_parenthesis, "("),
        (token.generic_map_aspect.close_parenthesis, ")"),
        (token.association_element.formal_part, None),
        (token.association_element.formal_part, None),
        (token.association_element.assignment, "=>"),
        (token.association_element.actual_part, None),
        (token.association_list.comma, ","),
        (parser.whitespace, " "),
        (parser.carriage_return, None),
        (token.component_instantiation_statement.instantiation_label, None),
    ]
    words = ["Clk", "CLK", "clk", "I_Data_o", "rst_N", "a", "DATA", "Data", "'x'", '"S"', "\\Ext\\", "straße"]
    out = []
    for _ in range(n):
        kind = rng.choice(["port", "generic"])
        toks = []
        if rng.random() < 0.6:
            # a well-formed map aspect, then perturbed
            ms, me = (token.port_map_aspect, token.port_map_aspect) if kind == "port" else (token.generic_map_aspect, token.generic_map_aspect)
            toks.append(token.component_instantiation_statement.instantiation_label(rng.choice(words)))
            toks.append(parser.whitespace(" "))
            toks.append(ms.open_parenthesis("("))
            for _ in range(rng.randint(0, 4)):
                toks.append(token.association_element.formal_part(rng.choice(words)))
                if rng.random() < 0.3:
                    toks.append(token.association_element.formal_part(rng.choice(words)))
                toks.append(token.association_element.assignment("=>"))
                toks.append(token.association_element.actual_part(rng.choice(words)))
                toks.append(token.association_list.comma(","))
                if rng.random() < 0.3:
                    toks.append(parser.carriage_return())
            toks.append(me.close_parenthesis(")"))
            toks.append(token.association_element.formal_part(rng.choice(words)))
            for _ in range(rng.randint(0, 2)):
                if toks and rng.random() < 0.5:
                    toks.pop(rng.randrange(len(toks)))
                else:
                    cls, val = rng.choice(palette)
                    toks.insert(rng.randint(0, len(toks)), cls() if cls is parser.carriage_return else cls(val if val is not None else rng.choice(words)))
        else:
            for _ in range(rng.randint(0, 14)):
                cls, val = rng.choice(palette)
                if cls is parser.carriage_return:
                    o = cls()
                else:
                    o = cls(val if val is not None else rng.choice(words))
                toks.append(o)
        kind = rng.choice(["port", "generic"])
        case = rng.choice(["lower", "upper", "upper_or_lower", "PascalCase", "camelCase"])
        exc = rng.choice([[], ["Clk", "CLK"], ["zzz", "Data", "DATA"], ["clk"]])
        pre = rng.choice([[], ["i_"], ["I_", "rst"]])
        suf = rng.choice([[], ["_o"], ["_N", "a"]])
        out.append({"kind": kind, "case": case, "exc": exc, "pre": pre, "suf": suf, "toks": toks, "wire": " ".join("0:%d:%s" % (by[type(o).__module__ + "." + type(o).__qualname__], enc_str(o.get_value())) for o in toks), "cls": (fc[kind][0], fc[kind][1], fc["formal"], fc["assign"])})
    return out


def real_formal(s):
    from vsg import token
    from vsg.vhdlFile.extract import tokens as toi

    fp = rcls("token_case_formal_part_of_association_element_in_map_between_tokens")
    rule = fp(s["kind"], token.component_instantiation_statement.instantiation_label, token.component_instantiation_statement.semicolon)
    rule.case = s["case"]
    rule.case_exceptions = s["exc"]
    rule.prefix_exceptions = s["pre"]
    rule.suffix_exceptions = s["suf"]
    rule.case_exceptions_lower = [x.lower() for x in s["exc"]]
    try:
        rule._analyze([toi.New(0, 1, s["toks"])])
    except Exception as e:  # noqa: BLE001
        return "err " + lean_err(e)
    return "ok" + "".join(" %s:%d" % ("n" if v.get_action()["value"] is None else "s" + enc_s(v.get_action()["value"]), v.get_action()["index"]) for v in rule.violations)


def run_formal(tables, rng, n):
    samples = formal_samples(tables, rng, n)
    drv = Driver("caseu")
    mism = []
    nontriv = 0
    for s in samples:
        lean = drv.ask("\t".join(["A", ",".join(str(x) for x in s["cls"]), enc_s("port_map"), s["case"], enc_l(s["pre"]), enc_l(s["suf"]), enc_l(s["exc"]), "-", s["wire"]]))
        real = real_formal(s)
        if real not in ("ok",):
            nontriv += 1
        if lean != real and lean != "unmodelled":
            mism.append(({k: s[k] for k in ("kind", "case", "exc", "pre", "suf", "wire")}, real, lean))
    drv.close()
    return len(samples), nontriv, mism


# ------------------------------------------------------------------ consistent value choice (F, M)


def real_expected_first(ids, v):
    """create_tois on a stub file: one region whose names = [index of v], identifiers = the ids"""
    from vsg import parser

    cc = rmod("consistent_case_utils")

    objs = [parser.item(x) for x in ids] + [parser.item(v)]
    oFile = types.SimpleNamespace()
    oFile.lAllObjects = objs
    oFile.get_token_map = lambda: types.SimpleNamespace(get_line_number_of_index=lambda i: 1)
    tois = cc.create_tois([{"names": [len(ids)], "identifiers": list(range(len(ids)))}], oFile)
    if not tois:
        return "none"
    return "some s" + enc_s(tois[0].get_meta_data("expected"))


def real_expected_map(ids, v):
    from vsg import parser
    from vsg.vhdlFile.extract import tokens as toi

    ci = rmod("consistent_interface_token_case")

    rule = types.SimpleNamespace(violations=[])
    rule.add_violation = rule.violations.append
    oToi = toi.New(0, 1, [parser.item(v)])
    try:
        ci.validate_interface_name_in_token_list(rule, ids, oToi, "Port")
    except Exception as e:  # noqa: BLE001
        return "err " + lean_err(e)
    if not rule.violations:
        return "none"
    return "some s" + enc_s(rule.violations[0].get_action()["value"])


def real_expected_map_subprogram(ids, v):
    from vsg import token
    from vsg.vhdlFile.extract import tokens as toi

    cs = rmod("consistent_subprogram_parameter_token_case")

    rule = types.SimpleNamespace(violations=[])
    rule.add_violation = rule.violations.append
    oToi = toi.New(0, 1, [token.association_element.actual_part(v)])
    try:
        cs.validate_interface_name_in_token_list(rule, ids, oToi)
    except Exception as e:  # noqa: BLE001
        return "err " + lean_err(e)
    if not rule.violations:
        return "none"
    return "some s" + enc_s(rule.violations[0].get_action()["value"])


def run_consistent(values, rng, n):
    drv = Driver("caseu")
    mism = []
    nontriv = 0
    tot = 0
    for _ in range(n):
        v = rng.choice(values)
        ids = [rng.choice([flip(v, rng), v, rng.choice(values), v.upper(), v.lower()]) for _ in range(rng.randint(0, 4))]
        for tag, fn in (("F", real_expected_first), ("M", real_expected_map), ("M", real_expected_map_subprogram)):
            tot += 1
            lean = drv.ask("\t".join([tag, enc_l(ids), enc_s(v)]))
            real = fn(ids, v)
            if real != "none":
                nontriv += 1
            if lean != real and lean != "unmodelled":
                mism.append((tag, ids, v, real, lean))
    drv.close()
    return tot, nontriv, mism


# ------------------------------------------------------------------ synthetic `_fix_violation` cases (X)

OWNERS = {
    "token_case": "vsg.rules.token_case.token_case",
    "formal": "vsg.rules.token_case_formal_part_of_association_element_in_map_between_tokens.token_case_formal_part_of_association_element_in_map_between_tokens",
    "consistent": "vsg.rules.consistent_token_case.consistent_token_case",
    "interface": "vsg.rules.consistent_interface_token_case.consistent_interface_token_case",
    "subprogram": "vsg.rules.consistent_subprogram_parameter_token_case.consistent_subprogram_parameter_token_case",
}


def real_rule_object(which):
    from vsg import token

    if which == "token_case":
        return rcls("token_case")([token.signal_declaration.identifier])
    if which == "formal":
        return rcls("token_case_formal_part_of_association_element_in_map_between_tokens")("port", token.component_instantiation_statement.instantiation_label, token.component_instantiation_statement.semicolon)
    if which == "consistent":
        return rcls("consistent_token_case")([token.signal_declaration.identifier], [])
    if which == "interface":
        return rcls("consistent_interface_token_case")()
    return rcls("consistent_subprogram_parameter_token_case")()


def synthetic_fix_cases(tables, rng, n):
    from vsg import parser, token

    by = {r["name"]: r["idx"] for r in tables["classes"]}
    mk = [
        lambda v: token.signal_declaration.identifier(v),
        lambda v: token.association_element.formal_part(v),
        lambda v: parser.whitespace(" "),
        lambda v: parser.comment("-- " + v),
        lambda v: token.character_literal.New(v) if hasattr(token, "character_literal") and hasattr(token.character_literal, "New") else parser.item(v),
        lambda v: parser.todo(v),
    ]
    vals = ["Abc", "ABC", "abc", "'X'", '"Str"', "\\Ext\\", "straße", "", "a_B"]
    cases = []
    for _ in range(n):
        which = rng.choice(list(OWNERS))
        k = rng.randint(0, 4)
        toks = []
        for _ in range(k):
            try:
                toks.append(rng.choice(mk)(rng.choice(vals)))
            except Exception:  # noqa: BLE001
                toks.append(parser.item(rng.choice(vals)))
        value = rng.choice(vals + [None])
        action = {"value": value, "index": rng.choice([0, 0, 1, k - 1, k, -1, -k, -k - 1, 7])}
        if which == "consistent":
            action = {"expected": value}
        if rng.random() < 0.05:
            action = {}
        cases.append((which, toks, action))
    return cases, by


def run_synthetic_fix(tables, rng, n):
    """REAL `_fix_violation` on hand-built tokens of interest vs the Lean `fixByOwner`"""
    tot = 0
    outcomes = {}
    mism = []
    while tot < n:  # small batches: the driver answers only while its stdout pipe has room
        k, o, m = _synthetic_fix_batch(tables, rng, min(150, n - tot))
        tot += k
        for key, v in o.items():
            outcomes[key] = outcomes.get(key, 0) + v
        mism.extend(m)
    return tot, outcomes, mism


def _synthetic_fix_batch(tables, rng, n):
    from vsg import violation
    from vsg.vhdlFile.extract import tokens as toi

    import bfix

    cases, by = synthetic_fix_cases(tables, rng, n)
    ncls = len(tables["classes"])
    drv = Driver("bfix")
    mism = []
    outcomes = {}

    def cls_of(o):
        return by.get(type(o).__module__ + "." + type(o).__qualname__, ncls)

    reals = []
    for which, toks, action in cases:
        old = [(0, cls_of(o), o.get_value()) for o in toks]
        drv.send("%s\t%s\t%s\t%s" % (OWNERS[which], "", bfix.enc_kv(action), bfix.enc_plain_toks(old, ncls)))
        rule = real_rule_object(which)
        v = violation.New(1, toi.New(0, 1, list(toks)), "x")
        v.set_action(dict(action))
        try:
            rule._fix_violation(v)
            new = [(cls_of(o), o.get_value()) for o in v.get_tokens()]
            if any(x[1] is None for x in new):
                real = 'err Vsgm.Base.PyErr.unmodelled "set_value(None)"'
            else:
                real = "ok " + " ".join("%d:%s" % (c, enc_str(val)) for c, val in new)
        except Exception as e:  # noqa: BLE001
            real = "err " + lean_err(e)
        key = real.split(" ")[0] + (" " + real.split(".")[-1].split(" ")[0] if real.startswith("err") else "")
        outcomes[key] = outcomes.get(key, 0) + 1
        reals.append((which, action, old, real))
    drv.flush()
    drv.p.stdin.close()
    for which, action, old, real in reals:
        lean = drv.p.stdout.readline().rstrip("\n")
        if _canon_outcome(lean) != _canon_outcome(real):
            mism.append((which, action, old, real, lean))
    drv.p.wait()
    return len(cases), outcomes, mism


def _canon_outcome(s):
    """the bfix driver names errors as Python does (`err IndexError`), this module as Lean's Repr does
    (`err Vsgm.Base.PyErr.indexError`): compare the error constructor only, case-insensitively"""
    s = s.rstrip()
    if s.startswith("err "):
        return "err " + s[4:].replace("Vsgm.Base.PyErr.", "").replace(":", " ").split(" ")[0].lower()
    return s


if __name__ == "__main__":
    import gen_tables

    tables, _ = gen_tables.generate()
    rng = common.rng("corr_case")
    vals = SYNTH_VALUES + corpus_values(3000)
    checks = make_checks(vals, rng, full=False)
    print("checks", len(checks))
    out = run_checks(checks)
    print({k: out[k] for k in ("n", "nontrivial", "unmodelled", "by_result")}, "mismatches", len(out["mismatches"]))
    for m in out["mismatches"][:10]:
        print("MISMATCH", m)
    for k, v in out["findings"].items():
        print("FINDING", k, v[0])
    print("formal", [x if not isinstance(x, list) else x[:5] for x in run_formal(tables, rng, 3000)])
    print("consistent", [x if not isinstance(x, list) else x[:5] for x in run_consistent(vals, rng, 3000)])
    print("synthetic fix", [x if not isinstance(x, list) else x[:5] for x in run_synthetic_fix(tables, rng, 3000)])
