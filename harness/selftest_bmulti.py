"""
Self-test of the BMULTI correspondence (never touches /repo): the real functions are monkeypatched
IN THIS PROCESS with plausible bugs / repairs and the check logic must report a mismatch for each.
  /venv/bin/python harness/selftest_bmulti.py
"""
import os
import sys

HERE = os.path.dirname(os.path.abspath(__file__))
sys.path.insert(0, HERE)

import bmulti_synth  # noqa: E402

import vsg.rules  # noqa: E402,F401
from vsg import parser  # noqa: E402
from vsg.rules import utils as rules_utils  # noqa: E402
from vsg.vhdlFile import utils  # noqa: E402

SYMS = ["anbw", "awnbnW", "awknWb", "anBnWc", "anb", "awb", "ab", "awkna", "anWb", "cwknWc", "a;wk", "wknWa"]


def synth_mismatches(key):
    _, n, unm, nexc, mism, nm = bmulti_synth._synth_work((key, SYMS))
    return n, nm


def main():
    bmulti_synth.setup()
    results = []
    base = {k: synth_mismatches(k)[1] for k in ("subprogram", "multiStruct", "process021", "comment011")}
    results.append(("baseline (unpatched): mismatches per owner", base, all(v == 0 for v in base.values())))

    # M1: fix.remove_new_line no longer strips the trailing whitespace
    fix_mod = sys.modules["vsg.rules.fix"]
    orig = fix_mod.remove_new_line

    def remove_new_line(oViolation):
        lTokens = oViolation.get_tokens()
        lTokens = utils.remove_carriage_returns_from_token_list(lTokens)
        lTokens = utils.remove_consecutive_whitespace_tokens(lTokens)
        rules_utils.remove_leading_whitespace_tokens(lTokens)
        rules_utils.change_all_whitespace_to_single_character(lTokens)
        oViolation.set_tokens(lTokens)

    fix_mod.remove_new_line = remove_new_line
    n, nm = synth_mismatches("subprogram")
    fix_mod.remove_new_line = orig
    results.append(("M1 fix.remove_new_line without remove_trailing_whitespace", {"cases": n, "mismatches": nm}, nm > 0))

    # M2: multiline_structure._fix_last_paren_new_line inserts the line break at index 0
    ms = bmulti_synth.ms_mod
    orig2 = ms._fix_last_paren_new_line

    def _fix_last_paren_new_line(oViolation):
        lTokens = oViolation.get_tokens()
        dAction = oViolation.get_action()
        if dAction["action"] == "insert":
            rules_utils.insert_carriage_return(lTokens, 0)
            oViolation.set_tokens(lTokens)
        else:
            orig2(oViolation)

    ms._fix_last_paren_new_line = _fix_last_paren_new_line
    n, nm = synth_mismatches("multiStruct")
    ms._fix_last_paren_new_line = orig2
    results.append(("M2 _fix_last_paren_new_line inserts at index 0", {"cases": n, "mismatches": nm}, nm > 0))

    # M3: process_021 require_blank_line "repaired" (line break first, then the blank line behind it)
    rule = bmulti_synth.setup()["inst"]["process021"]
    cls = type(rule)
    orig3 = cls._fix_violation

    def _fix_violation(self, oViolation):
        if self.style == "require_blank_line":
            lTokens = oViolation.get_tokens()
            i = -2 if isinstance(lTokens[-2], parser.whitespace) else -1
            rules_utils.insert_carriage_return(lTokens, i)
            rules_utils.insert_blank_line(lTokens, i)
            oViolation.set_tokens(lTokens)
        else:
            orig3(self, oViolation)

    cls._fix_violation = _fix_violation
    n, nm = synth_mismatches("process021")
    cls._fix_violation = orig3
    results.append(("M3 process_021 inserts the blank line behind the line break", {"cases": n, "mismatches": nm}, nm > 0))

    # M4 (per-violation path): comment_011 forgets the line break
    rule = bmulti_synth.setup()["inst"]["comment011"]
    cls = type(rule)
    orig4 = cls._fix_violation

    def _fix_violation4(self, oViolation):
        lTokens = oViolation.get_tokens()
        dAction = oViolation.get_action()
        lTemp = lTokens[dAction["iToken"] :]
        lTemp.extend(lTokens[: dAction["iToken"]])
        oViolation.set_tokens(lTemp)

    cls._fix_violation = _fix_violation4
    import gen_inputs

    f = [p for p in gen_inputs.corpus_files() if p.endswith("comment/rule_011_test_input.vhd")]
    n, by, unm, nexc, mism, aerr = bmulti_synth._viol_work((f[0], "orig", 1))
    cls._fix_violation = orig4
    results.append(("M4 comment_011 without the line break (per-violation replay of a corpus file)", {"violations": n, "mismatches": len(mism)}, len(mism) > 0))

    ok = True
    for name, data, good in results:
        print("%-90s %s  %s" % (name, data, "DETECTED" if good and not name.startswith("baseline") else ("ok" if good else "NOT DETECTED")))
        ok = ok and good
    print("SELFTEST", "PASS" if ok else "FAIL")
    return 0 if ok else 1


if __name__ == "__main__":
    sys.exit(main())
