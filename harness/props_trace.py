"""
C01 C02 C03 C07 — decided by: (1) the Lean theorems of VsgProofs/Properties/<id>.lean (engine,
relations, table facts), (2) correspondence of the `update` model with vhdlFile.update on every
explored step, (3) per-step certificates checked by the Lean driver on instrumented real runs.
"""
import json
import os
import sys

import common
import sweep

RULE = {
    "C01": "a job = one (corpus file, re-layout variant, configuration); non-trivial = a job in which at least one rule changed the token list; every changed step is replayed through the Lean model of update and judged by the Lean step checker (code sequence equal modulo the edit class of the rule's _fix_violation owner)",
    "C02": "same jobs; per changed step the Lean checker compares the comment/pragma/preprocessor sequence and tests that every `--` comment is followed by a line break",
    "C03": "same jobs; per changed step the Lean checker decides identical / layout-only / case-only according to the rule's group, fixable, disable and severity as configured in that run",
    "C07": "same jobs; for every step of a whitespace / indent / alignment / case rule the Lean checker compares the set of changed lines with the set of reported lines and the line count",
}


def run(prop, tier):
    res = common.Result(prop, tier)
    ok_model, tables, nobl, ndis, thms = common.lean_phase(res, prop)
    if not ok_model:
        # without a driver nothing can be explored: the proof break is reported as such
        return res.finish(max(nobl, 1), 0, "lake build VsgModel driver VsgProofs.Properties.%s" % prop, thms)
    agg = sweep.cached_sweep(tier, ("trace",))
    for fl in agg["failures"]:
        if fl["prop"] == prop:
            res.fail(fl["site"], fl["kind"], fl["detail"], fl.get("input"))
        elif fl["prop"] == "CORR":
            # the update model and vhdlFile.update disagree: a correspondence break; the property
            # failures found in the same sweep (if any) are the concrete inputs
            res.proof_break("correspondence update-model vs vhdlFile.update at %s" % fl["site"], {"detail": fl["detail"], "input": fl.get("input")})
    if prop in ("C01", "C03"):
        # the B-full case family: correspondence of case_utils / formal-part / consistent_* / the five fix functions
        # with the Lean model, and the search on the real code at the points the theorems exclude (formerly extended
        # identifiers — repaired, now a theorem —, non-ASCII case pairs, duplicate case exceptions)
        import props_bcase

        props_bcase.extra(res, tier, prop)
    if prop in ("C01", "C02"):
        # line-structure and multi-line structure families: model vs real classes, witnesses, defect search
        import layerb_extra

        layerb_extra.extra(res, tier, prop)
    if prop == "C03":
        # layer B families with their own synthetic + harvested correspondence (evidence under coverage["layer_b_*"])
        for modname in ("props_bind", "props_bws"):
            try:
                mod = __import__(modname)
            except ImportError:
                continue
            if hasattr(mod, "extra"):
                mod.extra(res, tier)
    if prop in ("C03", "C07"):
        # wp2_bfull2: whole-rule (B-full) correspondence of the indent / vertical-spacing families
        try:
            import props_bfull2

            props_bfull2.extra(res, tier, prop)
        except ImportError:
            pass
    for he in agg.get("harness_errors", [])[:3]:
        res.notes.append("harness error: %r" % (he,))
    nontrivial = sum(1 for _ in agg["fired"]) if False else None
    res.coverage.update(
        {
            "evaluations": agg["runs"],
            "distinct_nontrivial": len([1 for k in agg["fired"]]),
            "rule": RULE[prop] + "; distinct_nontrivial here = number of distinct rules that changed a file in some job",
            "samples": [{"job": f.get("input", {}).get("path"), "variant": f.get("input", {}).get("variant"), "config": f.get("input", {}).get("config"), "site": f["site"], "kind": f["kind"]} for f in agg["failures"] if f["prop"] == prop][:5]
            or [{"note": "no failing step; sample of fired rules", "fired": sorted(agg["fired"].items(), key=lambda kv: -kv[1])[:8]}],
            "steps_executed": agg["steps"],
            "steps_changed_and_checked_by_lean": agg["changed_steps"],
            "update_correspondence": agg["upd"],
            "rejected_variants": agg["rejected"],
            "configs": agg["configs"],
            "variants": agg["variants"],
            "input_tokens": agg["tokens"],
            "input_lines": agg["lines"],
            "failure_counts": {k: v for k, v in agg["fail_counts"].items() if k.startswith(prop)},
            "layer_b_violations_replayed_through_lean": agg.get("bfix_replayed"),
            "layer_b_replayed_by_owner": agg.get("bfix_by_owner"),
            "layer_b_unmodelled_owner_violations": agg.get("bfix_unmodelled"),
            "layer_b_skipped_overlapping": agg.get("bfix_skipped_overlap"),
            "sweep_from_cache": agg.get("from_cache"),
            "sweep_wall_s": agg.get("wall"),
        }
    )
    res.assumptions = [
        "steps judged by the certificate checker are those of the explored runs only; rules whose _fix_violation is not modelled in Lean (layer U) are decided per explored run, not for all inputs",
        "a step's `before` is the `after` of the previous step (nothing but rule_list.fix's own loop runs in between)",
    ]
    return res.finish(max(nobl, 1), ndis, "cd lean && lake build VsgProofs.Properties.%s && lake env lean <audit file with #print axioms>" % prop, thms)


def replay(prop, path):
    import gen_tables
    import replay as rp

    gen_tables.generate()
    d = json.load(open(path))
    if d.get("kind") == "no-failing-input-found":
        print(json.dumps(d, indent=1)[:3000])
        return 0
    job = d["input"]
    if job.get("via") in ("props_bcase", "props_blines", "props_bmulti"):
        return __import__(job["via"]).replay(prop, path)
    found, exc = rp.show(job, None)
    bad = [(st.rule, r) for st, r in found if r[prop.lower()] != "ok"]
    for rule, r in bad:
        print("REPRODUCED property=%s rule=%s verdict=%s" % (prop, rule, r[prop.lower()]))
    return 1 if bad else 0
