"""
Layer B, line-structure family: SYNTHETIC correspondence.  Hand-built token lists (real token
classes of /repo) go through the real `_fix_violation` of a real rule instance of every owner of the
family, for every action value in and out of range, and through the Lean model (driver mode `bfix`);
results AND raised exception types are compared.  Also reproduces the Lean negation witnesses on the
real classes and the known defects on the real CLI code path (whole-file fix).
"""
import contextlib
import copy
import io
import itertools
import json
import os
import random
import sys

HERE = os.path.dirname(os.path.abspath(__file__))
sys.path.insert(0, HERE)

import bfix  # noqa: E402
import vsgrun  # noqa: E402
from leanio import Driver  # noqa: E402

from vsg import parser, violation  # noqa: E402
from vsg.token import if_statement, pragma  # noqa: E402
from vsg.vhdlFile.extract import tokens as toi_mod  # noqa: E402

P = "vsg.rules."
OWN = {
    "moveNext": P + "move_token_next_to_another_token.move_token_next_to_another_token",
    "moveNextBetween": P + "move_token_next_to_another_token_if_it_exists_between_tokens.move_token_next_to_another_token_if_it_exists_between_tokens",
    "moveLeft": P + "move_token_left_to_next_non_whitespace_token.move_token_left_to_next_non_whitespace_token",
    "moveRight": P + "move_token_right_to_next_non_whitespace_token.move_token_right_to_next_non_whitespace_token",
    "moveToken": P + "move_token.move_token",
    "moveRightOf": P + "move_token_to_the_right_of_several_possible_tokens_if_it_exists_between_tokens.move_token_to_the_right_of_several_possible_tokens_if_it_exists_between_tokens",
    "moveSeq": P + "move_token_sequences_left_of_token.move_token_sequences_left_of_token",
    "insertCr": P + "insert_carriage_return_after_token_if_it_is_not_followed_by_a_comment.insert_carriage_return_after_token_if_it_is_not_followed_by_a_comment",
    "insertCrWhen": P + "insert_carriage_return_after_token_if_it_is_not_followed_by_a_comment_when_between_tokens.insert_carriage_return_after_token_if_it_is_not_followed_by_a_comment_when_between_tokens",
    "insertCrUnless": P + "insert_carriage_return_after_token_if_it_is_not_followed_by_a_comment_when_between_tokens_unless_between_tokens.insert_carriage_return_after_token_if_it_is_not_followed_by_a_comment_when_between_tokens_unless_between_tokens",
    "split": P + "split_line_at_token.split_line_at_token",
    "splitWhen": P + "split_line_at_token_when_between_tokens.split_line_at_token_when_between_tokens",
    "splitUnless": P + "split_line_at_token_when_between_tokens_unless_token_is_found.split_line_at_token_when_between_tokens_unless_token_is_found",
    "splitAt": P + "split_line_at_token_if_on_same_line_as_token_if_token_pair_are_not_on_the_same_line.split_line_at_token_if_on_same_line_as_token_if_token_pair_are_not_on_the_same_line",
    "removeCr": P + "remove_carriage_return_after_token.remove_carriage_return_after_token",
    "removeCrPairs": P + "remove_carriage_returns_between_token_pairs.remove_carriage_returns_between_token_pairs",
    "removeLines": P + "remove_lines_starting_with_token_between_token_pairs.remove_lines_starting_with_token_between_token_pairs",
}

# symbol -> constructor of a fresh real token
SYM = {
    "a": lambda: if_statement.if_keyword("if"),
    "b": lambda: if_statement.then_keyword("then"),
    "c": lambda: parser.todo("x"),
    "w": lambda: parser.whitespace(" "),
    "W": lambda: parser.whitespace("   "),
    "n": lambda: parser.carriage_return(),
    "B": lambda: parser.blank_line(),
    "k": lambda: parser.comment("-- c"),
    "p": lambda: parser.preprocessor("`if X"),
    "g": lambda: pragma.pragma("-- synthesis off"),
}

ERR = {"IndexError": "indexError", "TypeError": "typeError", "KeyError": "keyError", "AttributeError": "attributeError", "ValueError": "valueError"}


def build(sym):
    return [SYM[s]() for s in sym]


_STATE = {}


def setup():
    """one real rule instance per owner (the unused base class is instantiated directly)"""
    if _STATE:
        return _STATE
    import gen_tables

    tables, _ = gen_tables.generate()
    ci = vsgrun.ClassIndex(tables)
    cla, oConfig = vsgrun.make_config(style=None)
    with contextlib.redirect_stdout(io.StringIO()):
        oFile = vsgrun.parse([""], cla, oConfig)
        rl = vsgrun.new_rule_list(oFile, oConfig)
    by_owner = {}
    for r in tables["rules"]:
        by_owner.setdefault(r["fixVOwner"], []).append(r["id"])
    inst = {}
    for key, owner in OWN.items():
        ids = by_owner.get(owner, [])
        rule = None
        if ids:
            rule = next((x for x in rl.rules if x.unique_id == ids[0]), None)
        if rule is None:
            from vsg.rules import remove_carriage_returns_between_token_pairs as m

            class _R(m):  # the base class has no rule of its own in the pinned tree
                def __init__(self):
                    self.name, self.identifier = "synthetic", "000"
                    super().__init__([], False)

            try:
                rule = _R()
            except Exception:  # noqa: BLE001
                rule = m.__new__(m)
                rule.bInsertSpace = False
                rule.lTokens = []
        inst[key] = rule
    _STATE.update({"tables": tables, "ci": ci, "inst": inst, "ncls": len(tables["classes"]), "by_owner": by_owner})
    return _STATE


def real_fix(key, sym, params=None, action=None, tv=None, ti=None, iw=None):
    """runs the REAL `_fix_violation`; returns the record for the Lean replay"""
    st = setup()
    ci = st["ci"]
    rule = copy.copy(st["inst"][key])
    for k, v in (params or {}).items():
        setattr(rule, k, v)
    toks = build(sym)
    oToi = toi_mod.New(0, 1, toks)
    if tv is not None:
        oToi.set_token_value(tv)
    if ti is not None:
        oToi.token_index = ti
    v = violation.New(1, oToi, "")
    if action is not None:
        v.set_action(action)
    if iw is not None:
        v.insert_whitespace = iw
    old = [(i, ci.of(t), t.value, ()) for i, t in enumerate(toks)]
    act = vsgrun.harvest_action(v, ci)
    rec = {"owner": OWN[key], "rule": key, "params": vsgrun.rule_params(rule, ci), "action": act, "old": old, "sym": sym}
    try:
        rule._fix_violation(v)
        rec["new"] = [(0, ci.of(t), t.value, ()) for t in v.oTokens.get_tokens()]
        rec["exc"] = None
    except Exception as e:  # noqa: BLE001 - the exception type is part of the model
        rec["new"] = None
        rec["exc"] = type(e).__name__
    return rec


def lean_replay(records):
    """(mismatches, n) — compares token lists and exception types"""
    st = setup()
    ncls = st["ncls"]
    import threading

    drv = Driver("bfix")

    def feed():
        try:
            for r in records:
                drv.send("%s\t%s\t%s\t%s" % (r["owner"], bfix.enc_kv(r["params"]), bfix.enc_kv(r["action"]), bfix.enc_plain_toks(r["old"], ncls)))
            drv.flush()
        finally:
            drv.p.stdin.close()

    th = threading.Thread(target=feed, daemon=True)
    th.start()
    mism = []
    for r in records:
        line = drv.p.stdout.readline().rstrip("\n")
        if line.startswith("ok"):
            got = bfix.dec_plain_toks(line[3:])
            want = None if r["new"] is None else [(t[1] if t[1] >= 0 else ncls, t[2]) for t in r["new"]]
            if got != want:
                mism.append({"rule": r["rule"], "sym": r["sym"], "action": r["action"], "params": {k: v for k, v in r["params"].items() if isinstance(v, (bool, str, int))}, "real": r["exc"] or want, "lean": got})
        elif line.startswith("err"):
            got = line[4:].split()[0].split(".")[-1]
            # the bfix driver names errors as Python does (`err IndexError`); older builds printed Lean's constructor
            if r["exc"] is None or (ERR.get(r["exc"]) != got and r["exc"] != got):
                mism.append({"rule": r["rule"], "sym": r["sym"], "action": r["action"], "real": r["exc"] or "ok", "lean": line})
        else:
            mism.append({"rule": r["rule"], "sym": r["sym"], "lean": line})
    th.join()
    drv.p.wait()
    return mism, len(records)


def cases_for(key, sym):
    """every parameter / action combination worth trying on this token list"""
    n = len(sym)
    rng_i = range(-(n + 2), n + 3)
    if key == "moveNext":
        for i in rng_i:
            yield dict(tv=i)
        yield dict()  # token value never set: pop(None)
    elif key == "moveNextBetween":
        for i in rng_i:
            for j in rng_i:
                yield dict(action={"insertIndex": j, "moveIndex": i})
    elif key == "moveLeft":
        for bw in (True, False):
            for bt in (True, False):
                yield dict(params={"bInsertWhitespace": bw, "bRemoveTrailingWhitespace": bt})
    elif key == "moveRight":
        for bw in (True, False):
            for i in rng_i:
                yield dict(params={"bInsertWhitespace": bw}, action=i)
    elif key == "moveToken":
        yield dict(params={"action": "new_line", "preserve_comment": False})
        for i in rng_i:
            yield dict(params={"action": "new_line", "preserve_comment": True}, ti=i)
        for b in (True, False):
            yield dict(params={"action": "move_left", "preserve_comment": False}, iw=b)
            yield dict(params={"action": "move_left", "preserve_comment": True}, iw=b)
    elif key == "moveRightOf":
        for bw in (True, False):
            for i in rng_i:
                for j in rng_i:
                    yield dict(params={"bInsertWhitespace": bw}, action={"insert": j, "move_index": i})
    elif key == "moveSeq":
        for i in rng_i:
            yield dict(action={"num_tokens": i})
    elif key == "splitAt":
        for i in rng_i:
            yield dict(action={"insert_index": i})
    elif key in ("removeCr", "removeCrPairs"):
        for b in (True, False):
            yield dict(params={"bInsertSpace": b})
    else:
        yield dict()


# the situations the task names explicitly (comment directly before / after the moved token, region
# of length 1, moved token already adjacent, several carriage returns, no whitespace around …)
NAMED = ["", "a", "w", "n", "k", "ab", "aw", "wa", "an", "ak", "ka", "awb", "anb", "akb", "akn", "aknb", "awknb", "awknwb", "annb", "annnb", "anwnb",
         "anwnwnb", "wanb", "wawb", "awwb", "awWwb", "aWnWb", "kab", "akwb", "abk", "abwk", "awbwk", "abwkn", "ankb", "anknb", "aknkb", "apnb", "anpnb",
         "agnb", "awgnb", "nnn", "www", "wnw", "nwn", "nwnwn", "aBb", "anBnb", "cnwanwb", "cwanwb", "cnanb", "wcnanb", "wcwawb", "wcnwnab"]


def corpus(tier="quick", seed=1):
    rng = random.Random(seed)
    out = list(NAMED)
    alpha = "abwnk"
    for n in range(0, 5):
        out.extend("".join(x) for x in itertools.product(alpha, repeat=n))
    alpha2 = "abcwWnBkpg"
    for _ in range(1500 if tier == "quick" else 8000):
        n = rng.randint(3, 9)
        out.append("".join(rng.choice(alpha2) for _ in range(n)))
    seen = set()
    res = []
    for s in out:
        if s not in seen:
            seen.add(s)
            res.append(s)
    return res


def _work(args):
    key, syms = args
    recs = []
    for sym in syms:
        for kw in cases_for(key, sym):
            recs.append(real_fix(key, sym, **kw))
    mism, n = lean_replay(recs)
    nexc = sum(1 for r in recs if r["exc"])
    return key, n, nexc, mism[:5], len(mism)


def run_synth(tier="quick", seed=1, procs=16):
    import multiprocessing

    setup()
    syms = corpus(tier, seed)
    two_index = ("moveNextBetween", "moveRightOf")
    jobs = []
    for key in OWN:
        ss = syms if key not in two_index else [s for s in syms if len(s) <= 4][:400] + [s for s in syms if 5 <= len(s) <= 7][:150]
        for i in range(0, len(ss), 200):
            jobs.append((key, ss[i : i + 200]))
    out = {"cases": 0, "raised": 0, "by_owner": {}, "mismatches": [], "n_mismatch": 0, "token_lists": len(syms)}
    with multiprocessing.Pool(procs) as pool:
        for key, n, nexc, mism, nm in pool.imap_unordered(_work, jobs):
            out["cases"] += n
            out["raised"] += nexc
            out["by_owner"][key] = out["by_owner"].get(key, 0) + n
            out["n_mismatch"] += nm
            out["mismatches"].extend(mism)
    out["mismatches"] = out["mismatches"][:20]
    return out


if __name__ == "__main__":
    r = run_synth(sys.argv[1] if len(sys.argv) > 1 else "quick", int(os.environ.get("VERIF_SEED", "1")))
    print(json.dumps(r, indent=1, default=str)[:6000])
    sys.exit(1 if r["n_mismatch"] else 0)
