"""
Input generators: corpus enumeration, meaning-preserving re-layouts of VHDL text (driven by the
real tokenizer so that only whitespace tokens, line ends and words are touched), and rule
configurations drawn from the documented option values.  Every choice derives from one
`random.Random` passed in.
"""
import glob
import os

from vsg import tokens

REPO = os.environ.get("VSG_REPO", "/repo")
VERIF = os.path.dirname(os.path.dirname(os.path.abspath(__file__)))


def corpus_files():
    fs = sorted(glob.glob(os.path.join(REPO, "tests", "**", "*.vhd"), recursive=True))
    fs += sorted(glob.glob(os.path.join(VERIF, "corpus", "*.vhd")))
    return fs


def read_text(path):
    try:
        return open(path, encoding="utf-8").read()
    except UnicodeDecodeError:
        return open(path, encoding="ISO-8859-1").read()


# ------------------------------------------------------------------ re-layouts


def _is_word(tok):
    c = tok[0]
    return (c.isalpha() or c == "_") and not tok.startswith(("'", '"', "\\"))


def line_tokens(line):
    """tokens of a line plus the index at which a `--` comment starts (None if no comment);
    delimited comments make the whole line untouchable (returns None)"""
    toks = tokens.create(line)
    toks = [t for t in toks if t != ""]
    if "/*" in toks or "*/" in toks:
        return None, None
    ci = None
    for i, t in enumerate(toks):
        if t == "--":
            ci = i
            break
    return toks, ci


GLUE_LEFT = set("),;:")
GLUE_RIGHT = set("(,;:")


def _can_glue(prev, nxt):
    """may the whitespace between two code tokens go without merging them into another token?
    only next to a parenthesis / comma / semicolon / colon, and never producing `:=`, `=>`, … """
    if not prev or not nxt:
        return False
    a, b = prev[-1], nxt[0]
    if prev.startswith(("--", "/*")) or nxt.startswith(("--", "/*", "*/")):
        return False
    if a in GLUE_LEFT and (b.isalnum() or b in "_\"'(" ):
        return a != ":" or b != "="
    if b in GLUE_RIGHT and (a.isalnum() or a in "_\"')"):
        return True
    return False


def relayout(text, rng, ws=0.3, case=0.0, eol_comment=0.0, own_comment=0.0, split=0.0, join=0.0, blank=0.0, tabs=False, trailing=0.0, crlf=False, glue=0.0):
    """returns a re-laid-out text.  Probabilities are per opportunity."""
    lines = text.split("\n")
    if lines and lines[-1] == "":
        lines = lines[:-1]
    lines = [l.rstrip("\r") for l in lines]
    out = []
    in_delim = False
    pending_join = None
    for line in lines:
        if in_delim or "/*" in line or "*/" in line or line.lstrip().startswith("`"):
            # delimited comments and preprocessor lines are left alone
            if "/*" in line and "*/" not in line.split("/*")[-1]:
                in_delim = True
            elif "*/" in line:
                in_delim = False
            if pending_join is not None:
                out.append(pending_join)
                pending_join = None
            out.append(line)
            continue
        toks, ci = line_tokens(line)
        if toks is None:
            if pending_join is not None:
                out.append(pending_join)
                pending_join = None
            out.append(line)
            continue
        code = toks if ci is None else toks[:ci]
        comment = "" if ci is None else "".join(toks[ci:])
        new = []
        pieces = [[]]
        for i, t in enumerate(code):
            if t.isspace():
                if i == 0:
                    # indentation
                    if rng.random() < ws:
                        t = " " * rng.randrange(0, 9) if not tabs else "\t" * rng.randrange(0, 3)
                    pieces[-1].append(t)
                    continue
                if split and 0 < i < len(code) - 1 and rng.random() < split:
                    pieces.append([" " * rng.randrange(0, 6)])
                    continue
                if glue and 0 < i < len(code) - 1 and rng.random() < glue and _can_glue(code[i - 1], code[i + 1]):
                    continue
                if rng.random() < ws:
                    t = " " * rng.randrange(1, 5) if not (tabs and rng.random() < 0.3) else "\t"
                pieces[-1].append(t)
            else:
                if case and _is_word(t) and rng.random() < case:
                    r = rng.random()
                    t = t.upper() if r < 0.4 else (t.lower() if r < 0.8 else t.swapcase())
                pieces[-1].append(t)
        strs = ["".join(p) for p in pieces]
        if comment:
            strs[-1] = strs[-1] + comment
        elif eol_comment and strs[-1].strip() and rng.random() < eol_comment:
            strs[-1] = strs[-1] + rng.choice([" -- c", "-- c", "  --c", " -- vsx"])
        if trailing and rng.random() < trailing:
            strs[-1] = strs[-1] + " " * rng.randrange(1, 4)
        for k, s in enumerate(strs):
            if pending_join is not None:
                s = pending_join + " " + s.lstrip()
                pending_join = None
            if own_comment and rng.random() < own_comment:
                out.append(" " * rng.randrange(0, 6) + "-- own line comment")
            if blank and rng.random() < blank:
                out.append("")
            last = k == len(strs) - 1
            if last and join and not comment and "--" not in s and s.strip() and rng.random() < join:
                pending_join = s.rstrip()
                continue
            out.append(s)
    if pending_join is not None:
        out.append(pending_join)
    nl = "\r\n" if crlf else "\n"
    return nl.join(out) + nl


def variant(text, rng, kind):
    """named variants used by the checks"""
    if kind == "orig":
        return text
    if kind == "ws":
        return relayout(text, rng, ws=0.5)
    if kind == "case":
        return relayout(text, rng, ws=0.0, case=0.5)
    if kind == "comments":
        return relayout(text, rng, ws=0.1, eol_comment=0.5, own_comment=0.1)
    if kind == "lines":
        return relayout(text, rng, ws=0.2, split=0.15, join=0.1, blank=0.05)
    if kind == "messy":
        return relayout(text, rng, ws=0.5, case=0.3, eol_comment=0.25, own_comment=0.05, split=0.1, join=0.05, blank=0.05, trailing=0.1)
    if kind == "tabs":
        return relayout(text, rng, ws=0.4, tabs=True, trailing=0.2)
    if kind == "glue":
        return relayout(text, rng, ws=0.2, glue=0.7, eol_comment=0.15)
    if kind == "splitall":
        return relayout(text, rng, ws=0.0, split=0.6, eol_comment=0.3)
    if kind == "flush":
        return flush_left(text)
    if kind == "codetags":
        return with_code_tags(text, rng)
    if kind == "usecomments":
        return use_comments(text, rng)
    if kind == "blockcomments":
        return block_comments(text, rng)
    if kind == "preproc":
        return preproc_lines(text, rng)
    if kind == "trailing":
        # nothing but blanks behind some line ends (what only whitespace_001 and the post-phase-1 normalisation see)
        return relayout(text, rng, ws=0.0, trailing=0.3)
    raise ValueError(kind)


def use_comments(text, rng, p=0.5):
    """own-line comments (random column, sometimes after a blank line) in front of lines that start with `use`,
    `library`, `context` and, with a smaller probability, any other line: where the indent of a comment is
    decided by one rule and read by another"""
    lines = text.split("\n")
    ok = set(_outside_delimited(lines))
    out = []
    for i, line in enumerate(lines):
        s = line.lstrip().lower()
        q = p if s.startswith(("use ", "library ", "context ")) else 0.03
        if i in ok and s and not s.startswith("--") and rng.random() < q:
            if rng.random() < 0.3:
                out.append("")
            for _ in range(rng.choice([1, 1, 2])):
                out.append(" " * rng.choice([0, 0, 2, 2, 4, len(line) - len(line.lstrip())]) + "-- note")
        out.append(line)
    return "\n".join(out)


def block_comments(text, rng, p=0.06):
    """block comments (header / body / footer, docs/configuring_block_comments.rst) in front of some lines"""
    lines = text.split("\n")
    ok = set(_outside_delimited(lines))
    out = []
    for i, line in enumerate(lines):
        s = line.strip()
        if i in ok and s and not s.startswith("--") and rng.random() < p:
            ind = " " * rng.choice([0, 0, len(line) - len(line.lstrip())])
            bar = ind + "--" + rng.choice(["-", "=", "+-"]) * rng.choice([20, 40, 78])
            out.append(bar)
            for _ in range(rng.choice([1, 2, 3])):
                out.append(ind + rng.choice(["--text", "-- text", "--| text", "--!text", "--  text"]))
            out.append(bar)
        out.append(line)
    return "\n".join(out)


def preproc_lines(text, rng, p=0.15):
    """preprocessor lines (`#ifdef X` ... `#endif`, what classify/preprocessor.py recognises: first non-blank
    character `#`) on lines of their own in front of some lines, in column 0 or indented by blanks, sometimes with a
    blank line before or after: C02 wants them to survive every fix verbatim, C03 counts them as non-layout text"""
    lines = text.split("\n")
    ok = set(_outside_delimited(lines))
    out = []
    depth = 0
    for i, line in enumerate(lines):
        s = line.strip()
        if i in ok and s and i > 0 and rng.random() < p:
            ind = " " * rng.choice([0, 0, 0, len(line) - len(line.lstrip())])
            if depth and rng.random() < 0.6:
                d = rng.choice(["#endif", "#endif", "#else"])
                if d == "#endif":
                    depth -= 1
            else:
                d = rng.choice(["#ifdef SIMULATION", "#ifndef SYNTHESIS", "#if defined(X)", "#define WIDTH 8", "#pragma once"])
                if d.startswith("#if"):
                    depth += 1
            if rng.random() < 0.3:
                out.append("")
            out.append(ind + d)
            if rng.random() < 0.4:
                out.append("")
        out.append(line)
    while depth:
        # close what is open in front of the last line so that the file still reads sensibly
        out.insert(len(out) - 1, "#endif")
        depth -= 1
    return "\n".join(out)


def _outside_delimited(lines):
    """indexes of the lines that are not inside (or touching) a delimited comment or a preprocessor line"""
    ok = []
    inside = False
    for i, line in enumerate(lines):
        if inside or "/*" in line or "*/" in line or line.lstrip().startswith(("`", "#")):
            if "/*" in line and "*/" not in line.split("/*")[-1]:
                inside = True
            elif "*/" in line:
                inside = False
            continue
        ok.append(i)
    return ok


def flush_left(text):
    """every line starts in column 0 (code nobody has indented yet: what the indent rules are for)"""
    lines = text.split("\n")
    ok = set(_outside_delimited(lines))
    return "\n".join(l.lstrip(" \t") if i in ok else l for i, l in enumerate(lines))


_RULE_IDS = []


def _rule_ids():
    if not _RULE_IDS:
        import json

        try:
            t = json.load(open(os.path.join(os.path.dirname(os.path.dirname(os.path.abspath(__file__))), ".cache", "tables.json")))
            _RULE_IDS.extend(r["id"] for r in t["rules"] if not r["deprecated"] and r["phase"] in (1, 2, 3, 4, 5, 6, 7))
        except Exception:  # noqa: BLE001
            _RULE_IDS.extend(["process_012", "whitespace_013", "architecture_004"])
    return _RULE_IDS


def with_code_tags(text, rng, p_region=0.12):
    """`-- vsg_off [ids]` … `-- vsg_on [ids]` around random line ranges and a few `-- vsg_disable_next_line`
    comments (own-line comments at the indentation of the next line, never inside a delimited comment)"""
    lines = text.split("\n")
    ok = _outside_delimited(lines)
    if len(ok) < 4:
        return text
    ids = _rule_ids()
    opens, closes, single = {}, {}, {}
    k = 0
    while k < len(ok) - 1:
        if rng.random() < p_region:
            span = rng.randrange(1, 9)
            e = min(k + span, len(ok) - 1)
            chosen = [] if rng.random() < 0.4 else rng.sample(ids, rng.randrange(1, 4))
            tag = "".join(" " + i for i in chosen)
            opens[ok[k]] = "-- vsg_off" + tag
            closes[ok[e]] = "-- vsg_on" + (tag if rng.random() < 0.5 else "")
            k = e + 1
        else:
            if rng.random() < 0.02:
                single[ok[k]] = "-- vsg_disable_next_line" + "".join(" " + i for i in rng.sample(ids, rng.randrange(1, 3)))
            k += 1
    out = []
    for i, l in enumerate(lines):
        ind = l[: len(l) - len(l.lstrip(" \t"))]
        if i in opens:
            out.append(ind + opens[i])
        if i in single:
            out.append(ind + single[i])
        out.append(l)
        if i in closes:
            out.append(ind + closes[i])
    return "\n".join(out)


VARIANTS = ["ws", "case", "comments", "lines", "messy", "tabs", "splitall", "glue", "flush", "codetags", "usecomments", "blockcomments", "preproc"]


# ------------------------------------------------------------------ configurations

YESNO = ["yes", "no", True, False]  # an unquoted yes / no of a YAML file arrives as a boolean
OPTION_DOMAINS = {
    "case": ["lower", "upper", "upper_or_lower"],
    "number_of_spaces": [0, 1, 2, ">=1", ">=2", "<=1", "1+", ">1"],
    "blank_line_ends_group": YESNO,
    "comment_line_ends_group": YESNO,
    "compact_alignment": YESNO,
    "case_control_statements_ends_group": YESNO,
    "if_control_statements_ends_group": YESNO,
    "loop_control_statements_ends_group": YESNO,
    "generate_statement_ends_group": YESNO,
    "aggregate_parens_ends_group": YESNO,
    "ignore_single_line_aggregates": YESNO,
    "separate_generic_port_alignment": YESNO,
    "include_lines_without_comments": YESNO,
    "align_left": YESNO,
    "align_paren": YESNO,
    "align_else_keywords": YESNO,
    "align_when_keywords": YESNO,
    "wrap_at_when": YESNO,
    "ignore_single_line": YESNO,
    "first_paren_new_line": ["yes", "no", "ignore"],
    "last_paren_new_line": ["yes", "no", "ignore"],
    "open_paren_new_line": ["yes", "no", "ignore"],
    "close_paren_new_line": ["yes", "no", "ignore"],
    "new_line_after_comma": ["yes", "no", "ignore"],
    "assign_on_single_line": ["yes", "no", "ignore"],
    "new_line_after_assign": ["yes", "no", "ignore"],
    "style": None,  # rule specific, see STYLE_BY_DEFAULT
    "action": None,
    "indent_size": [2, 3, 4],
    "indent_style": ["spaces", "smart_tabs"],
    "consecutive": [1, 2, 3],
    "blank_lines_allowed": [0, 1, 2],
    "allow_indenting": YESNO,
    "length": [40, 80, 120],
    "array_constraint": ["ignore", "all_in_one_line", "one_line_per_dimension"],
    "record_constraint_open_paren": ["ignore", "add_new_line", "remove_new_line"],
    "record_constraint_close_paren": ["ignore", "add_new_line", "remove_new_line"],
    "record_constraint_comma": ["ignore", "add_new_line", "remove_new_line"],
    "record_constraint_element": ["ignore", "add_new_line", "remove_new_line"],
    "first_open_paren": ["ignore", "add_new_line", "remove_new_line"],
    "last_close_paren": ["ignore", "add_new_line", "remove_new_line"],
    "interface_element": ["ignore", "add_new_line", "remove_new_line"],
    "interface_list_semicolon": ["ignore", "add_new_line", "remove_new_line"],
    "after_generic_map_aspect": ["add_new_line", "remove_new_line"],
    "after_instantiated_unit": ["add_new_line", "remove_new_line"],
    "association_element": ["ignore", "add_new_line", "remove_new_line"],
    "association_list_comma": ["ignore", "add_new_line", "remove_new_line"],
    "clock": ["event", "edge"],
    "parenthesis": ["insert", "remove"],
    "method": ["component", "entity"],
    "align_to": ["keyword", "current_indent"],
}
STYLE_BY_DEFAULT = {
    "require_blank_line": ["require_blank_line", "no_blank_line"],
    "no_blank_line": ["require_blank_line", "no_blank_line"],
    "no_code": ["no_code", "allow_comment", "require_blank_line", "require_comment"],
    "allow_comment": ["no_code", "allow_comment", "require_blank_line", "require_comment"],
}
ACTION_BY_DEFAULT = {"add": ["add", "remove"], "new_line": ["new_line", "same_line"], "same_line": ["new_line", "same_line"]}


def option_values(rule_row, name):
    dom = OPTION_DOMAINS.get(name, "?")
    default = rule_row["defaults"].get(name)
    if dom == "?":
        return [default]
    if dom is None:
        if name == "style":
            return STYLE_BY_DEFAULT.get(default, [default])
        if name == "action":
            return ACTION_BY_DEFAULT.get(default, [default])
        return [default]
    return dom


def random_rule_config(tables, rng, p_rule=0.15, p_disable=0.05, p_enable=0.5, p_fixable=0.03, p_warning=0.03):
    """a `rule:` section: option values from the documented sets, some rules disabled,
    some default-disabled rules enabled, some report-only, some downgraded to Warning"""
    conf = {}
    for r in tables["rules"]:
        if r["deprecated"] or r["phase"] == 0:
            continue
        d = {}
        if r["disable"]:
            if rng.random() < p_enable:
                d["disable"] = False
        elif rng.random() < p_disable:
            d["disable"] = True
        if rng.random() < p_fixable:
            d["fixable"] = False
        if rng.random() < p_warning:
            d["severity"] = "Warning"
        if rng.random() < p_rule:
            for name in r["configuration"]:
                if name in ("phase", "disable", "fixable", "severity", "user_error_message", "indent_style", "indent_size"):
                    continue
                vals = option_values(r, name)
                if len(vals) > 1:
                    d[name] = rng.choice(vals)
        if d:
            conf[r["id"]] = d
    return {"rule": conf}


def exceptions_config(tables, rng, text):
    """the string-list options of the case rules (prefix_exceptions, suffix_exceptions, case_exceptions), drawn from
    the identifiers of the input itself so that they actually apply: endings / beginnings of its words (the part
    after the last / before the first underscore, and the last / first 1-3 characters), in the word's own case and
    in the other case, and whole words in a third case as case exceptions.  Every case rule that has the option
    gets the same lists; the target case is drawn per job."""
    import re

    words = sorted({w for w in re.findall(r"[A-Za-z][A-Za-z0-9_]*", text or "") if len(w) >= 3})
    if not words:
        return None, []
    sample = rng.sample(words, min(len(words), 30))
    suf, pre = set(), set()
    for w in sample:
        if "_" in w.strip("_"):
            suf.add(w[w.rstrip("_").rfind("_") :])
            pre.add(w[: w.lstrip("_").find("_") + (len(w) - len(w.lstrip("_"))) + 1])
        k = rng.randrange(1, 4)
        suf.add(w[-k:])
        pre.add(w[:k])
    flip = lambda x: x.upper() if rng.random() < 0.5 else x.lower()  # noqa: E731
    suf = sorted({x if rng.random() < 0.6 else flip(x) for x in suf if x})
    pre = sorted({x if rng.random() < 0.6 else flip(x) for x in pre if x})
    rng.shuffle(suf)
    rng.shuffle(pre)
    exc = [w.capitalize() if rng.random() < 0.5 else w.swapcase() for w in rng.sample(sample, min(len(sample), 6))]
    case = rng.choice(["upper", "lower", "lower", "camelCase", "PascalCase"])
    conf = {}
    for r in tables["rules"]:
        if r["deprecated"] or r["phase"] == 0:
            continue
        d = {}
        if "suffix_exceptions" in r["configuration"]:
            d["suffix_exceptions"] = suf[:8]
        if "prefix_exceptions" in r["configuration"]:
            d["prefix_exceptions"] = pre[:8]
        if "case_exceptions" in r["configuration"]:
            d["case_exceptions"] = exc
        if d and "case" in r["configuration"] and case in option_values(r, "case"):
            d["case"] = case
        if d:
            conf[r["id"]] = d
    return None, [{"rule": conf}]


def named_config(name, tables, rng, text=None):
    """(style, [config dicts]) for a named configuration family"""
    if name == "default":
        return None, []
    if name == "exceptions":
        return exceptions_config(tables, rng, text)
    if name.startswith("flip1/"):
        # ONE yes / no option of one rule flipped away from its default and given as a boolean, everything else default
        _, rid, opt = name.split("/", 2)
        row = next(r for r in tables["rules"] if r["id"] == rid)
        dv = row["defaults"].get(opt)
        return None, [{"rule": {rid: {opt: not (dv == "yes" or dv is True)}}}]
    if name == "flip_yesno_bool":
        # every yes / no option flipped away from its default and written the way an unquoted YAML yes / no arrives:
        # as a boolean
        conf = {}
        for r in tables["rules"]:
            if r["deprecated"] or r["phase"] == 0:
                continue
            d = {}
            for nm in r["configuration"]:
                dv = r["defaults"].get(nm)
                if dv == "yes" or dv is True:
                    d[nm] = False
                elif (dv == "no" or dv is False) and nm not in ("disable", "fixable"):
                    d[nm] = True
            for k in ("disable", "fixable"):
                d.pop(k, None)
            if d:
                conf[r["id"]] = d
        return None, [{"rule": conf}]
    if name in ("ws001_off", "ws001_warning"):
        # trailing blanks are nobody's business in phase 1: the engine's own clean up after phase 1 is then the
        # only thing that touches them
        return None, [{"rule": {"whitespace_001": {"disable": True} if name == "ws001_off" else {"severity": "Warning"}}}]
    if name == "jcl":
        return "jcl", []
    if name == "indent_only":
        return "indent_only", []
    if name == "upper":
        return None, [{"rule": {"group": {"case": {"case": "upper"}}}}]
    if name == "all_enabled":
        return None, [{"rule": {r["id"]: {"disable": False} for r in tables["rules"] if not r["deprecated"] and r["phase"] != 0 and r["disable"]}}]
    if name == "optional_remove":
        # every rule option that has a documented alternative is flipped away from its default
        # (action: remove, parenthesis: remove, method: entity, clock: edge, style alternatives …)
        conf = {}
        for r in tables["rules"]:
            if r["deprecated"] or r["phase"] == 0:
                continue
            d = {}
            for nm in r["configuration"]:
                if nm in ("phase", "disable", "fixable", "severity", "user_error_message", "indent_style", "indent_size", "case", "number_of_spaces"):
                    continue
                vals = [v for v in option_values(r, nm) if v != r["defaults"].get(nm)]
                if vals and nm in ("action", "parenthesis", "method", "clock", "style"):
                    d[nm] = vals[0]
            if d:
                conf[r["id"]] = d
        return None, [{"rule": conf}]
    if name == "random":
        return None, [random_rule_config(tables, rng)]
    if name == "random_jcl":
        return "jcl", [random_rule_config(tables, rng, p_rule=0.1)]
    raise ValueError(name)
