"""
Self-test of the C18 check logic.  Never touches /repo: the real functions are monkeypatched in this process
with plausible bugs, a few corpus files are run through `props_c18.run_job`, and the outcome is compared with
what each mutation must produce.  Usage: /venv/bin/python harness/selftest_c18.py
"""
import os
import sys

sys.path.insert(0, os.path.dirname(os.path.abspath(__file__)))

import gen_inputs  # noqa: E402
import gen_tables  # noqa: E402
import props_c18 as P  # noqa: E402


def files():
    want = ["tests/styles/jcl/graphicsaccelerator/FrameBuffer2.vhd", "tests/rule_doc/styles", "tests/port_map/rule_007_test_input.vhd", "tests/if_statement/rule_004_test_input.vhd", "tests/generic/rule_002_test_input.vhd", "tests/case/rule_002_test_input.vhd"]
    fs = gen_inputs.corpus_files()
    out = [f for f in fs if any(f.endswith(w) for w in want)]
    return (out + fs[100:104])[:6]


def outcome(feats=("inv", "index", "replay"), mode="fix", config="default"):
    fails = set()
    breaks = set()
    for p in files():
        r = P.run_job({"path": p, "variant": "orig", "config": config, "features": list(feats), "mode": mode, "nlookups": 80})
        if r["parse"].startswith("harness"):
            raise RuntimeError(r["parse"])
        for f in r["failures"]:
            fails.add((f["site"], f["kind"]))
        for b in r["breaks"]:
            breaks.add(b["what"])
    return fails, breaks


KNOWN = {("get_line_count_between_tokens", "toiNotSlice"), ("get_lines_with_length_that_exceed_column", "toiNotSlice")}


def main():
    gen_tables.generate()
    P._init()
    from vsg import token_map
    from vsg.vhdlFile import extract
    import vsgrun  # noqa: F401

    VF = sys.modules["vsg.vhdlFile.vhdlFile"]
    from vsg.vhdlFile.extract import tokens as xt

    results = []

    def expect(name, cond, detail):
        results.append((name, bool(cond), detail))
        print("%-58s %s   %s" % (name, "ok" if cond else "WRONG", detail))

    # 0. clean tree: nothing but the two known findings, no correspondence break
    f, b = outcome()
    expect("clean tree: only known findings, no break", f <= KNOWN and not b, "fails=%r breaks=%r" % (sorted(f), sorted(b)))

    # 1. process_tokens forgets the comma alias  ->  stored index != recomputation (stale) + correspondence break
    real_pt = token_map.process_tokens

    def bad_pt(lTokens):
        o = real_pt(lTokens)
        o.dMap.get("parser", {}).pop("comma", None)
        return o

    token_map.process_tokens = bad_pt
    VF.process_tokens = bad_pt
    try:
        f, b = outcome()
    finally:
        token_map.process_tokens = real_pt
        VF.process_tokens = real_pt
    expect("process_tokens drops the comma alias -> staleIndex + break", any(k == "staleIndex" for _, k in f) and any("processTokens" in x for x in b), "fails=%r breaks=%r" % (sorted(f)[:3], sorted(b)[:3]))

    # 2. update ignores bUpdateMap for every rule (remap switched off everywhere)  ->  staleIndex
    real_update = VF.vhdlFile.update

    def bad_update(self, lUpdates, bUpdateMap):
        return real_update(self, lUpdates, False)

    VF.vhdlFile.update = bad_update
    try:
        f, b = outcome(feats=("inv",))
    finally:
        VF.vhdlFile.update = real_update
    expect("update never re-indexes -> staleIndex", any(k == "staleIndex" for _, k in f), "fails=%r" % (sorted(f)[:4],))

    # 3. an extractor records a start that is off by one  ->  toiNotSlice at that extractor + correspondence break
    real_ex = extract.get_token_and_n_tokens_before_it

    def bad_ex(lTokens, iTokens, lAllTokens, oTokenMap):
        r = real_ex(lTokens, iTokens, lAllTokens, oTokenMap)
        return [xt.New(t.iStartIndex + 1, t.iLine, t.lTokens) for t in r]

    extract.get_token_and_n_tokens_before_it = bad_ex
    try:
        f, b = outcome(mode="check")
    finally:
        extract.get_token_and_n_tokens_before_it = real_ex
    expect("extractor start off by one -> toiNotSlice + break", ("get_token_and_n_tokens_before_it", "toiNotSlice") in f and any("get_token_and_n_tokens_before_it" in x for x in b), "fails=%r breaks=%r" % (sorted(f - KNOWN)[:3], sorted(b)[:3]))

    # 4. an extractor appends to the list the index handed out (disturbs the index it reads)  ->  staleIndex
    real_gm = extract.get_tokens_matching

    def bad_gm(lTokens, lAllTokens, oTokenMap):
        l = oTokenMap.get_token_indexes(lTokens[0]) if lTokens else []
        if l:
            l.append(l[-1])
        return real_gm(lTokens, lAllTokens, oTokenMap)

    extract.get_tokens_matching = bad_gm
    try:
        f, b = outcome(feats=("inv",), mode="check")
    finally:
        extract.get_tokens_matching = real_gm
    expect("extractor mutates the index -> staleIndex", any(k == "staleIndex" for _, k in f), "fails=%r" % (sorted(f - KNOWN)[:3],))

    # 5. bisect_left replaced by bisect_right in get_line_number_of_index  ->  correspondence break (line numbers)
    real_ln = token_map.New.get_line_number_of_index
    import bisect

    def bad_ln(self, iIndex):
        return bisect.bisect_right(self.dMap["parser"]["carriage_return"], iIndex) + 1

    token_map.New.get_line_number_of_index = bad_ln
    try:
        f, b = outcome(feats=("index",))
    finally:
        token_map.New.get_line_number_of_index = real_ln
    expect("bisect_right for bisect_left -> look-up break", any("get_line_number_of_index" in x for x in b), "breaks=%r" % (sorted(b)[:3],))

    # 6. harmless refactor: get_tokens_matching rewritten with a comprehension  ->  nothing
    def refactored(lTokens, lAllTokens, oTokenMap):
        lIndexes = sorted(i for oToken in lTokens for i in oTokenMap.get_token_indexes(oToken))
        return [xt.New(i, oTokenMap.get_line_number_of_index(i), [lAllTokens[i]]) for i in lIndexes]

    extract.get_tokens_matching = refactored
    try:
        f, b = outcome()
    finally:
        extract.get_tokens_matching = real_gm
    expect("harmless refactor of get_tokens_matching -> nothing", f <= KNOWN and not b, "fails=%r breaks=%r" % (sorted(f - KNOWN), sorted(b)))

    bad = [r for r in results if not r[1]]
    print("SELFTEST %s (%d/%d)" % ("FAILED" if bad else "passed", len(results) - len(bad), len(results)))
    return 1 if bad else 0


if __name__ == "__main__":
    sys.exit(main())
