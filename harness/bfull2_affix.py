"""
Plug-in of props_bfull2 (wp2b): the 52 naming rules token_prefix / token_suffix (+ between / between-unless / port-mode
extractor variants), real rule vs the Lean whole-rule function `BFull2/Affix.lean` (driver request AFX).

Per (rule, parsed file, option value): regions of interest (start, line, length), violations (line, start, solution
text) compared; the real `fix` and the real analysis must leave the token list untouched (unfixable, read-only).
Option values: the rule's default on every job; on a subset None, [], [""], upper-cased, a multi-element list.
"""
import leanio

FAMILY = "affix"


def enc_aff(a):
    if a is None:
        return "N"
    return "L" + ",".join(("e" if x == "" else leanio.enc_str(x)) for x in a)


def option_values(row, idx):
    d = row["affixes"]
    vals = [d]
    if idx % 4 == 0:
        extra = [None, [], [""], [x.upper() for x in (d or [])], (d or []) + ["X_", "Äb", "_x"], ["İ"], ["Σ"]]
        vals.append(extra[(idx // 4) % len(extra)])
    return vals


def requests(o, rules, snap, W, req, recs, idx):
    rows = W["tables"]["bfull2"].get("affix", [])
    objs = list(o.lAllObjects)
    vals = [t.value for t in objs]
    for row in rows:
        r = rules.get(row["id"])
        if r is None:
            continue
        attr = "prefixes" if row["kind"] == 0 else "suffixes"
        keep = getattr(r, attr)
        for a in option_values(row, idx):
            rec = {"tois": None, "viols": None, "exc": None, "changed": False}
            setattr(r, attr, a)
            r.exceptions = []
            r.regexp_exceptions = []
            r.violations = []
            try:
                lToi = r._get_tokens_of_interest(o)
                rec["tois"] = [(t.iStartIndex, t.iLine, len(t.lTokens)) for t in lToi]
                r._analyze(lToi)
                rec["viols"] = [(v.get_line_number(), v.oTokens.iStartIndex, v.get_solution()) for v in r.violations]
                r.violations = []
                r.fix(o, None)
            except Exception as e:  # noqa: BLE001
                rec["exc"] = type(e).__name__
            finally:
                r.violations = []
            if len(o.lAllObjects) != len(objs) or any(x is not y for x, y in zip(o.lAllObjects, objs)) or any(t.value != v for t, v in zip(objs, vals)):
                rec["changed"] = True
                snap.restore(o)
            req.append("AFX\t%s\t%s" % (row["id"], enc_aff(a)))
            recs.append((FAMILY, row["id"], (attr, a), rec))
        setattr(r, attr, keep)
        r.regexp_exceptions = []


def compare(out, path, variant, rid, cfg, real, rep):
    def mm(what, a, b):
        out["mismatch"].append({"family": FAMILY, "rule": rid, "path": path, "variant": variant, "cfg": [cfg[0], repr(cfg[1])], "what": what, "real": repr(a)[:600], "lean": repr(b)[:600]})

    if real["changed"]:
        out["findings"].append({"prop": "C06", "site": "token_prefix" if cfg[0] == "prefixes" else "token_suffix", "kind": "analysisChangedTokens", "rule": rid, "path": path, "variant": variant, "cfg": [cfg[0], repr(cfg[1])], "detail": "analysis / fix of an unfixable naming rule changed a token object or value"})
        out["findings"].append({"prop": "C03", "site": "token_prefix" if cfg[0] == "prefixes" else "token_suffix", "kind": "unfixableRuleChangedFile", "rule": rid, "path": path, "variant": variant, "cfg": [cfg[0], repr(cfg[1])], "detail": "analysis / fix of an unfixable naming rule changed the token list"})
    if rep.startswith("raise "):
        if real["exc"] != rep[6:]:
            mm("exception", real["exc"], rep[6:])
        else:
            out["nontrivial"] += 1
        return
    if not rep.startswith("ok "):
        mm("bad reply", None, rep[:200])
        return
    if real["exc"] is not None:
        mm("exception", real["exc"], None)
        return
    parts = rep[3:].split("|")
    if len(parts) != 2:
        mm("bad reply", None, rep[:200])
        return
    tois = [tuple(int(x) for x in t.split(",")) for t in parts[0].split(";")] if parts[0] else []
    viols = []
    if parts[1]:
        for v in parts[1].split(";"):
            a = v.split(",")
            viols.append((int(a[0]), int(a[1]), leanio.dec_str(a[2])))
    out["tois"] += len(real["tois"])
    out["viols"] += len(real["viols"])
    if real["tois"] != tois:
        mm("tois", real["tois"][:6], tois[:6])
        return
    if real["viols"] != viols:
        k = next((i for i, (x, y) in enumerate(zip(real["viols"], viols)) if x != y), min(len(real["viols"]), len(viols)))
        mm("violations (first difference at %d of %d/%d)" % (k, len(real["viols"]), len(viols)), real["viols"][k : k + 2], viols[k : k + 2])
        return
    if real["viols"]:
        out["nontrivial"] += 1
