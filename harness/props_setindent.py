"""
SETINDENT — development aid hooked into C05 / C08 (not a property): the Lean model of
`vsg/vhdlFile/indent/set_token_indent.py` + `config.read_indent_configuration` (lean/VsgModel/Indent/SetIndent.lean,
driver mode `setindent`) against the real code.

  (a) configuration: `config.read_indent_configuration` vs `readIndentConfiguration` on the default map and on
      user `indent:` sections (documented examples, random overrides of existing entries, unknown group / token)
  (b) function: the real `set_token_indent` vs `setTokenIndent` on the token list of every corpus file and of
      re-layout variants — as parsed, with sentinel old indents (shows which tokens are never written) and with
      random block-comment marks (`is_block_comment`, `block_comment_indent`), under the default map and under
      user overrides; the indent of EVERY token must agree.  `fresh` is checked against a real re-parse.
  (c) the theorems on the real code: `setIndent_layoutBlind` (two parses whose non-whitespace, non-carriage-return
      token sequences agree get the same indents), the witnesses of the negations (blank line, trailing comment,
      block-comment mark, stale indent) on real token objects
  (d) C08 end to end: after a real full fix run the in-memory indents against a fresh parse of the emitted text;
      every difference is classified by the model (block-comment mark / never-reset indent / indent or structure
      written after the last refresh) — an unexplained difference is a proof break

`run("SETINDENT", tier)` is the stand-alone entry (evidence/SETINDENT.json); `extra(res, tier)` adds the same
checks to a C05 / C08 run (coverage["setindent"]).
"""
import contextlib
import io
import json
import multiprocessing
import os
import re
import subprocess
import sys
import time

import common
import gen_inputs
import leanio

PROP_FILES = ["C05", "C08"]
TAG = "ag_setindent"

# ------------------------------------------------------------------ Lean side


def my_theorems():
    out = {}
    for pf in PROP_FILES:
        p = os.path.join(common.LEAN, "VsgProofs", "Properties", pf + ".lean")
        src = open(p, encoding="utf-8").read()
        m = re.search(r"BEGIN %s(.*?)END %s" % (TAG, TAG), src, flags=re.S)
        if not m:
            continue
        body = common.strip_comments("/-" + m.group(1) + "-/")
        ns = re.search(r"^namespace\s+(\S+)", src, flags=re.M).group(1)
        out[pf] = [ns + "." + t for t in re.findall(r"^theorem\s+([^\s:(\[{]+)", body, flags=re.M)]
    return out


def audit(thms_by_file):
    os.makedirs(common.OUT, exist_ok=True)
    tmp = os.path.join(common.OUT, "Audit_SETINDENT_%d.lean" % os.getpid())
    with open(tmp, "w") as f:
        for pf in thms_by_file:
            f.write("import VsgProofs.Properties.%s\n" % pf)
        for pf, ts in thms_by_file.items():
            for t in ts:
                f.write("#print axioms %s\n" % t)
    p = subprocess.run(["lake", "env", "lean", tmp], cwd=common.LEAN, stdout=subprocess.PIPE, stderr=subprocess.STDOUT, text=True)
    os.remove(tmp)
    axioms = {}
    for m in re.finditer(r"'([^']+)' depends on axioms: \[([^\]]*)\]", p.stdout, flags=re.S):
        axioms[m.group(1)] = [a.strip() for a in m.group(2).replace("\n", " ").split(",") if a.strip()]
    for m in re.finditer(r"'([^']+)' does not depend on any axioms", p.stdout):
        axioms[m.group(1)] = []
    problems = []
    for ts in thms_by_file.values():
        for t in ts:
            if t not in axioms:
                problems.append("no axiom report for " + t)
            elif [a for a in axioms[t] if a not in common.ALLOWED_AXIOMS]:
                problems.append("%s depends on %s" % (t, axioms[t]))
    if p.returncode != 0:
        problems.append("audit file failed: " + p.stdout[-400:])
    return axioms, problems


# ------------------------------------------------------------------ wire


def enc_raw(v):
    if isinstance(v, bool) or not isinstance(v, (int, str)):
        raise ValueError("not a scalar the model knows: %r" % (v,))
    return ("i%d" % v) if isinstance(v, int) else ("s" + leanio.enc_str(v))


def enc_entries(tokens_dict):
    """`indent: tokens:` dictionary -> wire entries (file order)"""
    out = []
    for g, ks in tokens_dict.items():
        for k, ps in ks.items():
            for p, v in ps.items():
                out.append("%s,%s,%s,%s" % (leanio.enc_str(g), leanio.enc_str(k), leanio.enc_str(p), enc_raw(v)))
    return " ".join(out)


def dec_entries(s):
    out = []
    if not s:
        return out
    for x in s.split(" "):
        g, k, p, v = x.split(",")
        val = int(v[1:]) if v[0] == "i" else leanio.dec_str(v[1:])
        out.append((leanio.dec_str(g), leanio.dec_str(k), leanio.dec_str(p), val))
    return out


def flat_entries(tokens_dict):
    return [(g, k, p, v) for g, ks in tokens_dict.items() for k, ps in ks.items() for p, v in ps.items()]


def tok_flags(o):
    return (1 if getattr(o, "is_block_comment", False) else 0) + (2 if getattr(o, "block_comment_indent", None) == 0 else 0)


def enc_tok(o, ci, ncls):
    c = ci.of(o)
    ind = o.indent
    return "%d:%s:%s:%d" % (c if c >= 0 else ncls, leanio.enc_str(o.lower_value), "N" if ind is None else str(ind), tok_flags(o))


def enc_toks(toks, ci, ncls):
    return " ".join(enc_tok(o, ci, ncls) for o in toks)


def ind_str(v):
    return "N" if v is None else str(v)


# ------------------------------------------------------------------ user configurations

DOC_CONFIGS = {
    # docs/configuring_indentation.rst, example 1 and example 2
    "doc_port_close_paren": {"port_clause": {"close_parenthesis": {"token": "current", "after": "-2"}}},
    "doc_instantiation_flat": {
        "generic_map_aspect": {"generic_keyword": {"token": "current", "after": "current"}},
        "port_map_aspect": {"port_keyword": {"token": "current", "after": "current"}},
        "component_instantiation_statement": {"instantiation_label": {"token": "current", "after": "current"}, "semicolon": {"token": "current", "after": "current"}},
    },
    # the two extra keys of the use clause, and an integer written without quotes (`-1` is relative, `2` absolute)
    "use_clause_keys": {"use_clause": {"keyword": {"token_after_library_clause": "+2", "token_if_no_matching_library_clause": "current"}}, "library_clause": {"keyword": {"token": 1, "after": -1}}},
    "process_deeper": {"process_statement": {"begin_keyword": {"token": "current", "after": "+1"}, "end_keyword": {"token": "current", "after": "-2"}}, "architecture_body": {"begin_keyword": {"token": 0, "after": 2}}},
}
VALUES = [0, 1, 2, "current", "+1", "-1", "+2", "-2", -1, 3]


def random_user_config(default_tokens, rng, n=6):
    groups = list(default_tokens)
    out = {}
    for _ in range(n):
        g = rng.choice(groups)
        k = rng.choice(list(default_tokens[g]))
        p = rng.choice(list(default_tokens[g][k]))
        out.setdefault(g, {}).setdefault(k, {})[p] = rng.choice(VALUES)
    return out


def user_configs(default_tokens, tier):
    cfgs = dict(DOC_CONFIGS)
    rng = common.rng("setindent-cfg")
    for i in range(3 if tier == "quick" else 12):
        cfgs["random%d" % i] = random_user_config(default_tokens, rng)
    return cfgs


def real_read_indent(user_tokens):
    """config.read_indent_configuration as the real code runs it; ("ok", tokens dict) | ("exit", printed text)"""
    from vsg import config

    d = {} if user_tokens is None else {"indent": {"tokens": json.loads(json.dumps(user_tokens))}}
    buf = io.StringIO()
    try:
        with contextlib.redirect_stdout(buf):
            r = config.read_indent_configuration(d)
        return "ok", r["indent"]["tokens"]
    except SystemExit:
        return "exit", buf.getvalue()


def check_configs(res, tier, default_tokens, stats):
    """(a): merged maps agree entry by entry; unknown group / token is refused by both"""
    drv = leanio.Driver("setindent")
    n = 0
    bad = []
    cases = [(name, u) for name, u in user_configs(default_tokens, tier).items()]
    cases.append(("unknown_group", {"no_such_group": {"keyword": {"token": 1}}}))
    cases.append(("unknown_token", {"process_statement": {"no_such_token": {"token": 1}}}))
    cases.append(("new_parameter", {"process_statement": {"begin_keyword": {"some_new_key": "+1"}}}))
    # the default map itself
    tag, toks = real_read_indent(None)
    rep = drv.ask("MERGE\t")
    n += 1
    if tag != "ok" or not rep.startswith("ok") or dec_entries(rep[3:]) != flat_entries(toks):
        bad.append({"case": "default", "real": tag, "lean": rep[:200]})
    for name, u in cases:
        tag, toks = real_read_indent(u)
        rep = drv.ask("MERGE\t" + enc_entries(u))
        n += 1
        if tag == "ok":
            if not rep.startswith("ok") or dec_entries(rep[3:]) != flat_entries(toks):
                bad.append({"case": name, "user": u, "real": "ok", "lean": rep[:200]})
        else:
            kind = "group" if "following group does not exist" in toks else ("token" if "following token does not exist" in toks else "?")
            if not rep.startswith("err " + kind):
                bad.append({"case": name, "user": u, "real": "exit(%s): %s" % (kind, toks[:120]), "lean": rep[:200]})
    drv.close()
    stats["config_cases"] = n
    stats["config_mismatches"] = len(bad)
    for b in bad[:3]:
        res.proof_break("correspondence readIndentConfiguration vs config.read_indent_configuration", b)
    return n


# ------------------------------------------------------------------ workers

_W = {}


def _winit():
    import vsgrun

    tables = json.load(open(os.path.join(common.CACHE, "tables.json")))
    _W["tables"] = tables
    _W["ci"] = vsgrun.ClassIndex(tables)
    _W["ncls"] = len(tables["classes"])
    _W["drv"] = leanio.Driver("setindent")
    _W["cfg"] = {}
    _W["map"] = None
    from vsg import parser

    _W["layout"] = (parser.whitespace, parser.carriage_return)


def _config(name, user):
    """(cla, oConfig) for a named user indent configuration (None = default)"""
    import vsgrun

    if name not in _W["cfg"]:
        if user is None:
            _W["cfg"][name] = vsgrun.make_config()
        else:
            _W["cfg"][name] = vsgrun.make_config(conf_dicts=[{"indent": {"tokens": user}}])
    return _W["cfg"][name]


def _use_map(name, oConfig):
    """tell the driver which indent map the real run uses (the map of the real configuration object)"""
    if _W["map"] != name:
        rep = _W["drv"].ask("MAP\t" + enc_entries(oConfig.dIndent["indent"]["tokens"]))
        if rep != "ok":
            raise RuntimeError("driver MAP: %r" % rep[:200])
        _W["map"] = name


def _text(job):
    if "text" in job:
        return job["text"]
    text = gen_inputs.read_text(job["path"])
    if job.get("variant", "orig") != "orig":
        rng = common.rng("setindent/%s/%s" % (job["path"], job["variant"]))
        if job["variant"] == "layout":
            # whitespace and line breaks only: no blank line and no comment is added or removed
            text = gen_inputs.relayout(text, rng, ws=0.5, split=0.2, tabs=False)
        elif job["variant"] == "blank":
            text = gen_inputs.relayout(text, rng, ws=0.2, blank=0.15)
        else:
            text = gen_inputs.variant(text, rng, job["variant"])
    return text


def _parse(job, cla, oc):
    import vsgrun

    text = _text(job)
    lines = vsgrun.text_to_lines(text)
    with contextlib.redirect_stdout(io.StringIO()):
        o = vsgrun.parse(lines, cla, oc)
    return o, lines


def _first_diff(lean, real):
    for i, (a, b) in enumerate(zip(lean, real)):
        if a != b:
            return i
    return min(len(lean), len(real)) if len(lean) != len(real) else None


def _describe(toks, i):
    lo, hi = max(0, i - 3), min(len(toks), i + 3)
    return [(type(t).__module__.replace("vsg.token.", "").replace("vsg.", "") + "." + type(t).__name__, t.value[:20]) for t in toks[lo:hi]]


def corr_job(job):
    """(b) + the stripped signature for (c).  Returns a dict of plain data."""
    from vsg.vhdlFile.indent import set_token_indent as sti

    out = {"job": {k: v for k, v in job.items() if k != "user"}, "status": "ok", "mism": [], "n_tok": 0, "runs": 0, "never_written": {}, "unknown_cls": 0}
    ci, ncls, drv = _W["ci"], _W["ncls"], _W["drv"]
    try:
        cla, oc = _config(job["cfg"], job.get("user"))
        o, lines = _parse(job, cla, oc)
    except Exception as e:  # noqa: BLE001 - rejected input / parser crash: C04's and C19's business
        out["status"] = "rejected:%s" % type(e).__name__
        return out
    _use_map(job["cfg"], oc)
    toks = o.lAllObjects
    out["n_tok"] = len(toks)
    out["unknown_cls"] = sum(1 for t in toks if ci.of(t) < 0)
    parsed = [t.indent for t in toks]  # = set_token_indent on freshly created tokens
    rng = common.rng("setindent-marks/%s/%s" % (job.get("path", "text"), job.get("variant")))

    def one(label, prep):
        prep()
        req = enc_toks(toks, ci, ncls)
        before = [t.indent for t in toks]
        try:
            sti.set_token_indent(oc.dIndent, toks)
            real = "ok " + " ".join(ind_str(t.indent) for t in toks)
        except Exception as e:  # noqa: BLE001
            real = "err " + type(e).__name__
        lean = drv.ask("RUN\t" + req)
        out["runs"] += 1
        if lean != real:
            i = _first_diff(lean.split(" "), real.split(" "))
            out["mism"].append({"label": label, "lean": lean[:80], "real": real[:80], "index": None if i is None else i - 1, "around": _describe(toks, max((i or 1) - 1, 0)), "lean_i": lean.split(" ")[i] if i is not None and i < len(lean.split(" ")) else None, "real_i": real.split(" ")[i] if i is not None and i < len(real.split(" ")) else None})
        return before, req

    # 1. as parsed (second call on the same objects: idempotence on the real code)
    one("as_parsed", lambda: None)
    if [t.indent for t in toks] != parsed:
        out["mism"].append({"label": "real second call changed indents (setIndent_idem on the real code)"})

    # 2. sentinel old indents: tokens that keep the sentinel are never written
    def sentinels():
        for i, t in enumerate(toks):
            t.indent = 70 + (i % 3)

    before, _ = one("sentinel", sentinels)
    for t, b in zip(toks, before):
        if t.indent == b and not isinstance(t, _W["layout"]):
            nm = type(t).__module__.replace("vsg.token.", "").replace("vsg.", "") + "." + type(t).__name__
            out["never_written"][nm] = out["never_written"].get(nm, 0) + 1

    # 3. random block-comment marks (what block_rule.set_token_indent leaves behind), old indents none
    from vsg import parser

    def marks():
        for t in toks:
            t.indent = None
            if isinstance(t, parser.comment) and rng.random() < 0.5:
                t.is_block_comment = True
                t.block_comment_indent = 0 if rng.random() < 0.5 else None

    _, req = one("block_marks", marks)
    # `fresh` of the marked list = the real fresh parse
    lean = drv.ask("FRESH\t" + req)
    out["runs"] += 1
    real = "ok " + " ".join(ind_str(v) for v in parsed)
    if lean != real:
        i = _first_diff(lean.split(" "), real.split(" "))
        out["mism"].append({"label": "fresh", "lean": lean[:80], "real": real[:80], "index": None if i is None else i - 1, "around": _describe(toks, max((i or 1) - 1, 0))})
    out["n_block_marked"] = sum(1 for t in toks if getattr(t, "is_block_comment", False))
    # signature for (c): non-layout tokens (class, lower value) and their indents as parsed
    import hashlib

    keep = [(t, v) for t, v in zip(toks, parsed) if not isinstance(t, _W["layout"])]
    sig = [(ci.of(t), t.lower_value) for t, _ in keep]
    out["sig_hash"] = hashlib.md5(repr(sig).encode()).hexdigest()
    out["sig_indents"] = [v for _, v in keep]
    # the same without blank-line tokens (for the variants that add empty lines)
    keep_nb = [(t, v) for t, v in keep if not isinstance(t, parser.blank_line)]
    out["sig_nb_hash"] = hashlib.md5(repr([(ci.of(t), t.lower_value) for t, _ in keep_nb]).encode()).hexdigest()
    out["sig_nb_indents"] = [v for _, v in keep_nb]
    return out


# ------------------------------------------------------------------ (d) C08 end to end


def e2e_job(job):
    """a real full fix run; in-memory indents vs a fresh parse of the emitted text; classification by the model"""
    import vsgrun
    from vsg import parser

    out = {"job": job, "status": "ok", "diffs": [], "n_tok": 0, "counts": {}, "corr": [], "writers": {}}
    ci, ncls, drv = _W["ci"], _W["ncls"], _W["drv"]
    tables = _W["tables"]
    try:
        key = "e2e:" + job["cfg"]
        if key not in _W["cfg"]:
            rng = common.rng("setindent-e2e-cfg/" + job["cfg"])
            if job["cfg"] == "block_no_indent":
                style, confs = None, [{"rule": dict({r["id"]: {"disable": False} for r in tables["rules"] if r["id"].startswith("block_comment_")}, **{"block_comment_001": {"disable": False, "allow_indenting": "no"}, "block_comment_002": {"disable": False, "allow_indenting": "no"}, "block_comment_003": {"disable": False, "allow_indenting": "no"}})}]
            else:
                style, confs = gen_inputs.named_config(job["cfg"], tables, rng)
            _W["cfg"][key] = vsgrun.make_config(style=style, conf_dicts=confs)
        cla, oc = _W["cfg"][key]
        text = _text(job)
        lines = vsgrun.text_to_lines(text)
        with contextlib.redirect_stdout(io.StringIO()):
            o = vsgrun.parse(lines, cla, oc)
    except Exception as e:  # noqa: BLE001
        out["status"] = "rejected:%s" % type(e).__name__
        return out
    _use_map("e2e:" + job["cfg"], oc)
    rl = vsgrun.new_rule_list(o, oc)
    # who writes `indent` behind the last refresh (attribution only; cheap identity snapshots)
    state = {"armed": False, "snap": None}
    real_sti = o.set_token_indent

    def set_token_indent():
        r = real_sti()
        state["armed"] = True
        state["snap"] = {id(t): t.indent for t in o.lAllObjects}
        return r

    o.set_token_indent = set_token_indent

    def wrap(oRule):
        real_fix = oRule.fix

        def fix(oF, dFixOnly=None):
            r = real_fix(oF, dFixOnly)
            if state["armed"]:
                snap = state["snap"]
                n = 0
                for t in o.lAllObjects:
                    old = snap.get(id(t), "new")
                    if old != "new" and old != t.indent and not isinstance(t, _W["layout"]):
                        n += 1
                        snap[id(t)] = t.indent
                if n:
                    out["writers"][oRule.unique_id] = out["writers"].get(oRule.unique_id, 0) + n
            return r

        oRule.fix = fix

    for r in rl.rules:
        wrap(r)
    try:
        with contextlib.redirect_stdout(io.StringIO()):
            rl.fix(7, [], None)
    except Exception as e:  # noqa: BLE001 - C19's business
        out["status"] = "fixcrash:%s" % type(e).__name__
        return out
    mem = o.lAllObjects
    text1 = o.get_lines()[1:]
    try:
        with contextlib.redirect_stdout(io.StringIO()):
            o2 = vsgrun.parse(text1, cla, oc)
    except Exception as e:  # noqa: BLE001
        out["status"] = "reparse_rejected:%s" % type(e).__name__
        return out
    fresh_real = o2.lAllObjects
    out["n_tok"] = len(mem)
    if [(ci.of(a), a.value) for a in mem] != [(ci.of(b), b.value) for b in fresh_real]:
        # class / value differences are the other half of C08 (classifier, tokenizer): not this slice
        out["status"] = "tokens_differ"
        return out
    req = enc_toks(mem, ci, ncls)
    plan = drv.ask("PLAN\t" + req)
    run = drv.ask("RUN\t" + req)
    fre = drv.ask("FRESH\t" + req)
    real_fresh = "ok " + " ".join(ind_str(t.indent) for t in fresh_real)
    if fre != real_fresh:
        i = _first_diff(fre.split(" "), real_fresh.split(" "))
        out["corr"].append({"what": "FRESH of the in-memory list vs the real fresh parse", "lean": fre[:60], "real": real_fresh[:60], "index": None if i is None else i - 1, "around": _describe(mem, max((i or 1) - 1, 0))})
        return out
    if not (plan.startswith("ok") and run.startswith("ok")):
        out["corr"].append({"what": "model raises on the in-memory list", "plan": plan[:60], "run": run[:60]})
        return out
    W = plan.split(" ")[1:]
    R = run.split(" ")[1:]
    F = fre.split(" ")[1:]
    for i, t in enumerate(mem):
        if isinstance(t, _W["layout"]):
            continue
        m = ind_str(t.indent)
        if m == F[i]:
            continue
        causes = []
        if getattr(t, "is_block_comment", False):
            causes.append("blockMark")
        if W[i] == "-" and m != "N":
            causes.append("neverReset")
        if R[i] != m:
            causes.append("writtenAfterRefresh")
        if not causes:
            causes.append("UNEXPLAINED")
        c = "+".join(causes)
        out["counts"][c] = out["counts"].get(c, 0) + 1
        if len(out["diffs"]) < 3:
            out["diffs"].append({"index": i, "class": type(t).__module__.replace("vsg.", "") + "." + type(t).__name__, "value": t.value[:30], "memory": m, "fresh": F[i], "model_refresh": R[i], "write": W[i], "cause": c})
    return out


# ------------------------------------------------------------------ (c) witnesses on real objects


def real_witnesses():
    """the concrete lists of the Lean witnesses, built from real token objects"""
    import vsgrun
    from vsg import parser, token
    from vsg.vhdlFile.indent import set_token_indent as sti

    cla, oc = vsgrun.make_config()
    d = oc.dIndent
    w = {}

    def run(toks):
        try:
            sti.set_token_indent(d, toks)
            return [t.indent for t in toks]
        except Exception as e:  # noqa: BLE001
            return "raises " + type(e).__name__

    lib, ctx = token.library_clause.keyword("library"), token.context_reference.keyword("context")
    w["setIndent_not_blankLineBlind"] = {"real": [run([lib, ctx]), run([token.library_clause.keyword("library"), parser.blank_line(), token.context_reference.keyword("context")])], "lean": [[0, 1], [0, None, 0]]}
    w["setIndent_trailingComment_raises"] = {"real": [run([parser.comment("-- c")]), run([parser.comment("-- c"), parser.whitespace(" ")])], "lean": ["raises IndexError", [0, None]]}
    a1, c1, a2 = token.architecture_body.architecture_keyword("architecture"), parser.comment("-- c"), token.architecture_body.architecture_keyword("architecture")
    c1.is_block_comment = True
    w["indent_agree_false_blockComment"] = {"real": [run([a1, c1, a2]), run([token.architecture_body.architecture_keyword("architecture"), parser.comment("-- c"), token.architecture_body.architecture_keyword("architecture")])], "lean": [[0, 1, 0], [0, 0, 0]]}
    s = token.architecture_body.semicolon(";")
    s.indent = 5
    w["indent_agree_false_staleIndent"] = {"real": [run([s]), run([token.architecture_body.semicolon(";")])], "lean": [[5], [None]]}
    # the same blank-line witness through the real parser
    t1 = ["library ieee;", "context ieee.ieee_std_context;"]
    t2 = ["library ieee;", "", "context ieee.ieee_std_context;"]
    r = []
    for t in (t1, t2):
        o = vsgrun.parse(t, cla, oc)
        r.append([x.indent for x in o.lAllObjects if isinstance(x, token.context_reference.keyword)])
    w["setIndent_not_blankLineBlind (parsed text)"] = {"real": r, "lean": [[1], [0]], "texts": ["\n".join(t1), "\n".join(t2)]}
    return w


# ------------------------------------------------------------------ jobs


def corr_jobs(tier, ucfgs, light=False):
    files = gen_inputs.corpus_files()
    if light:
        # the hook inside a C05 run: every third corpus file
        files = files[::3]
    jobs = [{"path": f, "variant": "orig", "cfg": "default"} for f in files]
    step = 3 if tier == "quick" else 1
    for i, f in enumerate(files):
        if i % step == 0:
            jobs.append({"path": f, "variant": "layout", "cfg": "default"})
        if i % (step * 2) == 0:
            jobs.append({"path": f, "variant": "blank", "cfg": "default"})
        if i % (step * 4) == 1:
            for v in ("comments", "messy", "lines", "glue"):
                jobs.append({"path": f, "variant": v, "cfg": "default"})
    names = sorted(ucfgs)
    for i, f in enumerate(files):
        if i % (step * 2) == 1:
            nm = names[(i // 2) % len(names)]
            jobs.append({"path": f, "variant": "orig" if i % 4 == 1 else "layout", "cfg": nm, "user": ucfgs[nm]})
    return jobs


def e2e_jobs(tier):
    files = gen_inputs.corpus_files()
    rng = common.rng("setindent-e2e")
    n = 70 if tier == "quick" else 600
    small = [f for f in files if os.path.getsize(f) < 6000]
    pick = rng.sample(small, min(n, len(small)))
    jobs = []
    for i, f in enumerate(pick):
        jobs.append({"path": f, "variant": "orig" if i % 2 else "messy", "cfg": ("default", "all_enabled", "block_no_indent")[i % 3]})
    # the inputs of the known C08 indent findings
    jobs.append({"text": "architecture rtl    of fifo is\nbegin\n       process\n  begin\n------------------------------<-    80 chars    ->------------------------------\n--| Comment\n--------------------------------------------------------------------------------\n        end   process;\nend  architecture rtl;\n", "variant": "orig", "cfg": "all_enabled"})
    jobs.append({"text": "architecture rtl    of fifo is\nbegin\n       process\n  begin\n------------------------------<-    80 chars    ->------------------------------\n--| Comment\n--------------------------------------------------------------------------------\n        end   process;\nend  architecture rtl;\n", "variant": "orig", "cfg": "block_no_indent"})
    jobs.append({"text": "\nuse ieee.std_logic_1164.all;-- c\n", "variant": "orig", "cfg": "all_enabled"})
    return jobs


# ------------------------------------------------------------------ checks


ALL_PARTS = ("config", "witness", "corr", "e2e")


def checks(res, tier, parts=ALL_PARTS, light=False):
    stats = {}
    n_eval = 0
    tables = json.load(open(os.path.join(common.CACHE, "tables.json")))
    default_tokens = {}
    for g, k, p, v in tables["indent"]["rows"]:
        default_tokens.setdefault(g, {}).setdefault(k, {})[p] = v
    ucfgs = user_configs(default_tokens, tier)
    if "config" in parts:
        t0 = time.time()
        n_eval += check_configs(res, tier, default_tokens, stats)
        stats["t_config"] = round(time.time() - t0, 1)

    if "witness" in parts:
        wit = real_witnesses()
        stats["witnesses_on_real_code"] = wit
        n_eval += len(wit)
        for name, w in wit.items():
            if w["real"] != w["lean"]:
                res.proof_break("witness %s does not reproduce on the real code" % name, w)

    results, eres, ejobs = [], [], []
    with multiprocessing.Pool(min(16, os.cpu_count() or 4), initializer=_winit) as pool:
        if "corr" in parts:
            t0 = time.time()
            jobs = corr_jobs(tier, ucfgs, light)
            results = pool.map(corr_job, jobs, chunksize=8)
            stats["t_corr"] = round(time.time() - t0, 1)
        if "e2e" in parts:
            t0 = time.time()
            ejobs = e2e_jobs(tier)
            eres = pool.map(e2e_job, ejobs, chunksize=1)
            stats["t_e2e"] = round(time.time() - t0, 1)
    if "corr" in parts:
        n_eval += eval_corr(res, results, jobs, stats)
    if "e2e" in parts:
        n_eval += eval_e2e(res, eres, ejobs, stats)
    return stats, n_eval


def eval_corr(res, results, jobs, stats):
    ok = [r for r in results if r["status"] == "ok"]
    mism = [r for r in ok if r["mism"]]
    for r in mism[:5]:
        res.proof_break("correspondence setTokenIndent vs set_token_indent", {"job": r["job"], "mismatches": r["mism"][:2]})
    never = {}
    for r in ok:
        if r["job"]["cfg"] == "default":
            for k, v in r["never_written"].items():
                never[k] = never.get(k, 0) + v
    stats.update(
        {
            "corr_jobs": len(jobs),
            "corr_rejected": len(results) - len(ok),
            "corr_runs": sum(r["runs"] for r in ok),
            "corr_tokens": sum(r["n_tok"] for r in ok),
            "corr_mismatching_jobs": len(mism),
            "corr_block_marked_comments": sum(r.get("n_block_marked", 0) for r in ok),
            "corr_tokens_of_unknown_class": sum(r["unknown_cls"] for r in ok),
            "corr_by_config": {c: sum(1 for r in ok if r["job"]["cfg"] == c) for c in sorted({r["job"]["cfg"] for r in ok})},
            "corr_by_variant": {c: sum(1 for r in ok if r["job"]["variant"] == c) for c in sorted({r["job"]["variant"] for r in ok})},
            "never_written_classes_seen_default_map": never,
        }
    )
    # the real never-written classes must be the four of `neverSet_default_classes`
    allowed = {"parser.blank_line", "architecture_body.semicolon", "concurrent_simple_signal_assignment.semicolon", "concurrent_conditional_signal_assignment.semicolon"}
    if set(never) - allowed:
        res.proof_break("neverSet_default_classes: a real token of another class kept its sentinel indent", sorted(set(never) - allowed))

    # (c) layout blindness on the real code: group by (path, cfg)
    by = {}
    for r in ok:
        if "path" in r["job"]:
            by.setdefault((r["job"]["path"], r["job"]["cfg"]), {})[r["job"]["variant"]] = r
    lb = {"pairs": 0, "comparable": 0, "agree": 0, "not_comparable_tokens_differ": 0, "blank_pairs": 0, "blank_same_code": 0, "blank_indents_differ": 0}
    samples = []
    for (path, cfg), d in by.items():
        a = d.get("orig")
        if a is None:
            continue
        b = d.get("layout")
        if b is not None:
            lb["pairs"] += 1
            if a["sig_hash"] == b["sig_hash"]:
                lb["comparable"] += 1
                if a["sig_indents"] == b["sig_indents"]:
                    lb["agree"] += 1
                else:
                    res.proof_break("setIndent_layoutBlind on the real code", {"path": path, "cfg": cfg, "variant": "layout"})
            else:
                lb["not_comparable_tokens_differ"] += 1
        c = d.get("blank")
        if c is not None:
            lb["blank_pairs"] += 1
            # same tokens apart from blank lines?
            if c["sig_nb_hash"] == a["sig_nb_hash"]:
                lb["blank_same_code"] += 1
                if a["sig_nb_indents"] != c["sig_nb_indents"]:
                    lb["blank_indents_differ"] += 1
                    if len(samples) < 3:
                        i = _first_diff(a["sig_nb_indents"], c["sig_nb_indents"])
                        samples.append({"path": path, "index_among_non_layout_tokens": i, "orig": a["sig_nb_indents"][i], "with_blank_lines": c["sig_nb_indents"][i], "note": "adding blank lines changed the indent of a token (setIndent_not_blankLineBlind in the wild)"})
    stats["layout_blind_real"] = lb
    stats["layout_blind_samples"] = samples
    return stats["corr_runs"]


def eval_e2e(res, eres, ejobs, stats):
    eok = [r for r in eres if r["status"] == "ok"]
    counts = {}
    writers = {}
    for r in eok:
        for k, v in r["counts"].items():
            counts[k] = counts.get(k, 0) + v
        if r["counts"]:
            for k, v in r["writers"].items():
                writers[k] = writers.get(k, 0) + v
    for r in eok:
        for c in r["corr"][:1]:
            res.proof_break("correspondence on the in-memory list after a fix run", {"job": r["job"], "detail": c})
    if counts.get("UNEXPLAINED"):
        bad = [r for r in eok if any(d["cause"] == "UNEXPLAINED" for d in r["diffs"])]
        res.proof_break("indent_agree_partial: a difference between memory and re-parse that the model does not explain", {"job": bad[0]["job"] if bad else None, "diffs": bad[0]["diffs"] if bad else None})
    stats["c08_e2e"] = {
        "jobs": len(ejobs),
        "compared": len(eok),
        "status": {s: sum(1 for r in eres if r["status"] == s) for s in sorted({r["status"] for r in eres})},
        "tokens": sum(r["n_tok"] for r in eok),
        "runs_with_indent_difference": sum(1 for r in eok if r["counts"]),
        "differences_by_cause": counts,
        "indent_writers_behind_last_refresh": writers,
        "samples": [{"job": {k: (v if k != "text" else v[:60]) for k, v in r["job"].items()}, "diffs": r["diffs"][:2]} for r in eok if r["diffs"]][:4],
    }
    return len(eok) * 3


def extra(res, tier, prop=None):
    """hook for props_c05 (configuration + function correspondence + layout blindness on every third corpus file)
    and props_reparse / C08 (witnesses + end-to-end classification); evidence under coverage["setindent"]"""
    if prop == "C05":
        stats, n = checks(res, tier, ("config", "witness", "corr"), light=True)
    elif prop == "C08":
        stats, n = checks(res, tier, ("witness", "e2e"))
    else:
        stats, n = checks(res, tier)
    stats["evaluations"] = n
    res.coverage["setindent"] = stats
    return stats


def run(prop, tier):
    res = common.Result(prop, tier)
    import gen_tables

    gen_tables.generate()
    ok_model, out_model, _ = common.lake_build(["VsgModel", "driver"])
    if not ok_model:
        for d in common.failed_decls(out_model):
            res.proof_break("model build: %s:%s %s" % (d["file"], d["line"], d["decl"]), d["message"])
        return res.finish(1, 0, "lake build VsgModel driver", [])
    ok_proofs, out_proofs, _ = common.lake_build(["VsgProofs.Properties." + pf for pf in PROP_FILES])
    thms_by_file = my_theorems()
    all_thms = [t for ts in thms_by_file.values() for t in ts]
    discharged = 0
    axioms = {}
    if not ok_proofs:
        fd = common.failed_decls(out_proofs)
        for d in fd:
            res.proof_break("theorem %s (%s:%s)" % (d["decl"], d["file"], d["line"]), d["message"])
        if not fd:
            res.proof_break("proof build", out_proofs[-600:])
    else:
        axioms, problems = audit(thms_by_file)
        for pr in problems:
            res.proof_break("axiom audit", pr)
        discharged = sum(1 for t in all_thms if t in axioms and all(a in common.ALLOWED_AXIOMS for a in axioms[t]))
    for h in common.forbidden_tokens():
        res.proof_break("forbidden token", h)
        discharged = 0
    thms = [{"name": t, "axioms": axioms.get(t)} for t in all_thms]
    stats, n = checks(res, tier)
    res.coverage.update(
        {
            "evaluations": n,
            "distinct_nontrivial": stats["corr_jobs"] - stats["corr_rejected"],
            "rule": "an evaluation = one token list through the real set_token_indent and the Lean driver (RUN / FRESH / PLAN), or one user indent section through config.read_indent_configuration and MERGE; distinct_nontrivial = parsed (file, variant, indent configuration) jobs",
            "samples": stats["c08_e2e"]["samples"][:3] or [{"note": "no indent difference between memory and re-parse in the explored fix runs"}],
        }
    )
    res.coverage.update(stats)
    res.assumptions = [
        "indent values outside int / 'current' / '[+-]digits' are outside the model (the real run goes on with a non-integer indent); none is generated",
        "an exception inside set_token_indent leaves the real list partially written; the model only says which exception",
        "class / value agreement of the fresh parse is not this slice (runs where it fails are counted as tokens_differ)",
    ]
    return res.finish(max(len(all_thms), 1), discharged, "cd lean && lake build VsgProofs.Properties.C05 VsgProofs.Properties.C08", thms)


def replay(prop, path):
    d = json.load(open(path))
    print(json.dumps(d, indent=1)[:3000])
    return 0


if __name__ == "__main__":
    sys.exit(run("SETINDENT", sys.argv[1] if len(sys.argv) > 1 else "quick"))
