"""
C06 C15 — the two frame properties.

In the Lean models analyses / apply_rules are functions, so the theorems of
VsgProofs/Properties/C06.lean and C15.lean REDUCE each property to a frame hypothesis about Python
side effects (`Frame view rs`, `GFrame view apply`).  This module tests those hypotheses and the
properties themselves on the real code:

C06  per (file, variant, configuration) job, in-process:
       1. snapshot of every token's instance attributes, the token list, the text, the token index, the
          file object, every rule object's __dict__ and the module-level state around
          `check_rules(bAllPhases=True)`, with a cheap token diff around every rule's `analyze`;
       2. `clear_violations(); check_rules()` repeated (all-phases and gated);
       3. disabled subsets D (random, the rules that write attributes, whole phases, everything but one
          rule, and every analysed rule on its own) from a pristine state with a fresh rule list;
          a difference is minimised by bisection and confirmed on a fresh parse with a configuration
          FILE before it is reported;
       4. shuffled rule lists (orders inside each sub-phase);
     the expected outcome of 2-4 (analysis order, per-rule entries, counters, printed report) comes
     from the Lean `check_rules` model run by `driver frame` on the constant analyses observed in 1.
C15  batches of files: `apply_rules` sequentially in one fresh process in several orders versus each file
     alone in its own fresh process; deep comparison of the module-level state around every call; the CLI
     with -p 1/2/8, permutations, --stdin; the expected result list comes from the Lean scheduler model.
"""
import collections
import contextlib
import hashlib
import copy
import io
import json
import multiprocessing
import os
import shutil
import subprocess
import sys
import tempfile
import time
import traceback

sys.path.insert(0, os.path.dirname(os.path.abspath(__file__)))

import common  # noqa: E402
import gen_inputs  # noqa: E402
import leanio  # noqa: E402

VSG = "/venv/bin/vsg"

RULE = {
    "C06": "an evaluation = one check run of the real rule_list on one (file, variant, configuration) job: baseline with attribute snapshots, repeats, runs with a disabled subset D, runs with a shuffled rule list, single-rule runs; non-trivial = a distinct (job, D) pair in which D removed at least one violation of the baseline report; expected reports, analysis order and counters are computed by the Lean check_rules model (driver frame) from the baseline",
    "C15": "an evaluation = one apply_rules call (in-process) or one file of a CLI run; non-trivial = a distinct (batch, permutation, jobs) triple in which at least two files have violations; results are compared with the file processed alone in a fresh interpreter; the expected result list (order, truncation after a configuration error, exit status) is computed by the Lean scheduler model (driver frame)",
}


# ====================================================================== shared helpers


def canon(x, depth=0, seen=None):
    """value -> JSON-able structure without object identities (classes / functions by qualified name)"""
    if isinstance(x, (str, int, float, bool, type(None))):
        return x
    if isinstance(x, type):
        return "<class %s.%s>" % (x.__module__, x.__qualname__)
    if seen is None:
        seen = ()
    if id(x) in seen or depth > 8:
        return "<rec>"
    seen = seen + (id(x),)
    if isinstance(x, dict):
        return {str(k) if isinstance(k, (str, int, float, bool, type(None))) else repr(canon(k, depth + 1, seen)): canon(v, depth + 1, seen) for k, v in x.items()}
    if isinstance(x, (list, tuple)):
        return [canon(v, depth + 1, seen) for v in x]
    if isinstance(x, (set, frozenset)):
        return sorted(json.dumps(canon(v, depth + 1, seen), sort_keys=True, default=str) for v in x)
    if hasattr(x, "pattern") and hasattr(x, "flags"):
        return "<re %r %d>" % (x.pattern, x.flags)
    if callable(x) and hasattr(x, "__qualname__"):
        return "<fn %s.%s>" % (getattr(x, "__module__", "?"), x.__qualname__)
    if hasattr(x, "__dict__") and not isinstance(x, type(sys)):
        return {"<obj>": "%s.%s" % (type(x).__module__, type(x).__qualname__), **{str(k): canon(v, depth + 1, seen) for k, v in vars(x).items()}}
    if isinstance(x, type(sys)):
        return "<module %s>" % x.__name__
    return "<%s>" % type(x).__name__


def dict_diff(a, b, prefix="", out=None, limit=12):
    """paths at which two canon() structures differ"""
    if out is None:
        out = []
    if len(out) >= limit:
        return out
    if isinstance(a, dict) and isinstance(b, dict):
        for k in sorted(set(a) | set(b), key=str):
            if k not in a:
                out.append("%s.%s: <absent> -> %s" % (prefix, k, json.dumps(b[k], default=str)[:80]))
            elif k not in b:
                out.append("%s.%s: %s -> <absent>" % (prefix, k, json.dumps(a[k], default=str)[:80]))
            elif a[k] != b[k]:
                dict_diff(a[k], b[k], "%s.%s" % (prefix, k), out, limit)
            if len(out) >= limit:
                break
    elif isinstance(a, list) and isinstance(b, list) and len(a) == len(b):
        for i, (x, y) in enumerate(zip(a, b)):
            if x != y:
                dict_diff(x, y, "%s[%d]" % (prefix, i), out, limit)
            if len(out) >= limit:
                break
    elif a != b:
        out.append("%s: %s -> %s" % (prefix, json.dumps(a, default=str)[:80], json.dumps(b, default=str)[:80]))
    return out


def short_owner(cls):
    """`vsg.rules.token_indent.token_indent` -> `token_indent`; `vsg.rules.library.rule_009.rule_009` -> `library.rule_009`"""
    parts = (cls.__module__ + "." + cls.__qualname__).split(".")
    if parts[:2] == ["vsg", "rules"]:
        parts = parts[2:]
    if len(parts) >= 2 and parts[-1] == parts[-2]:
        parts = parts[:-1]
    return ".".join(parts)


def analyze_owner(oRule):
    """the class that defines the `_analyze` this rule runs (the site of an analysis side effect)"""
    for c in type(oRule).__mro__:
        if "_analyze" in vars(c):
            return short_owner(c)
    return short_owner(type(oRule))


def _function_state(out, label, fn):
    """the mutable state a function object carries between calls: default argument values (`def f(x=[])`),
    keyword-only defaults and closure cells holding containers"""
    try:
        for i, d in enumerate(fn.__defaults__ or ()):
            if isinstance(d, (list, dict, set)):
                out["%s.<default %d>" % (label, i)] = canon(d)
        for kk, d in (fn.__kwdefaults__ or {}).items():
            if isinstance(d, (list, dict, set)):
                out["%s.<kwdefault %s>" % (label, kk)] = canon(d)
        for i, c in enumerate(fn.__closure__ or ()):
            try:
                d = c.cell_contents
            except ValueError:
                continue
            if isinstance(d, (list, dict, set)):
                out["%s.<closure %d>" % (label, i)] = canon(d)
    except Exception:  # noqa: BLE001
        pass


def module_state(extra=None):
    """deep, identity-free picture of the module-level mutable state a file's processing can read:
    every list / dict / set global of every loaded vsg module (config.dPragmas, the token maps of
    vhdlFile, the lTokens lists of vsg.rules.*, …), objects held in globals (vhdlFile.default_conf,
    default_cla), and the mutable class attributes of every class defined in a vsg module (rule
    classes, token classes, option classes)."""
    out = {}
    for name, mod in list(sys.modules.items()):
        if not (name == "vsg" or name.startswith("vsg.")) or mod is None:
            continue
        try:
            g = vars(mod)
        except TypeError:
            continue
        for k, v in list(g.items()):
            if k.startswith("__"):
                continue
            if isinstance(v, (list, dict, set)):
                out["%s.%s" % (name, k)] = canon(v)
            elif isinstance(v, type):
                if v.__module__ == name:
                    for ak, av in list(vars(v).items()):
                        if isinstance(av, (staticmethod, classmethod)):
                            av = av.__func__
                        if callable(av) and hasattr(av, "__code__"):
                            # methods incl. __init__: their mutable default arguments are process-wide state too
                            _function_state(out, "%s.%s.%s" % (name, k, ak), av)
                        if ak.startswith("__"):
                            continue
                        if isinstance(av, (list, dict, set)):
                            out["%s.%s.%s" % (name, k, ak)] = canon(av)
            elif callable(v) and hasattr(v, "__code__") and getattr(v, "__module__", None) == name:
                _function_state(out, "%s.%s" % (name, k), v)
            elif isinstance(v, type(sys)) or callable(v) or isinstance(v, (str, int, float, bool, type(None), tuple)):
                if isinstance(v, (str, int, float, bool, type(None))):
                    out["%s.%s" % (name, k)] = v
            elif hasattr(v, "__dict__"):
                out["%s.%s" % (name, k)] = canon(v)
    if extra:
        for k, v in extra.items():
            out[k] = canon(v)
    return out


def state_diff(a, b):
    """names (with a short description) of the entries of two module_state() pictures that differ"""
    out = []
    for k in sorted(set(a) | set(b)):
        if k not in a:
            continue  # a module imported in between (rule modules are imported by the first load_rules): not a mutation
        if a[k] != b.get(k, "<absent>"):
            d = dict_diff(a[k], b.get(k, "<absent>"), "", None, 3)
            out.append((k, "; ".join(d)[:300]))
    return out


# ====================================================================== C06 (worker side)

_W = {}


def _c06_init():
    import vsgrun  # noqa: F401

    _W["tables"] = json.load(open(os.path.join(common.CACHE, "tables.json")))
    _W["configs"] = {}
    _W["driver"] = None


USE_CURRENT = {"indent": {"tokens": {"use_clause": {"keyword": {"token_after_library_clause": "current", "token_if_no_matching_library_clause": "current"}}}}}
USE_NOMATCH = {"indent": {"tokens": {"use_clause": {"keyword": {"token_if_no_matching_library_clause": "current"}}}}}


BLOCK_ON = {"rule": {"block_comment_001": {"disable": False}, "block_comment_002": {"disable": False}, "block_comment_003": {"disable": False}}}


def c06_named_config(name, tables, rng):
    """(style, [configuration dictionaries]) — the families of gen_inputs plus the documented use-clause
    indent options (docs/configuring_use_clause_indenting.rst)"""
    if name == "use_current":
        return None, [USE_CURRENT]
    if name == "use_nomatch":
        return None, [USE_NOMATCH]
    if name == "block_on":
        return None, [BLOCK_ON]
    if name == "block_on_random":
        return None, [gen_inputs.random_rule_config(tables, rng), BLOCK_ON]
    if name == "use_nomatch_random":
        return None, [USE_NOMATCH, gen_inputs.random_rule_config(tables, rng)]
    return gen_inputs.named_config(name, tables, rng)


def c06_config(job):
    import random

    import vsgrun

    key = (job["config"], job.get("cseed"))
    if key not in _W["configs"]:
        style, dicts = c06_named_config(job["config"], _W["tables"], random.Random("cfg/%s/%s" % key))
        cla, oc = vsgrun.make_config(style=style, conf_dicts=dicts)
        _W["configs"][key] = (cla, oc, style, dicts)
    return _W["configs"][key]


def comment_variant(text, rng, p=0.5):
    """own-line comments (random column) in front of lines that start with `use`, `library`, `context`
    and, with a smaller probability, any other line — the construct the known indent channel needs"""
    out = []
    for line in text.split("\n"):
        s = line.lstrip().lower()
        q = p if s.startswith(("use ", "library ", "context ")) else 0.03
        if s and not s.startswith("--") and rng.random() < q:
            for _ in range(rng.choice([1, 1, 2])):
                out.append(" " * rng.choice([0, 0, 2, 2, 4, len(line) - len(line.lstrip())]) + "-- note")
        out.append(line)
    return "\n".join(out)


def blockcomment_variant(text, rng, p=0.06):
    """block comments (header / body / footer, docs/configuring_block_comments.rst) in front of some lines;
    body lines in the shapes other comment rules look at (no space after `--`, doxygen, plain)"""
    out = []
    for line in text.split("\n"):
        s = line.strip()
        if s and not s.startswith("--") and rng.random() < p:
            ind = " " * rng.choice([0, 0, len(line) - len(line.lstrip())])
            bar = ind + "--" + rng.choice(["-", "=", "+-"]) * rng.choice([20, 40, 78])
            out.append(bar)
            for _ in range(rng.choice([1, 2, 3])):
                out.append(ind + rng.choice(["--text", "-- text", "--| text", "--!text", "--  text"]))
            out.append(bar)
        out.append(line)
    return "\n".join(out)


def c06_text(job):
    import random

    if "text" in job:
        return job["text"]
    text = gen_inputs.read_text(job["path"])
    v = job.get("variant", "orig")
    rng = random.Random("var/%s/%s/%s" % (common.rel(job["path"]), v, job.get("vseed")))
    if v == "orig":
        return text
    if v == "usecomments":
        return comment_variant(text, rng)
    if v == "blockcomments":
        return blockcomment_variant(text, rng)
    return gen_inputs.variant(text, rng, v)


def viol_key(v):
    """what a violation is, identity-free: line, solution, action, where its tokens start and what they say"""
    try:
        toi = v.oTokens
        where = (toi.iStartIndex, toi.iEndIndex) if hasattr(toi, "iStartIndex") else None
    except Exception:  # noqa: BLE001
        where = None
    return (v.get_line_number(), v.get_solution(), json.dumps(canon(v.get_action()), sort_keys=True, default=str), where)


def report_of(rl):
    return {r.unique_id: [viol_key(v) for v in r.violations] for r in rl.rules if r.violations}


def save_tokens(lAll):
    return [(t, {k: (list(v) if isinstance(v, list) else v) for k, v in t.__dict__.items()}) for t in lAll]


def restore_tokens(saved):
    for t, d in saved:
        dd = t.__dict__
        dd.clear()
        dd.update({k: (list(v) if isinstance(v, list) else v) for k, v in d.items()})


def token_changes(saved, limit=6):
    """[(index, attr, old, new)] of tokens whose instance attributes differ from the snapshot"""
    out = []
    for i, (t, d) in enumerate(saved):
        if t.__dict__ != d:
            cur = t.__dict__
            for k in sorted(set(cur) | set(d)):
                if cur.get(k, "<unset>") != d.get(k, "<unset>"):
                    out.append((i, k, d.get(k, "<unset>"), cur.get(k, "<unset>")))
            if len(out) >= limit:
                break
    return out


def file_picture(o):
    """the file object without the token objects (those are compared attribute by attribute)"""
    d = {}
    for k, v in vars(o).items():
        if k in ("lAllObjects", "configuration", "commandLineArguments", "oTokenMap") or callable(v):
            continue
        d[k] = canon(v)
    d["<lines>"] = list(o.get_lines())
    d["<token map>"] = canon(getattr(o.oTokenMap, "__dict__", {}))
    return d


def rule_picture(rl):
    return {r.unique_id: canon({k: v for k, v in vars(r).items() if k not in ("violations", "analyze")}) for r in rl.rules}


def disabled_config(oc, D):
    """the configuration `c ∖ D`: what merging a file `rule: {id: {disable: True}}` gives"""
    ocD = copy.copy(oc)
    ocD.dConfig = copy.deepcopy(oc.dConfig) if oc.dConfig else {}
    ocD.dConfig.setdefault("rule", {})
    for d in D:
        e = ocD.dConfig["rule"].get(d)
        if not isinstance(e, dict):
            e = {}
        else:
            e = dict(e)
        e["disable"] = True
        ocD.dConfig["rule"][d] = e
    return ocD


class LeanCheck:
    """the Lean `check_rules` model on the rule table of one job (constant analyses = the baseline)"""

    def __init__(self):
        if _W.get("driver") is None:
            _W["driver"] = leanio.Driver("frame")
        self.d = _W["driver"]
        self.acts = {}
        self.ids = []

    def act(self, rule, vk):
        k = (rule, vk[1], vk[2], vk[3])
        if k not in self.acts:
            self.acts[k] = len(self.acts)
        return self.acts[k]

    def load(self, rules, V0):
        from vsg import severity

        self.d.send("RULES")
        self.ids = [r.unique_id for r in rules]
        for r in rules:
            ph = r.phase if isinstance(r.phase, int) else -1
            sb = r.subphase if isinstance(r.subphase, int) else -1
            vs = " ".join("%d:%d" % (vk[0], self.act(r.unique_id, vk)) for vk in V0.get(r.unique_id, []))
            self.d.send("RULE\t%s\t%d\t%d\t%d\t%d\t%s" % (r.unique_id, ph, sb, 1 if r.disable else 0, 1 if r.severity.type == severity.error_type else 0, vs))

    def check(self, ap, skip, D, perm=None):
        line = self.d.ask("CHECK\t%d\t%s\t%s\t%s" % (1 if ap else 0, " ".join(map(str, skip)), " ".join(D), " ".join(map(str, perm or []))))
        if not line.startswith("C "):
            raise RuntimeError("driver frame: " + line)
        head, _, lg = line[2:].partition(" log=")
        kv = dict(x.split("=") for x in head.split())
        log = []
        if lg:
            for e in lg.split(";"):
                rid, _, vs = e.partition("=")
                log.append((rid, [tuple(map(int, x.split(":"))) for x in vs.split(",") if x]))
        return {"ran": int(kv["ran"]), "last": int(kv["last"]), "viol": kv["viol"] == "1", "log": log}

    def report(self, ap, skip, D, perm=None):
        line = self.d.ask("REPORT\t%d\t%s\t%s\t%s" % (1 if ap else 0, " ".join(map(str, skip)), " ".join(D), " ".join(map(str, perm or []))))
        if not line.startswith("P"):
            raise RuntimeError("driver frame: " + line)
        return [(a, int(b), int(c)) for a, b, c in (x.rsplit(":", 2) for x in line[1:].split())]

    def encode(self, order, V):
        """a real run in the driver's terms"""
        return [(rid, [(vk[0], self.act(rid, vk)) for vk in V.get(rid, [])]) for rid in order]


C06_JOB_ALARM_S = 300


class C06Timeout(BaseException):
    pass


def _c06_alarm(signum, frame):
    raise C06Timeout()


def c06_job(job):
    import signal

    box = {}
    signal.signal(signal.SIGALRM, _c06_alarm)
    signal.alarm(C06_JOB_ALARM_S)
    try:
        return c06_job_inner(job, box)
    except C06Timeout:
        # what was established before the budget ran out is kept (a shared-state leak typically shows in the first
        # comparison and then makes every further run slower); a timeout alone is a note, never a violation
        out = box.get("out") or {"job": {k: v for k, v in job.items() if k != "text"}, "parse": "ok", "failures": [], "breaks": [], "runs": 0, "nontrivial": [], "stats": {}}
        out["stats"] = dict(out.get("stats", {}))
        out["stats"]["timeouts"] = 1
        out["nontrivial"] = sorted(set(out.get("nontrivial", [])))
        return out
    except Exception as e:  # noqa: BLE001
        tb = traceback.extract_tb(e.__traceback__)
        inner = tb[-1].filename if tb else ""
        out = box.get("out")
        if out is not None and box.get("stage") and os.path.abspath(inner).startswith(os.path.abspath(common.REPO) + os.sep):
            # the real code raised.  In the baseline run that is C19's business (the input is skipped here); in a later
            # run - same input, same configuration minus some rules, or simply again - the baseline did NOT raise, so the
            # outcome of an analysis depends on what else was analysed
            out["stats"] = dict(out.get("stats", {}))
            out["nontrivial"] = sorted(set(out.get("nontrivial", [])))
            if box["stage"] == "baseline":
                out["parse"] = "crash: %r" % (e,)
                out["failures"] = []
                return out
            fn = next((f for f in reversed(tb) if "/vsg/rules/" in f.filename), tb[-1])
            site = os.path.relpath(fn.filename, common.REPO)[:-3].replace("vsg/rules/", "").replace("/", "_")
            out["failures"].append({"site": site, "kind": "laterRunRaises:%s" % type(e).__name__, "detail": "the baseline check_rules finished, %s raised %r at %s:%d (%s)" % (box["stage"], e, os.path.relpath(tb[-1].filename, common.REPO), tb[-1].lineno, tb[-1].name), "input": box.get("describe", lambda **kw: {})(stage=box["stage"])})
            return out
        # an error of the harness, never a violation
        return {"job": {k: v for k, v in job.items() if k != "text"}, "parse": "harness: " + traceback.format_exc()[-1500:], "failures": [], "breaks": [], "runs": 0, "nontrivial": [], "stats": {}}
    finally:
        signal.alarm(0)


def c06_job_inner(job, box=None):
    import random

    import vsgrun
    from vsg import exceptions as vexc
    from vsg import parser as vparser
    from vsg import rule_list as vrule_list

    t_start = time.time()
    out = {"job": {k: v for k, v in job.items() if k != "text"}, "parse": "ok", "failures": [], "breaks": [], "runs": 0, "nontrivial": [], "stats": collections.Counter(), "writers": {}, "rule_state": {}, "samples": []}
    if box is not None:
        box["out"] = out
    cla, oc, style, dicts = c06_config(job)
    text = c06_text(job)
    lines = vsgrun.text_to_lines(text)
    rng = random.Random("c06/%s/%s/%s/%s/%d" % (common.rel(job.get("path")), job.get("variant"), job.get("vseed"), job["config"], common.seed()))

    def describe(**kw):
        d = {k: job[k] for k in ("path", "variant", "vseed", "config", "cseed") if k in job}
        d.update({"style": style, "config_dicts": dicts, "text": text})
        d.update(kw)
        return d

    def fail(site, kind, detail, **kw):
        out["failures"].append({"site": site, "kind": kind, "detail": detail, "input": describe(**kw)})

    if box is None:
        box = {}
    box["describe"] = describe
    try:
        o = vsgrun.parse(lines, cla, oc)
    except vexc.ClassifyError:
        out["parse"] = "rejected"
        return out
    except Exception as e:  # noqa: BLE001 - C19's business
        out["parse"] = "crash: %r" % (e,)
        return out

    lAll0 = list(o.lAllObjects)
    saved0 = save_tokens(lAll0)
    types0 = [type(t) for t in lAll0]
    file0 = file_picture(o)
    map0 = copy.deepcopy(getattr(o.oTokenMap, "__dict__", {}))
    mod0 = module_state() if job.get("modstate") else None

    # ------------------------------------------------------------ 1. baseline with snapshots
    rl0 = vsgrun.new_rule_list(o, oc)
    by_id = {r.unique_id: r for r in rl0.rules}
    if len(by_id) != len(rl0.rules):
        out["breaks"].append({"what": "rule identifiers are not unique", "detail": "the Lean report is keyed by identifier"})
    rules0 = rule_picture(rl0)
    writes = {}  # rule -> [(token index, attr, old, new)]
    saved_run = save_tokens(lAll0)
    ctx0 = {"order": [], "rule": None, "after": None}

    def after_analyze(r, oF):
        ch = token_changes(saved_run)
        if ch or oF.lAllObjects != lAll0:
            writes.setdefault(r.unique_id, []).extend(ch[:4])
            if oF.lAllObjects != lAll0:
                writes[r.unique_id].append((-1, "<token list>", len(lAll0), len(oF.lAllObjects)))
            saved_run[:] = save_tokens(lAll0)

    for r in rl0.rules:
        wrap_ctx(r, ctx0)
    ctx0["after"] = after_analyze
    box["stage"] = "baseline"
    rl0.check_rules(bAllPhases=True)
    box["stage"] = "a repeated or reduced run after the baseline"
    ctx0["after"] = None
    order0 = list(ctx0["order"])
    out["runs"] += 1
    V0 = report_of(rl0)
    counters0 = (rl0.iNumberRulesRan, rl0.lastPhaseRan, bool(rl0.violations))
    analysed = list(order0)
    out["stats"]["rules_analysed"] = len(analysed)
    out["stats"]["tokens"] = len(lAll0)
    out["stats"]["baseline_violations"] = sum(len(v) for v in V0.values())

    # read-only: token attributes, classification, token list, text, index, file object, module state
    for rid, ch in writes.items():
        for i, attr, old, new in ch[:2]:
            site = analyze_owner(by_id[rid])
            tok = lAll0[i] if 0 <= i < len(lAll0) else None
            fail(site, "analysisWritesToken:%s" % attr, "%s.analyze changed `%s` of token %d (%s %r) from %r to %r" % (rid, attr, i, type(tok).__name__ if tok is not None else "-", getattr(tok, "value", None), old, new), rule=rid)
        out["writers"][rid] = sorted({c[1] for c in ch})
    if [type(t) for t in o.lAllObjects] != types0 or o.lAllObjects != lAll0:
        fail("rule_list.check_rules", "analysisChangesClassification", "token classes / token list differ after check_rules")
    file1 = file_picture(o)
    if file1 != file0:
        d = dict_diff(file0, file1)
        kind = "analysisChangesText" if file0["<lines>"] != file1["<lines>"] else "analysisWritesFile:%s" % (d[0].split(":")[0].strip(".").split(".")[0].split("[")[0] if d else "?")
        culprit = None
        if kind != "analysisChangesText" or not writes:
            culprit = localise_file_write(o, oc, saved0, file0, analysed)
        fail(analyze_owner(by_id[culprit]) if culprit in by_id else "rule_list.check_rules", kind, "file object differs after check_rules%s: %s" % ((" (first changed by %s)" % culprit) if culprit else "", "; ".join(d)[:400]), rule=culprit)
    if mod0 is not None:
        md = state_diff(mod0, module_state())
        for name, how in md[:3]:
            fail("rule_list.check_rules", "analysisWritesModuleState:%s" % name, how)
    file_leak = file1.get("<token map>") != file0.get("<token map>")

    def restore_file():
        """only after a write to the file's shared index was reported: later runs start from the parsed index again,
        so that one leak is one finding and cannot make the remaining runs grow without bound"""
        if file_leak:
            o.oTokenMap.__dict__.clear()
            o.oTokenMap.__dict__.update(copy.deepcopy(map0))

    restore_file()
    rules1 = rule_picture(rl0)
    for rid in rules0:
        if rules0[rid] != rules1[rid]:
            for a in sorted(set(rules0[rid]) | set(rules1[rid])):
                if rules0[rid].get(a, "<unset>") != rules1[rid].get(a, "<unset>"):
                    out["rule_state"].setdefault(a, 0)
                    out["rule_state"][a] += 1

    # Lean model of check_rules on the observed constant analyses
    lean = LeanCheck()
    lean.load(rl0.rules, V0)
    idx_of = {rid: i for i, rid in enumerate(lean.ids)}

    def corr(what, real_order, real_V, real_counters, ap, D, perm=None):
        """the real run against the model's run: analysis order, per-rule entries, counters, report"""
        m = lean.check(ap, [], D, perm)
        real = lean.encode(real_order, real_V)
        ok = True
        if [e[0] for e in m["log"]] != [e[0] for e in real]:
            a, b = [e[0] for e in m["log"]], [e[0] for e in real]
            k = next((i for i, (x, y) in enumerate(zip(a, b)) if x != y), min(len(a), len(b)))
            out["breaks"].append({"what": "correspondence check_rules model vs rule_list.check_rules: analysis order (%s)" % what, "detail": {"first difference at": k, "model": a[k : k + 3], "real": b[k : k + 3], "input": describe(D=sorted(D)[:50], perm=bool(perm))}})
            ok = False
        if real_counters is not None and (m["ran"], m["last"], m["viol"]) != tuple(real_counters):
            out["breaks"].append({"what": "correspondence check_rules model vs rule_list.check_rules: counters (%s)" % what, "detail": {"model": (m["ran"], m["last"], m["viol"]), "real": real_counters, "input": describe(D=sorted(D)[:50])}})
            ok = False
        return m, real, ok

    m0, real0, _ = corr("baseline", order0, V0, counters0, True, [])
    if m0["log"] != real0:
        out["breaks"].append({"what": "driver frame does not reproduce the baseline it was given", "detail": describe()})

    # the printed report: rule-list order, stable sort by line (report_violations)
    try:
        rep_model = lean.report(True, [], [])
        rep_real = []
        for r in rl0.rules:
            for v in r.violations:
                rep_real.append((r.unique_id, v.get_line_number(), lean.act(r.unique_id, viol_key(v))))
        rep_real.sort(key=lambda x: int(x[1]))
        if rep_model != rep_real:
            out["breaks"].append({"what": "correspondence reportRaw/sortByLine vs report_violations order", "detail": {"model": rep_model[:5], "real": rep_real[:5], "input": describe()}})
    except Exception as e:  # noqa: BLE001
        out["breaks"].append({"what": "driver frame REPORT", "detail": repr(e)})

    # ------------------------------------------------------------ 2. repeat (same objects)
    potential = {}  # rule -> attrs assigned on a token of the file (same value or not)
    ids_all = set(map(id, lAll0))

    def hook(self, name, value):
        if ctx0["rule"] is not None and id(self) in ids_all:
            potential.setdefault(ctx0["rule"], set()).add(name)
        object.__setattr__(self, name, value)

    for k in (1, 2):
        ctx0["order"] = []
        rl0.clear_violations()
        restore_file()
        if k == 1:
            vparser.item.__setattr__ = hook
        try:
            rl0.check_rules(bAllPhases=True)
        finally:
            if k == 1:
                del vparser.item.__setattr__
        out["runs"] += 1
        Vk = report_of(rl0)
        if Vk != V0 or ctx0["order"] != analysed or (rl0.iNumberRulesRan, rl0.lastPhaseRan, bool(rl0.violations)) != counters0:
            bad = sorted(r for r in set(V0) | set(Vk) if V0.get(r) != Vk.get(r))
            site = bad[0] if bad else "rule_list.check_rules"
            fail(site, "repeatDiffers", "check #%d on the same objects: %s" % (k + 1, describe_change(V0, Vk, bad[:3])), repeat=k)
    # gated run twice, against the model
    gated = []
    for k in (1, 2):
        ctx0["order"] = []
        rl0.clear_violations()
        restore_file()
        rl0.check_rules(bAllPhases=False)
        out["runs"] += 1
        gated.append((report_of(rl0), list(ctx0["order"]), (rl0.iNumberRulesRan, rl0.lastPhaseRan, bool(rl0.violations))))
    if gated[0] != gated[1]:
        bad = sorted(r for r in set(gated[0][0]) | set(gated[1][0]) if gated[0][0].get(r) != gated[1][0].get(r))
        fail(bad[0] if bad else "rule_list.check_rules", "repeatDiffers", "gated check twice on the same objects: %s" % describe_change(gated[0][0], gated[1][0], bad[:3]), repeat="gated")
    mg, realg, okg = corr("gated", gated[0][1], gated[0][0], gated[0][2], False, [])
    if okg and mg["log"] != realg:
        bad = [a[0] for a, b in zip(mg["log"], realg) if a != b]
        fail(bad[0] if bad else "rule_list.check_rules", "gatedDiffersFromAllPhasesPrefix", "a rule reports something else in a gated run than in the all-phases run: %s" % bad[:3])
    rules2 = rule_picture(rl0)
    unstable = sorted(rid for rid in rules1 if rules1[rid] != rules2[rid])
    out["stats"]["rules_whose_state_changes_on_first_analysis"] = sum(1 for rid in rules0 if rules0[rid] != rules1[rid])
    out["stats"]["rules_whose_state_changes_again"] = len(unstable)
    for rid, attrs in potential.items():
        out["writers"].setdefault(rid, [])
        out["writers"][rid] = sorted(set(out["writers"][rid]) | {"(assigns) " + a for a in attrs})

    # ------------------------------------------------------------ 3. disabled subsets, pristine state
    def pristine():
        if o.lAllObjects != lAll0:
            o.lAllObjects[:] = lAll0
        restore_tokens(saved0)
        restore_file()

    def run_with(D, perm=None, ap=True):
        """V(x, c ∖ D) from the state a fresh parse gives, with a fresh rule list"""
        pristine()
        ocD = disabled_config(oc, D) if D else oc
        rl = vrule_list.rule_list(o, ocD.severity_list)
        rl.configure(ocD)
        if perm is not None:
            rl.rules = [rl.rules[i] for i in perm]
        ctx = {"order": [], "rule": None, "after": None}
        for r in rl.rules:
            wrap_ctx(r, ctx)
        rl.check_rules(bAllPhases=ap)
        out["runs"] += 1
        return report_of(rl), ctx["order"], (rl.iNumberRulesRan, rl.lastPhaseRan, bool(rl.violations)), rl

    def differs_for(D, rid):
        V, _, _, _ = run_with(D)
        return V.get(rid, []) != V0.get(rid, [])

    def minimise(D, rid):
        D = list(D)
        budget = 60
        while len(D) > 1 and budget > 0:
            h = len(D) // 2
            A, B = D[:h], D[h:]
            budget -= 1
            if differs_for(A, rid):
                D = A
                continue
            budget -= 1
            if differs_for(B, rid):
                D = B
                continue
            break
        for d in list(D):
            if len(D) <= 1 or budget <= 0:
                break
            D2 = [x for x in D if x != d]
            budget -= 1
            if differs_for(D2, rid):
                D = D2
        return D

    reported_pairs = set()

    def judge(D, V, order, counters, what, perm=None):
        """V must be V0 minus D's entries; analysis order and counters must be the model's"""
        Dset = set(D)
        expected = {r: v for r, v in V0.items() if r not in Dset}
        removed = sum(len(v) for r, v in V0.items() if r in Dset)
        if removed and perm is None:
            out["nontrivial"].append(json.dumps(sorted(Dset))[:2000] if len(Dset) < 40 else "D#%d:%s" % (len(Dset), hashlib.sha256(" ".join(sorted(Dset)).encode()).hexdigest()[:10]))
        corr(what, order, V, counters if V == expected else None, True, sorted(Dset), perm)
        if V == expected:
            return True
        for rid in sorted(set(V) | set(expected)):
            if V.get(rid, []) == expected.get(rid, []):
                continue
            if rid in Dset:
                fail(rid, "disabledRuleReports", "%s is disabled and still reports %d violation(s)" % (rid, len(V.get(rid, []))), D=sorted(Dset))
                continue
            if perm is not None:
                fail(rid, "dependsOnAnalysisOrder", "with the rule list shuffled (orders inside sub-phases only) %s: %s" % (rid, describe_change(V0, V, [rid])), perm=perm)
                continue
            if any(set(m) <= Dset for (r2, m) in reported_pairs if r2 == rid):
                continue  # already explained by a minimal set found earlier in this job
            if len({r2 for (r2, _) in reported_pairs}) >= 4:
                continue
            cand = [d for d in sorted(Dset) if d in out["writers"]]
            start = cand if cand and len(cand) < len(Dset) and differs_for(cand, rid) else sorted(Dset)
            Dmin = minimise(start, rid)
            key = (rid, tuple(Dmin))
            reported_pairs.add(key)
            confirmed, how = confirm_fresh(lines, cla, style, dicts, Dmin, rid)
            if not confirmed:
                out["breaks"].append({"what": "harness: a difference seen with restored tokens is not reproduced on a fresh parse", "detail": {"rule": rid, "D": Dmin, "how": how, "input": describe()}})
                continue
            same_phase = [d for d in Dmin if d in by_id and by_id[d].phase == by_id[rid].phase and by_id[d].subphase < by_id[rid].subphase]
            fail(
                rid,
                "dependsOnOtherRule",
                "disabling %s changes the violations of %s (phase %s.%s): %s%s; writers seen: %s" % (Dmin, rid, by_id[rid].phase, by_id[rid].subphase, how, (" [%s is in an earlier sub-phase of the same phase; in a check run nothing is fixed, so this is not the documented fix-time dependence]" % same_phase) if same_phase else "", {d: out["writers"].get(d) for d in Dmin if d in out["writers"]}),
                D=Dmin,
                rule=rid,
            )
        return False

    n_rand = job.get("nD", 10)
    probs = [0.5, 0.5, 0.2, 0.2, 0.05, 0.05, 0.8, 0.8, 0.5, 0.3, 0.1, 0.9, 0.5, 0.02, 0.3, 0.7][:n_rand]
    Dsets = []
    for p in probs:
        Dsets.append(("random p=%.2f" % p, [r for r in analysed if rng.random() < p]))
    wr = sorted(out["writers"])
    if wr:
        Dsets.append(("writers", [r for r in wr if r in by_id and r in analysed]))
    phases_present = sorted({by_id[r].phase for r in analysed})
    for ph in rng.sample(phases_present, min(2, len(phases_present))):
        Dsets.append(("phase %s" % ph, [r for r in analysed if by_id[r].phase == ph]))
    with_v = [r for r in analysed if r in V0]
    only = rng.sample(with_v, min(job.get("nOnly", 6), len(with_v))) + rng.sample(analysed, min(2, len(analysed)))
    for r in only:
        Dsets.append(("all but %s" % r, [x for x in analysed if x != r]))
    for what, D in Dsets:
        if not D:
            continue
        V, order, counters, _ = run_with(D)
        judge(D, V, order, counters, what)
    out["stats"]["D_runs"] = len(Dsets)

    # the same with ONE rule list object that has already been checked: configure it again with c ∖ D (the call
    # apply_rules uses to layer configuration sections), clear, check again — nothing remembered from the first
    # run may decide which rules the second run analyses
    Dre = next((D for _, D in Dsets if D and len(D) < len(analysed)), None)
    if Dre:
        pristine()
        rlr = vrule_list.rule_list(o, oc.severity_list)
        rlr.configure(oc)
        rlr.check_rules(bAllPhases=True)
        if report_of(rlr) != V0:
            fail("rule_list.check_rules", "repeatDiffers", "a second rule list on the pristine state reports differently: %s" % describe_change(V0, report_of(rlr), sorted(set(V0) | set(report_of(rlr)))[:3]))
        pristine()
        ocD = disabled_config(oc, Dre)
        rlr.configure(ocD)
        rlr.clear_violations()
        rlr.check_rules(bAllPhases=True)
        Vr = report_of(rlr)
        out["runs"] += 2
        expected = {r: v for r, v in V0.items() if r not in set(Dre)}
        # judged here: a rule of D that still reports (what the first run remembered decides what the second analyses);
        # differences at rules outside D are the interference the fresh-list runs above judge
        bad = [r for r in sorted(Dre) if Vr.get(r)]
        if bad:
            fail("rule_list.check_rules", "reconfiguredRuleListRemembers", "rule list checked, configured again with %d rule(s) disabled, cleared and checked again: %d of them still report, e.g. %s" % (len(Dre), len(bad), bad[:3]), D=sorted(Dre))
        out["stats"]["reconfigure_runs"] = out["stats"].get("reconfigure_runs", 0) + 1

    # every analysed rule on its own (D = all the others), directly through Rule.analyze
    pristine()
    rlS = vsgrun.new_rule_list(o, oc)
    solo_bad = []
    for r in rlS.rules:
        if r.unique_id not in idx_of or r.unique_id not in set(analysed):
            continue
        r.clear_violations()
        r.analyze(o)
        got = [viol_key(v) for v in r.violations]
        if got != V0.get(r.unique_id, []):
            solo_bad.append(r.unique_id)
        if token_changes(saved0, 1) or o.lAllObjects != lAll0:
            pristine()
    out["runs"] += 1
    out["stats"]["solo_rules"] = len(analysed)
    for rid in solo_bad[:4]:
        D = [x for x in analysed if x != rid]
        V, order, counters, _ = run_with(D)
        judge(D, V, order, counters, "all but %s (after the single-rule sweep)" % rid)

    # ------------------------------------------------------------ 4. orders inside sub-phases
    n = len(rl0.rules)
    perms = [list(range(n - 1, -1, -1))]
    p2 = list(range(n))
    rng.shuffle(p2)
    perms.append(p2)
    for perm in perms[: job.get("nPerm", 2)]:
        V, order, counters, rl = run_with([], perm=perm)
        if [r.unique_id for r in rl.rules] != [lean.ids[i] for i in perm]:
            out["breaks"].append({"what": "harness: load_rules order is not stable", "detail": ""})
            continue
        judge([], V, order, counters, "shuffled", perm=perm)
    pristine()
    out["stats"]["wall"] = round(time.time() - t_start, 2)
    if V0:
        out["samples"].append({"job": out["job"], "rules_with_violations": len(V0), "D_runs": len(Dsets), "nontrivial_D": len(set(out["nontrivial"]))})
    out["stats"] = dict(out["stats"])
    out["nontrivial"] = sorted(set(out["nontrivial"]))
    return out


def wrap_ctx(r, ctx):
    """instrument one rule object from outside: record the analysis order, name the running rule, call back"""
    real = type(r).analyze.__get__(r)

    def an(oF):
        ctx["order"].append(r.unique_id)
        ctx["rule"] = r.unique_id
        try:
            return real(oF)
        finally:
            ctx["rule"] = None
            if ctx.get("after") is not None:
                ctx["after"](r, oF)

    r.analyze = an


def describe_change(V0, V, rids):
    parts = []
    for rid in rids:
        a, b = V0.get(rid, []), V.get(rid, [])
        plus = [(x[0], x[1]) for x in b if x not in a]
        minus = [(x[0], x[1]) for x in a if x not in b]
        parts.append("%s: +%s -%s" % (rid, plus[:4], minus[:4]))
    return "; ".join(parts)


def localise_file_write(o, oc, saved0, file0, analysed):
    """which rule's analysis first changes the file object (fresh rule list, pristine tokens)"""
    import vsgrun

    restore_tokens(saved0)
    rl = vsgrun.new_rule_list(o, oc)
    by = {r.unique_id: r for r in rl.rules}
    for rid in analysed:
        by[rid].analyze(o)
        if file_picture(o) != file0:
            return rid
    return None


def confirm_fresh(lines, cla, style, dicts, D, rid):
    """the honest version of one disable experiment: fresh parse, configuration through config.New from
    FILES, fresh rule list — with and without D.  Returns (reproduced, description)"""
    import vsgrun

    def one(extra):
        cla2, oc2 = vsgrun.make_config(style=style, conf_dicts=list(dicts) + extra)
        o2 = vsgrun.parse(lines, cla2, oc2)
        rl2 = vsgrun.new_rule_list(o2, oc2)
        rl2.check_rules(bAllPhases=True)
        return report_of(rl2)

    Va = one([])
    Vb = one([{"rule": {d: {"disable": True} for d in D}}])
    if Va.get(rid, []) == Vb.get(rid, []):
        return False, "not reproduced"
    return True, describe_change(Va, Vb, [rid])


# ====================================================================== C06 (parent side)

C06_SEEDS = [
    # DEFAULT configuration: after a blank line the comment gets the plain comment indent (0), the `use` the
    # matching-library indent (1); library_009 rewrites the comment's indent to 1 while analysing
    ("seed_use_comment_default", "library ieee;\n  use ieee.std_logic_1164.all;\n\n  -- comment\n  use ieee.numeric_std.all;\n\nentity e is\nend entity e;\n"),
    # comment lines above a use clause whose indent differs from the hard-wired comment indent
    ("seed_use_comment", "library ieee;\n  use ieee.std_logic_1164.all;\n-- comment about work\nuse work.my_package.all;\n\nentity e is\nend entity e;\n"),
    ("seed_use_comment2", "library ieee;\n-- one\n    -- two\n  use ieee.std_logic_1164.all;\n  use ieee.numeric_std.all;\n\nlibrary other;\n  -- three\nuse other.p.all;\nuse work.q.all;\n\nentity e is\n  port (\n    a : in std_logic -- a\n  );\nend entity e;\n\narchitecture rtl of e is\n  -- sig\n  signal s : std_logic;\nbegin\n  s <= a;\nend architecture rtl;\n"),
]


C06_SEEDS.append(("seed_block_comment", "library ieee;\n\n--------------------------------------------------------------------------------\n--header line without a space\n-- second\n--------------------------------------------------------------------------------\n\nentity e is\nend entity e;\n"))


def c06_jobs(tier):
    rng = common.rng("c06jobs")
    files = gen_inputs.corpus_files()
    sample = list(files)
    rng.shuffle(sample)
    seedv = common.seed()
    jobs = []
    if tier == "quick":
        n_files, n_var, n_cfg, nD = 100, 60, 60, 10
    else:
        n_files, n_var, n_cfg, nD = len(sample), len(sample), len(sample), 10
    # big style files first: they exercise most rules
    styles = [f for f in files if "/styles/" in f and "/rule_doc/" not in f]
    rng.shuffle(styles)
    chosen = styles[: (8 if tier == "quick" else len(styles))] + sample[:n_files]
    seen = set()
    chosen = [f for f in chosen if not (f in seen or seen.add(f))]
    for i, p in enumerate(chosen):
        jobs.append({"path": p, "variant": "orig", "config": "default", "nD": nD, "modstate": i % 10 == 0})
    variants = ["usecomments", "comments", "messy", "blockcomments", "lines", "ws", "case", "usecomments", "tabs", "splitall"]
    for i in range(n_var):
        p = sample[(i * 3 + 1) % len(sample)] if i % 4 else styles[i % len(styles)]
        jobs.append({"path": p, "variant": variants[i % len(variants)], "vseed": seedv * 1000 + i, "config": ["default", "use_current", "block_on", "use_nomatch"][i % 4] if variants[i % len(variants)] != "blockcomments" else ["block_on", "all_enabled"][i % 2], "nD": nD})
    cfgs = ["use_nomatch", "random", "use_current", "jcl", "all_enabled", "use_nomatch_random", "random_jcl", "upper", "block_on_random"]
    for i in range(n_cfg):
        p = sample[(i * 7 + 3) % len(sample)] if i % 3 else styles[(i * 5) % len(styles)]
        c = cfgs[i % len(cfgs)]
        j = {"path": p, "variant": ["orig", "usecomments", "messy", "blockcomments"][i % 4], "vseed": seedv * 1000 + i, "config": c, "nD": nD}
        if "random" in c:
            j["cseed"] = seedv * 1000 + (i % 20)
        jobs.append(j)
    for name, text in C06_SEEDS:
        for c in ("default", "use_nomatch", "use_current", "block_on", "all_enabled"):
            jobs.append({"path": name, "text": text, "variant": "orig", "config": c, "nD": nD})
    return jobs


def run_c06(res, tier, tables):
    jobs = c06_jobs(tier)
    # longest first
    def size(j):
        try:
            return os.path.getsize(j["path"])
        except OSError:
            return 0

    jobs.sort(key=size, reverse=True)
    t0 = time.time()
    with multiprocessing.Pool(16, initializer=_c06_init) as pool:
        results = list(pool.imap_unordered(c06_job, jobs, chunksize=1))
    runs = 0
    nontrivial = set()
    stats = collections.Counter()
    parse = collections.Counter()
    writers = collections.Counter()
    rule_state = collections.Counter()
    samples = []
    configs = collections.Counter()
    variants = collections.Counter()
    fail_counts = collections.Counter()
    for r in results:
        runs += r["runs"]
        parse[r["parse"].split(":")[0]] += 1
        configs[r["job"].get("config")] += 1
        variants[r["job"].get("variant")] += 1
        jk = json.dumps(r["job"], sort_keys=True)
        for d in r["nontrivial"]:
            nontrivial.add((jk, d))
        for k, v in r.get("stats", {}).items():
            if isinstance(v, (int, float)):
                stats[k] += v
        for rid, attrs in r.get("writers", {}).items():
            for a in attrs:
                writers["%s:%s" % (rid, a)] += 1
        for a, n in r.get("rule_state", {}).items():
            rule_state[a] += n
        samples.extend(r.get("samples", [])[:1])
        if r["parse"].startswith("harness"):
            res.notes.append("harness error in %s: %s" % (r["job"], r["parse"][-600:]))
        for f in r["failures"]:
            fail_counts["%s|%s" % (f["site"], f["kind"])] += 1
            res.fail(f["site"], f["kind"], f["detail"], f["input"])
        for b in r["breaks"]:
            res.proof_break(b["what"], b["detail"])
    harness_errors = parse.get("harness", 0)
    if harness_errors:
        raise RuntimeError("%d C06 jobs failed inside the harness: %s" % (harness_errors, res.notes[:2]))
    res.coverage.update(
        {
            "evaluations": runs,
            "distinct_nontrivial": len(nontrivial),
            "rule": RULE["C06"],
            "samples": samples[:6],
            "jobs": len(jobs),
            "jobs_by_parse": dict(parse),
            "configs": dict(configs),
            "variants": dict(variants),
            "rules_analysed_total": stats.get("rules_analysed", 0),
            "single_rule_runs": stats.get("solo_rules", 0),
            "disabled_subset_runs": stats.get("D_runs", 0),
            "input_tokens": stats.get("tokens", 0),
            "baseline_violations": stats.get("baseline_violations", 0),
            "token_attribute_writers_seen": dict(writers.most_common(20)),
            "rule_attributes_rewritten_by_first_analysis": dict(rule_state.most_common(12)),
            "rules_whose_state_changes_again_on_second_analysis": stats.get("rules_whose_state_changes_again", 0),
            "failure_counts": dict(fail_counts),
            "jobs_stopped_by_the_per_job_budget": stats.get("timeouts", 0),
            "explore_wall_s": round(time.time() - t0, 1),
        }
    )
    res.assumptions = [
        "reduction: the Lean theorems hold for every input under `Frame view rs`; the hypothesis itself (analyses leave every observed attribute alone and read nothing else) is validated on the explored jobs only",
        "a disabled-subset run starts from the token attributes saved right after the parse and a fresh rule list configured with `disable: True` entries; every reported difference was reproduced on a fresh parse with the configuration read from files",
        "the clause about sub-phases is read as a fix-time clause: orders are only permuted inside (phase, sub-phase) groups, while the disable clause is checked without exemption",
        "rule objects rewrite some of their own option attributes on first analysis (yes/no -> bool, compiled regex); this is reported as coverage, the property is judged on reports",
    ]


# ====================================================================== C15 (child side)

PARSE_ERROR = "\narchitecture rtl of fifo is\n\nend architecture;\n"
PRAGMA_TEXT = """library ieee;
  use ieee.std_logic_1164.all;

entity pr is
  port (
    a : in    std_logic;
    -- synthesis translate_off
    dbg : out   std_logic;
    -- synthesis translate_on
    b : out   std_logic
  );
end entity pr;

architecture rtl of pr is

  -- mytool keep_hierarchy
  signal s : std_logic;
  -- pragma translate_off
  signal t : std_logic;
  -- pragma translate_on

begin

  --vhdl_comp_off
  b <= a;
  --vhdl_comp_on
  -- altera message_off
  s <= a;

end architecture rtl;
"""
CUSTOM_PRAGMAS = {"pragma": {"patterns": {"single": ["^\\s*--\\s+mytool\\s+\\w+\\s*$"], "open": ["^\\s*--\\s+pragma\\s+translate_off\\s*$"], "close": ["^\\s*--\\s+pragma\\s+translate_on\\s*$"]}}}


def ALT_FILE_RULES(names):
    fr = []
    for i, name in enumerate(names):
        if i % 2 == 0:
            fr.append({name: {"rule": {"group": {"case": {"case": "upper"}}}}})
        else:
            fr.append({name: {"rule": {"group": {"case": {"disable": True}}}}})
    return {"file_rules": fr}


def _junit_text(tc):
    if tc is None:
        return None
    try:
        return "\n".join(tc.build_junit())
    except Exception as e:  # noqa: BLE001
        return "<junit raised %r>" % (e,)


def c15_child(task):
    """Runs in a FRESH interpreter (see fresh_pool, one task per process): builds the
    configuration once (as `main` does) and calls the real apply_rules for the files of
    `task["sequence"]` one after another, stopping like `main` when the sixth component is true."""
    import warnings

    warnings.simplefilter("ignore")
    t0 = time.time()
    tmp = tempfile.mkdtemp(prefix="vsgverif-c15-")
    cwd = os.getcwd()
    out = {"id": task["id"], "records": [], "error": None, "config_exit": None}
    try:
        os.chdir(tmp)
        for name, text in task["files"]:
            os.makedirs(os.path.dirname(name) or ".", exist_ok=True)
            with open(name, "w", encoding="utf-8", newline="") as f:
                f.write(text)
        paths = []
        for i, d in enumerate(task.get("confs", [])):
            pth = "conf%d.json" % i
            with open(pth, "w") as f:
                json.dump(d, f)
            paths.append(pth)
        import vsgrun
        from vsg import apply_rules, config

        hook = task.get("selftest")
        if hook == "leak_pragmas":
            real = apply_rules.apply_rules

            def leaky(cla_, oc_, t_):
                r = real(cla_, oc_, t_)
                config.dPragmas["single"].append("^\\s*--\\s+note\\s*$")
                return r

            apply_rules.apply_rules = leaky
        elif hook == "leak_rule_class":
            from vsg import rule as vrule

            # a plausible bug: a class-level list shared by every rule object of every file
            vrule.Rule.lSeen = []
            real_add = vrule.Rule.add_violation

            def add(self, v):
                vrule.Rule.lSeen.append(1)
                if len(vrule.Rule.lSeen) % 7 == 0:
                    return None
                return real_add(self, v)

            vrule.Rule.add_violation = add
        cla = vsgrun.CLA(**task.get("cla", {}))
        cla.configuration = paths
        cla.filename = [n for n, _ in task["files"] if n in task["listed"]]
        buf = io.StringIO()
        try:
            with contextlib.redirect_stdout(buf):
                oConfig = config.New(cla)
        except SystemExit as e:
            out["config_exit"] = (e.code, buf.getvalue())
            return out
        snap = task.get("snap", True)
        for idx, name in task["sequence"]:
            extra = {"<oConfig>": vars(oConfig), "<cla>": vars(cla)}
            st0 = module_state(extra) if snap else None
            bo, be = io.StringIO(), io.StringIO()
            rec = {"name": name, "index": idx}
            try:
                with contextlib.redirect_stdout(bo), contextlib.redirect_stderr(be):
                    r = apply_rules.apply_rules(cla, oConfig, (idx, name))
                rec.update({"status": bool(r[0]), "status_raw": repr(r[0]), "junit": _junit_text(r[1]), "json": canon(r[2]), "out": r[3], "err": r[4], "stop": bool(r[5])})
            except BaseException as e:  # noqa: BLE001 - a crash is part of the file's result (C19 judges it)
                rec.update({"status": True, "status_raw": "raised", "junit": None, "json": None, "out": None, "err": "%s: %s" % (type(e).__name__, str(e)[:200]), "stop": True, "raised": True})
            rec["printed"] = (bo.getvalue(), be.getvalue())
            if task.get("cla", {}).get("fix"):
                try:
                    rec["fixed"] = open(name, encoding="utf-8", newline="").read()
                except Exception as e:  # noqa: BLE001
                    rec["fixed"] = "<unreadable %r>" % (e,)
                rec["left_behind"] = sorted(f for f in os.listdir(".") if f.endswith((".tmp", ".bak")))
            if snap:
                st1 = module_state({"<oConfig>": vars(oConfig), "<cla>": vars(cla)})
                rec["state_diff"] = state_diff(st0, st1)
                out["state_entries"] = len(st1)
            out["records"].append(rec)
            if rec["stop"]:
                break
    except BaseException:  # noqa: BLE001
        out["error"] = traceback.format_exc()[-1500:]
    finally:
        os.chdir(cwd)
        shutil.rmtree(tmp, ignore_errors=True)
    out["wall"] = round(time.time() - t0, 2)
    return out


REC_FIELDS = ("status", "status_raw", "junit", "json", "out", "err", "stop", "printed", "fixed", "left_behind")


def rec_key(rec):
    return json.dumps({k: rec.get(k) for k in REC_FIELDS}, sort_keys=True, default=str)


def rec_diff(a, b):
    return [k for k in REC_FIELDS if a.get(k) != b.get(k)]


# ====================================================================== C15 (CLI)


def c15_cli(task):
    """one run of the installed command line tool in a scratch directory (relative file names)"""
    tmp = tempfile.mkdtemp(prefix="vsgverif-c15cli-")
    out = {"id": task["id"]}
    try:
        for name, text in task["files"]:
            with open(os.path.join(tmp, name), "w", encoding="utf-8", newline="") as f:
                f.write(text)
        args = [VSG]
        paths = []
        for i, d in enumerate(task.get("confs", [])):
            with open(os.path.join(tmp, "conf%d.json" % i), "w") as f:
                json.dump(d, f)
            paths.append("conf%d.json" % i)
        if paths:
            args += ["-c"] + paths
        stdin_data = None
        if task.get("stdin"):
            args += ["--stdin"]
            stdin_data = dict(task["files"])[task["stdin"]]
        else:
            args += ["-f"] + list(task["order"])
        args += ["-p", str(task.get("jobs", 1)), "--json", "out.json"] + (["--junit", "out.xml"] if task.get("junit", True) else []) + list(task.get("args", []))
        env = dict(os.environ)
        env["PYTHONWARNINGS"] = "ignore"
        t0 = time.time()
        p = subprocess.run(args, cwd=tmp, input=stdin_data, stdout=subprocess.PIPE, stderr=subprocess.PIPE, text=True, env=env, timeout=600)
        out.update({"rc": p.returncode, "stdout": p.stdout, "stderr": p.stderr, "wall": round(time.time() - t0, 2), "args": args[1:]})
        try:
            out["json"] = json.load(open(os.path.join(tmp, "out.json")))
        except Exception:  # noqa: BLE001
            out["json"] = None
        try:
            out["junit"] = open(os.path.join(tmp, "out.xml")).read()
        except Exception:  # noqa: BLE001
            out["junit"] = None
        out["after"] = {}
        for name, _ in task["files"]:
            try:
                out["after"][name] = open(os.path.join(tmp, name), encoding="utf-8", newline="").read()
            except Exception as e:  # noqa: BLE001
                out["after"][name] = "<unreadable %r>" % (e,)
        out["left_behind"] = sorted(f for f in os.listdir(tmp) if f.endswith((".tmp", ".bak")))
    except Exception:  # noqa: BLE001
        out["error"] = traceback.format_exc()[-1200:]
    finally:
        shutil.rmtree(tmp, ignore_errors=True)
    return out


def junit_cases(xml):
    """{name: text of the <testcase> element}, [names in document order]"""
    import re

    if not xml:
        return {}, []
    cases, order = {}, []
    for m in re.finditer(r"<testcase\b[^>]*?name=\"([^\"]*)\"[^>]*?(?:/>|>.*?</testcase>)", xml, flags=re.S):
        cases[m.group(1)] = m.group(0)
        order.append(m.group(1))
    return cases, order


# ====================================================================== C15 (parent side)


def c15_pick_files(rng, n, lo=300, hi=20000, containing=None):
    files = [f for f in gen_inputs.corpus_files() if lo <= os.path.getsize(f) <= hi]
    rng.shuffle(files)
    if containing:
        # files with the constructs most fixes act on (processes, instantiations)
        sel = []
        for f in files:
            t = gen_inputs.read_text(f).lower()
            if any(w in t for w in containing):
                sel.append(f)
                if len(sel) >= n:
                    break
        return sel
    return files[:n]


def c15_batches(tier, rng):
    """batches for the in-process comparison: files (relative names), configuration, cla options"""
    nb = 20 if tier == "quick" else 200
    kinds = ["plain", "fix", "parsefail", "filelist", "conferr", "pragma", "jcl_ap", "filerules_alt_fix", "filerules_fix", "plain_ap", "fix_ap", "filerules_alt_fix"]
    batches = []
    for b in range(nb):
        kind = kinds[b % len(kinds)]
        n = rng.randrange(6, 11)
        paths = c15_pick_files(rng, n, containing=("process", "port map") if kind == "filerules_alt_fix" else None)
        files = [("f%d.vhd" % i, gen_inputs.read_text(p)) for i, p in enumerate(paths)]
        src = {"f%d.vhd" % i: p for i, p in enumerate(paths)}
        cla = {"junit": "junit.xml", "json": "out.json", "output_format": "vsg"}
        confs = []
        if kind in ("fix", "fix_ap", "filerules_fix", "filerules_alt_fix"):
            cla["fix"] = True
        if kind == "filerules_alt_fix":
            # neighbouring files with very different per-file configurations: nothing of one may reach the other
            confs.append(ALT_FILE_RULES([name for name, _ in files]))
        if kind.endswith("_ap"):
            cla["all_phases"] = True
        if kind == "parsefail":
            k = rng.randrange(0, len(files))
            files[k] = (files[k][0], PARSE_ERROR)
            src[files[k][0]] = "<parse error>"
            if rng.random() < 0.5:
                k2 = rng.randrange(0, len(files))
                files[k2] = (files[k2][0], PARSE_ERROR)
                src[files[k2][0]] = "<parse error>"
        if kind in ("filelist", "filerules_fix"):
            fl = []
            for i, (name, _) in enumerate(files):
                if i == 1:
                    fl.append({name: {"rule": {"group": {"case": {"case": "upper"}}}}})
                elif i == 3:
                    fl.append({name: {"rule": {"global": {"indent_size": 4}, "length_001": {"length": 30}}}})
                else:
                    fl.append(name)
            section = "file_list" if kind == "filelist" else "file_rules"
            confs.append({section: fl if section == "file_list" else [x for x in fl if isinstance(x, dict)], "rule": {"length_001": {"length": 100}}})
        if kind == "conferr":
            k = rng.randrange(1, len(files) - 1)
            confs.append({"file_rules": [{files[k][0]: {"rule": {"nonexistent_999": {"disable": True}}}}]})
            cla["all_phases"] = True
        if kind == "pragma":
            files[0] = (files[0][0], PRAGMA_TEXT)
            files[2] = (files[2][0], PRAGMA_TEXT.replace("mytool", "othertool"))
            src[files[0][0]] = src[files[2][0]] = "<pragma text>"
            confs.append(CUSTOM_PRAGMAS)
            cla["all_phases"] = True
        if kind == "jcl_ap":
            cla["style"] = "jcl"
        batches.append({"name": "b%d_%s" % (b, kind), "kind": kind, "files": files, "src": src, "cla": cla, "confs": confs})
    return batches


def fresh_pool(n):
    """one process per task, each forked from a fork server that has only IMPORTED vsg (nothing of it
    was ever called there): the state of an interpreter that has just started `vsg`"""
    ctx = multiprocessing.get_context("forkserver")
    ctx.set_forkserver_preload(["vsgrun", "vsg.rules", "vsg.apply_rules", "vsg.__main__", "props_frame"])
    return ctx.Pool(n, maxtasksperchild=1)


def state_site(name):
    """`vsg.rules.process.rule_012.oInsertToken` -> (`process.rule_012`, `oInsertToken`): the module (or class)
    that owns the mutated state is the site"""
    if name.startswith("<"):
        return "apply_rules.apply_rules", name
    owner, _, attr = name.rpartition(".")
    if owner.startswith("vsg.rules."):
        owner = owner[len("vsg.rules.") :]
    return owner, attr


def dep_kind(d):
    return "fixed" if "fixed" in d else ("exit" if "status" in d else "report")


def c15_inprocess(res, batches, rng, nperm=3, selftest=None):
    """batch-vs-solo comparison through the real apply_rules in fresh interpreters; returns statistics"""
    t0 = time.time()
    tasks = []
    for b in batches:
        names = [n for n, _ in b["files"]]
        base = {"files": b["files"], "confs": b["confs"], "cla": b["cla"], "listed": names, "selftest": selftest}
        b["solo_ids"] = {}
        for n in names:
            tid = "%s/solo/%s" % (b["name"], n)
            b["solo_ids"][n] = tid
            tasks.append(dict(base, id=tid, sequence=[(0, n)], snap=True))
        b["perms"] = []
        orders = [list(names), list(reversed(names))]
        while len(orders) < nperm:
            o = list(names)
            rng.shuffle(o)
            orders.append(o)
        for k, o in enumerate(orders[:nperm]):
            tid = "%s/batch/%d" % (b["name"], k)
            b["perms"].append((tid, o))
            tasks.append(dict(base, id=tid, sequence=list(enumerate(o)), snap=True))
    # the batch tasks are the long ones: first
    tasks.sort(key=lambda t: -len(t["sequence"]))
    with fresh_pool(16) as pool:
        results = {r["id"]: r for r in pool.imap_unordered(c15_child, tasks, chunksize=1)}
    herr = [r for r in results.values() if r.get("error")]
    if herr:
        raise RuntimeError("C15 child failed inside the harness: %s" % herr[0]["error"])

    evaluations = 0
    nontrivial = set()
    samples = []
    mutated = collections.Counter()
    fail_counts = collections.Counter()
    drv = leanio.Driver("frame")
    pair_tasks = []
    for b in batches:
        solo = {}
        for n, tid in b["solo_ids"].items():
            r = results[tid]
            if r["config_exit"] is not None:
                solo[n] = {"config_exit": r["config_exit"]}
                continue
            solo[n] = r["records"][0]
            evaluations += 1
            for name, how in solo[n].get("state_diff") or []:
                mutated[name] += 1
                res.fail(state_site(name)[0], "moduleStateMutated:%s" % state_site(name)[1], "processing %s (%s) alone changed %s: %s" % (n, b["src"].get(n), name, how), {"batch": b["name"], "kind": b["kind"], "file": n, "files": b["files"], "confs": b["confs"], "cla": b["cla"], "sequence": [n]})
        keys = {}
        for n in solo:
            keys.setdefault(rec_key(solo[n]) if "config_exit" not in solo[n] else "X", len(keys))
        with_v = sum(1 for n in solo if solo[n].get("status"))
        for tid, order in b["perms"]:
            r = results[tid]
            if r["config_exit"] is not None:
                if any("config_exit" not in solo[n] for n in order):
                    res.fail("config.New", "configurationDependsOnFileOrder", "config.New exits for the batch but not for a file alone: %r" % (r["config_exit"],), {"batch": b["name"]})
                continue
            recs = r["records"]
            evaluations += len(recs)
            if with_v >= 2:
                nontrivial.add((b["name"], tuple(order), 1))
            # the Lean scheduler model on the solo results: which results main keeps, exit status
            line = "FILES\t" + " ".join("%d:%d:%d" % (keys[rec_key(solo[n])], 1 if solo[n]["status"] else 0, 1 if solo[n]["stop"] else 0) for n in order)
            drv.send(line)
            ans = drv.ask("SERIAL")
            body, _, ex = ans[2:].rpartition(" exit=")
            model = [tuple(map(int, x.split(":"))) for x in body.split()]
            real = [(keys.get(rec_key(x), -1), 1 if x["status"] else 0, 1 if x["stop"] else 0) for x in recs]
            same_results = all(not rec_diff(x, solo[x["name"]]) for x in recs)
            if same_results and (model != real or (ex == "1") != any(x["status"] for x in recs)):
                res.proof_break("correspondence scheduler model (runSerial) vs the serial loop of main", {"model": ans, "real": real, "batch": b["name"], "order": order})
            if [x["name"] for x in recs] != order[: len(recs)]:
                res.proof_break("harness: record order", {"batch": b["name"]})
            for pos, x in enumerate(recs):
                n = x["name"]
                d = rec_diff(x, solo[n])
                if d:
                    before = order[:pos]
                    key = "apply_rules.apply_rules|resultDependsOnNeighbours:%s" % dep_kind(d)
                    fail_counts[key] += 1
                    res.fail(
                        "apply_rules.apply_rules",
                        "resultDependsOnNeighbours:%s" % dep_kind(d),
                        "%s (%s) processed after %s differs from the same file alone in a fresh interpreter in %s: %s" % (n, b["src"].get(n), before, d, json.dumps({k: (solo[n].get(k), x.get(k)) for k in d[:2]}, default=str)[:500]),
                        {"batch": b["name"], "kind": b["kind"], "file": n, "files": b["files"], "confs": b["confs"], "cla": b["cla"], "sequence": order[: pos + 1]},
                    )
                for name, how in x.get("state_diff") or []:
                    mutated[name] += 1
                    res.fail(state_site(name)[0], "moduleStateMutated:%s" % state_site(name)[1], "processing %s (%s) changed %s: %s" % (n, b["src"].get(n), name, how), {"batch": b["name"], "kind": b["kind"], "file": n, "files": b["files"], "confs": b["confs"], "cla": b["cla"], "sequence": order[: pos + 1]})
        if len(samples) < 6:
            samples.append({"batch": b["name"], "files": [b["src"][n] for n, _ in b["files"]][:4], "with_violations": with_v, "orders": len(b["perms"]), "stop_at": [n for n in solo if solo[n].get("stop")]})
    drv.close()
    return {
        "evaluations": evaluations,
        "nontrivial": nontrivial,
        "samples": samples,
        "mutated": mutated,
        "fail_counts": fail_counts,
        "tasks": len(tasks),
        "state_entries": max([r.get("state_entries") or 0 for r in results.values()] or [0]),
        "wall": time.time() - t0,
    }


def run_c15(res, tier, tables):
    rng = common.rng("c15")
    batches = c15_batches(tier, rng)
    nperm = 3
    st = c15_inprocess(res, batches, rng, nperm)
    evaluations, nontrivial, samples, mutated, fail_counts = st["evaluations"], st["nontrivial"], st["samples"], st["mutated"], st["fail_counts"]
    inproc_wall = st["wall"]

    # ------------------------------------------------------------ CLI
    t1 = time.time()
    cli_stats = c15_cli_part(res, tier, rng, nontrivial)
    evaluations += cli_stats.pop("evaluations")
    res.coverage.update(
        {
            "evaluations": evaluations,
            "distinct_nontrivial": len(nontrivial),
            "rule": RULE["C15"],
            "samples": samples,
            "batches_in_process": len(batches),
            "batch_kinds": dict(collections.Counter(b["kind"] for b in batches)),
            "orders_per_batch": nperm,
            "fresh_interpreters_started": st["tasks"],
            "module_state_entries_watched": st["state_entries"],
            "module_state_mutations": dict(mutated),
            "failure_counts": dict(fail_counts),
            "in_process_wall_s": round(inproc_wall, 1),
            "cli_wall_s": round(time.time() - t1, 1),
            "cli": cli_stats,
        }
    )
    res.assumptions = [
        "reduction: the Lean theorem holds for every list of files, assignment to workers and interleaving under `GFrame view apply`; the hypothesis (apply_rules leaves the module-level state it reads as it found it) is validated on the explored batches only",
        "the module-level state watched = every list/dict/set global and every object global of the loaded vsg.* modules, the mutable class attributes of every class they define, the configuration object and the argparse namespace; interpreter-level caches (re, importlib) are not watched",
        "OS scheduling of the pool is outside the model: the CLI runs with -p 2 / -p 8 sample it",
        "a ConfigurationError / local-rules OSError ends the run by design of main (the sixth component of apply_rules' result); files after it are compared only as far as main reports them — except for files REWRITTEN by --fix although they are never reported, which is judged",
    ]


def c15_cli_part(res, tier, rng, nontrivial):
    from multiprocessing.pool import ThreadPool

    nb = 3 if tier == "quick" else 30
    kinds = ["plain_ap", "filerules_alt_fix", "parsefail", "conferr_fix", "fix", "filelist", "pragma"]
    batches = []
    for b in range(nb + 1):
        kind = kinds[b % len(kinds)] if b < nb else "conferr_fix"
        if b >= nb and any(x["kind"] == "conferr_fix" for x in batches):
            break
        n = rng.randrange(6, 9)
        paths = c15_pick_files(rng, n, hi=12000, containing=("process", "port map") if kind == "filerules_alt_fix" else None)
        files = [("f%d.vhd" % i, gen_inputs.read_text(p)) for i, p in enumerate(paths)]
        args, confs = [], []
        if kind.endswith("_ap"):
            args.append("-ap")
        if "fix" in kind:
            args.append("--fix")
        if kind == "parsefail":
            files[1] = (files[1][0], PARSE_ERROR)
        if kind == "filerules_alt_fix":
            confs.append(ALT_FILE_RULES([name for name, _ in files]))
        if kind == "filelist":
            confs.append({"file_rules": [{files[1][0]: {"rule": {"group": {"case": {"case": "upper"}}}}}, {files[3][0]: {"rule": {"length_001": {"length": 30}}}}]})
        if kind == "pragma":
            files[0] = (files[0][0], PRAGMA_TEXT)
            confs.append(CUSTOM_PRAGMAS)
        if kind == "conferr_fix":
            # a big file first, the configuration error second, small files after it
            big = max(gen_inputs.corpus_files(), key=lambda f: os.path.getsize(f) if "/styles/" in f and os.path.getsize(f) < 60000 else 0)
            files[0] = (files[0][0], gen_inputs.read_text(big))
            confs.append({"file_rules": [{files[1][0]: {"rule": {"nonexistent_999": {"disable": True}}}}]})
        if "fix" not in kind and kind != "parsefail":
            # the file that also goes through --stdin carries the characters on which str.splitlines() and the
            # line iteration of a text stream disagree (VT, FS, NEL, U+2028, FF — all inside a comment, where they are
            # inert): both channels must see the same lines
            ls = files[2][1].split("\n")
            k = min(len(ls) - 1, 3)
            ls[k] = ls[k] + " -- a\x0bb\x1cc\x85d\u2028e\x0cf"
            files[2] = (files[2][0], "\n".join(ls))
        batches.append({"name": "cli%d_%s" % (b, kind), "kind": kind, "files": files, "args": args, "confs": confs})
    tasks = []
    for b in batches:
        names = [n for n, _ in b["files"]]
        # with a per-file ConfigurationError and --junit, main raises AttributeError while writing the XML
        # (testCase is None) — C14 / C19 judge that; here the configuration-error batches run without --junit
        base = {"files": b["files"], "confs": b["confs"], "args": b["args"], "junit": b["kind"] != "conferr_fix"}
        for n in names:
            tasks.append(dict(base, id="%s/solo/%s" % (b["name"], n), order=[n], jobs=1))
        orders = [list(names), list(reversed(names))]
        if b["kind"] == "conferr_fix":
            orders = [list(names)]
        b["runs"] = []
        for k, o in enumerate(orders):
            for p in (1, 2, 8):
                tid = "%s/run/%d/p%d" % (b["name"], k, p)
                b["runs"].append((tid, o, p))
                tasks.append(dict(base, id=tid, order=o, jobs=p))
        if "--fix" not in b["args"]:
            tid = "%s/stdin/%s" % (b["name"], names[2])
            b["stdin"] = (tid, names[2])
            tasks.append(dict(base, id=tid, order=[names[2]], jobs=1, stdin=names[2]))
    with ThreadPool(16) as tp:
        results = {r["id"]: r for r in tp.imap_unordered(c15_cli, tasks)}
    herr = [r for r in results.values() if r.get("error")]
    if herr:
        raise RuntimeError("C15 CLI task failed inside the harness: %s" % herr[0]["error"])
    drv = leanio.Driver("frame")
    evaluations = 0
    stats = collections.Counter()
    for b in batches:
        names = [n for n, _ in b["files"]]
        orig = dict(b["files"])
        solo = {n: results["%s/solo/%s" % (b["name"], n)] for n in names}
        stops = {n: ("could not be found" in (solo[n]["stderr"] or "") and "referenced in configuration" in (solo[n]["stderr"] or "")) for n in names}
        keys = {n: i for i, n in enumerate(names)}
        with_v = sum(1 for n in names if solo[n]["rc"] != 0)

        def inp(order, p, extra=None):
            d = {"batch": b["name"], "kind": b["kind"], "files": b["files"], "confs": b["confs"], "args": b["args"], "order": order, "jobs": p, "junit": b["kind"] != "conferr_fix"}
            d.update(extra or {})
            return d

        for tid, order, p in b["runs"]:
            r = results[tid]
            evaluations += len(order)
            stats["cli_runs"] += 1
            if with_v >= 2:
                nontrivial.add((b["name"], tuple(order), p))
            # expected kept list from the Lean model (pool: round-robin assignment; serial for p = 1)
            drv.send("FILES\t" + " ".join("%d:%d:%d" % (keys[n], 1 if solo[n]["rc"] != 0 else 0, 1 if stops[n] else 0) for n in order))
            if p == 1:
                ans = drv.ask("SERIAL")
            else:
                ans = drv.ask("POOL\t" + " ".join("%d:%d" % (i % p, i) for i in range(len(order))))
            body, _, ex = ans[2:].rpartition(" exit=")
            kept = [names[int(x.split(":")[0])] for x in body.split()]
            exp_rc = 1 if ex == "1" else 0
            site = "__main__.main"
            if r["rc"] != exp_rc:
                res.fail(site, "exitStatusDependsOnBatch", "exit %s with -p %d for %s, solo exits %s" % (r["rc"], p, order, {n: solo[n]["rc"] for n in kept}), inp(order, p))
            exp_out = "".join(solo[n]["stdout"] for n in kept)
            exp_err = "".join(solo[n]["stderr"] for n in kept)
            if r["stdout"] != exp_out:
                res.fail(site, "reportDependsOnBatch:stdout", "stdout with -p %d for %s is not the concatenation of the solo outputs in command-line order: %s" % (p, order, first_text_diff(exp_out, r["stdout"])), inp(order, p))
            if r["stderr"] != exp_err:
                res.fail(site, "reportDependsOnBatch:stderr", "stderr with -p %d for %s: %s" % (p, order, first_text_diff(exp_err, r["stderr"])), inp(order, p))
            got = [(e.get("file_path"), e) for e in (r["json"] or {}).get("files", [])]
            exp = [(n, (solo[n]["json"] or {}).get("files", [{}])[0]) for n in kept]
            if [g[0] for g in got] != [e[0] for e in exp]:
                res.fail(site, "outputOrder:json", "JSON entries %s, command-line order (kept) %s, -p %d" % ([g[0] for g in got], kept, p), inp(order, p))
            elif got != exp:
                bad = [g[0] for g, e in zip(got, exp) if g != e]
                res.fail(site, "reportDependsOnBatch:json", "JSON entry of %s differs from the solo run, -p %d order %s" % (bad, p, order), inp(order, p))
            cases, corder = junit_cases(r["junit"])
            exp_cases = [(n, junit_cases(solo[n]["junit"])[0].get(n)) for n in kept if junit_cases(solo[n]["junit"])[0].get(n) is not None]
            if corder != [n for n, _ in exp_cases]:
                res.fail(site, "outputOrder:junit", "JUnit testcases %s, expected %s, -p %d" % (corder, [n for n, _ in exp_cases], p), inp(order, p))
            else:
                bad = [n for n, t in exp_cases if cases.get(n) != t]
                if bad:
                    res.fail(site, "reportDependsOnBatch:junit", "JUnit testcase of %s differs from the solo run, -p %d order %s" % (bad, p, order), inp(order, p))
            # files on disk: a kept file = its solo result; a file main never reported must be untouched
            for n in names:
                after = r["after"].get(n)
                want = solo[n]["after"][n] if n in kept and not stops[n] else orig[n]
                if after != want:
                    if n in kept:
                        res.fail("apply_rules.apply_rules", "fixedTextDependsOnBatch", "%s after `%s` differs from the solo --fix result" % (n, " ".join(r["args"])), inp(order, p, {"file": n}))
                    else:
                        res.fail(site, "unreportedFileRewritten", "%s comes after the configuration error of %s, gets no report / JSON / JUnit entry, and is rewritten by --fix with -p %d (untouched with -p 1): the pool workers run ahead of the loop that stops" % (n, [k for k in order if stops[k]][:1], p), inp(order, p, {"file": n}))
            if r["left_behind"]:
                if any(stops.values()) and p > 1:
                    res.fail(site, "unreportedFileRewritten", "after the configuration error the pool is terminated while a worker is writing a later file back: %s left behind with -p %d" % (r["left_behind"], p), inp(order, p))
                else:
                    res.fail("apply_rules.write_vhdl_file", "temporaryFileLeftBehind", "%s after -p %d" % (r["left_behind"], p), inp(order, p))
        if b.get("stdin"):
            tid, n = b["stdin"]
            r = results[tid]
            evaluations += 1
            stats["stdin_runs"] += 1
            s = solo[n]
            if r["rc"] != s["rc"]:
                res.fail("__main__.main", "stdinDiffers:exit", "--stdin exits %s, -f %s exits %s" % (r["rc"], n, s["rc"]), inp([n], 1, {"stdin": n}))
            if r["stdout"] != s["stdout"].replace(n, "stdin"):
                res.fail("__main__.main", "stdinDiffers:stdout", first_text_diff(s["stdout"].replace(n, "stdin"), r["stdout"]), inp([n], 1, {"stdin": n}))
            sj = json.loads(json.dumps(s["json"]).replace(n, "stdin")) if s["json"] else None
            if r["json"] != sj:
                res.fail("__main__.main", "stdinDiffers:json", "JSON of --stdin differs from -f %s modulo the name" % n, inp([n], 1, {"stdin": n}))
    drv.close()
    stats["evaluations"] = evaluations
    stats["batches"] = len(batches)
    stats["kinds"] = dict(collections.Counter(b["kind"] for b in batches))
    return dict(stats)


def first_text_diff(a, b):
    la, lb = a.split("\n"), b.split("\n")
    for i, (x, y) in enumerate(zip(la, lb)):
        if x != y:
            return "line %d: expected %r got %r" % (i + 1, x[:120], y[:120])
    return "length: expected %d lines got %d lines (first extra: %r)" % (len(la), len(lb), (la[len(lb) : len(lb) + 1] or lb[len(la) : len(la) + 1] or [""])[0][:120])


def replay_c15(d):
    inp = d["input"]
    if "order" in inp:
        names = [n for n, _ in inp["files"]]
        base = {"files": [tuple(x) for x in inp["files"]], "confs": inp["confs"], "args": inp["args"], "junit": inp.get("junit", True)}
        if inp.get("stdin"):
            r = c15_cli(dict(base, id="replay", order=[inp["stdin"]], jobs=1, stdin=inp["stdin"]))
        else:
            r = c15_cli(dict(base, id="replay", order=inp["order"], jobs=inp["jobs"]))
        print("vsg %s -> exit %s" % (" ".join(r.get("args", [])), r.get("rc")))
        print(r.get("stdout", "")[-1500:])
        print(r.get("stderr", "")[-500:])
        orig = dict(base["files"])
        changed = [n for n in names if r["after"].get(n) != orig[n]]
        print("files rewritten:", changed)
        if d["failure"] == "unreportedFileRewritten":
            hit = inp.get("file") in changed
            if hit:
                print("REPRODUCED property=C15 site=%s kind=%s" % (d["site"], d["failure"]))
            return 1 if hit else 0
        return 0
    files = [tuple(x) for x in inp["files"]]
    names = [n for n, _ in files]
    base = {"files": files, "confs": inp["confs"], "cla": inp["cla"], "listed": names}
    with fresh_pool(2) as pool:
        a, b = pool.map(c15_child, [dict(base, id="solo", sequence=[(0, inp["file"])], snap=True), dict(base, id="batch", sequence=list(enumerate(inp["sequence"])), snap=True)])
    ra, rb = a["records"][0], b["records"][-1]
    dd = rec_diff(ra, rb)
    print("solo vs after %s: differing fields %s" % (inp["sequence"][:-1], dd))
    print("state changes (batch):", [x.get("state_diff") for x in b["records"]])
    hit = bool(dd) if d["failure"].startswith("resultDependsOnNeighbours") else any(x.get("state_diff") for x in b["records"] + a["records"])
    if hit:
        print("REPRODUCED property=C15 site=%s kind=%s" % (d["site"], d["failure"]))
    return 1 if hit else 0


# ====================================================================== entry points


def run(prop, tier):
    res = common.Result(prop, tier)
    ok_model, tables, nobl, ndis, thms = common.lean_phase(res, prop)
    cmd = "cd lean && lake build VsgModel driver VsgProofs.Properties.%s && lake env lean <audit file with #print axioms>" % prop
    if not ok_model:
        return res.finish(max(nobl, 1), 0, cmd, thms)
    if prop == "C06":
        run_c06(res, tier, tables)
    else:
        run_c15(res, tier, tables)
    if prop == "C06":
        try:  # wp2b_affix: naming rules whose analysis is inside the model (read-only, function of the token list)
            import props_bfull2

            props_bfull2.extra(res, tier, "C06")
        except ImportError:
            pass
    return res.finish(max(nobl, 1), ndis, cmd, thms)


def replay(prop, path):
    import gen_tables

    gen_tables.generate()
    d = json.load(open(path))
    if d.get("kind") == "no-failing-input-found":
        print(json.dumps(d, indent=1)[:3000])
        return 0
    if prop == "C06":
        return replay_c06(d)
    return replay_c15(d)


def replay_c06(d):
    inp = d["input"]
    _c06_init()
    job = {"path": inp.get("path", "replay"), "text": inp["text"], "variant": "orig", "config": "replay", "nD": 10}
    import vsgrun

    cla, oc = vsgrun.make_config(style=inp.get("style"), conf_dicts=inp.get("config_dicts") or [])
    _W["configs"][("replay", None)] = (cla, oc, inp.get("style"), inp.get("config_dicts") or [])
    hit = 0
    if inp.get("D") and inp.get("rule"):
        ok, how = confirm_fresh(vsgrun.text_to_lines(inp["text"]), cla, inp.get("style"), inp.get("config_dicts") or [], inp["D"], inp["rule"])
        print("disable %s -> %s: %s" % (inp["D"], inp["rule"], how))
        if ok and d["failure"] == "dependsOnOtherRule":
            print("REPRODUCED property=C06 site=%s kind=%s" % (d["site"], d["failure"]))
            return 1
    r = c06_job(job)
    for f in r["failures"]:
        print("found", f["site"], f["kind"], f["detail"][:300])
        if f["site"] == d["site"] and f["kind"] == d["failure"]:
            hit = 1
    if hit:
        print("REPRODUCED property=C06 site=%s kind=%s" % (d["site"], d["failure"]))
    return hit
