"""Re-run one job (file × variant × configuration) and show what a given rule's step did."""
import json
import os
import sys

sys.path.insert(0, os.path.dirname(os.path.abspath(__file__)))
import common  # noqa: E402
import sweep  # noqa: E402


def lines_of(rawsnap):
    out = [[]]
    for o, v in rawsnap:
        if type(o).__name__ == "carriage_return":
            out.append([])
        else:
            out[-1].append(v)
    return ["".join(l) for l in out]


def show(job, rule=None, verbose=True):
    import vsgrun
    import tracecheck

    sweep._init()
    cla, oc, style, dicts = sweep.job_config(job)
    text = sweep.job_text(job) if "text" not in job else job["text"]
    lines = vsgrun.text_to_lines(text)
    o = vsgrun.parse(lines, cla, oc)
    rl = vsgrun.new_rule_list(o, oc)
    init = vsgrun.raw(o.lAllObjects)
    steps, exc, ser = vsgrun.instrumented_fix(o, rl, sweep._W["ci"], fix_phase=job.get("fix_phase", 7), skip_phase=job.get("skip_phase"), fix_only=job.get("fix_only"))
    res = tracecheck.check_steps(init, steps, sweep._W["ci"], ser, sweep._W["ncls"])
    found = []
    for st, r in res:
        bad = any(r[k] != "ok" for k in ("c01", "c02", "c03", "c07")) or r["upd"] in ("mismatch",)
        if (rule is None and bad) or st.rule == rule:
            found.append((st, r))
            if verbose:
                print("=== step %d %s phase=%s upd=%s c01=%s c02=%s c03=%s c07=%s" % (st.index, st.rule, st.phase, r["upd"], r["c01"], r["c02"], r["c03"], r["c07"]))
                if st.edits:
                    print("    edits:", [(e["start"], e["stop"], e["line"], e["solution"]) for e in st.edits][:10])
                b = lines_of(st.before)
                a = lines_of(st.after)
                import difflib

                for l in list(difflib.unified_diff(b, a, lineterm="", n=1))[:60]:
                    print("    " + l)
    if exc is not None:
        print("EXCEPTION", repr(exc))
    return found, exc


if __name__ == "__main__":
    import gen_tables

    gen_tables.generate()
    arg = sys.argv[1]
    if os.path.exists(arg):
        d = json.load(open(arg))
        job = d["input"] if "input" in d else d
    else:
        job = json.loads(arg)
    show(job, sys.argv[2] if len(sys.argv) > 2 else None)
