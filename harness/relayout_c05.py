"""
Re-layouts for C05 with an INDEPENDENT legality check.

* `vhdl_norm(text)`  — a small VHDL lexical scanner written from the LRM (it shares nothing with
  vsg/tokens.py): comments removed, every maximal run of white space / comments collapsed to one
  blank, ASCII letters folded outside string literals, character literals, extended identifiers
  and tool directives.  Two texts with the same `vhdl_norm` differ only in the content of
  non-empty layout runs and in letter case outside literals: exactly the re-layouts of C05.
  A generated variant whose norm differs from the original's is a GENERATOR bug: it is dropped
  and counted, never reported.
* `variant(text, rng, kind)` — `gen_inputs.variant` for the seven shared kinds plus the more
  aggressive kinds of this module.
* `hybrid(...)` — for minimisation: gaps / spellings taken per position from either text.
"""
import re

import gen_inputs

PRAGMA_RE = [
    re.compile(p)
    for p in (
        r"^\s*--\s+synthesis\s+\w+(\s+\w+)?\s*$",
        r"^\s*--\s+pragma\s+\w+(\s+\w+)?\s*$",
        r"^\s*--vhdl_comp_o(ff|n)\s*$",
        r"^\s*--\s+altera\s+\w+\s*$",
        r"^\s*--\s+RTL_SYNTHESIS\s+O(FF|N)\s*$",
        r"^\s*--\s+synopsys\s+\w+(\s+\w+)?\s*$",
        r"^\s*--\s+xilinx\s+\w+(\s+\w+)?\s*$",
    )
]


def is_pragma_line(line):
    return any(r.match(line) for r in PRAGMA_RE)


# ------------------------------------------------------------------ independent scanner

_ID_END = re.compile(r"[A-Za-z0-9_)\]]")


def scan(text):
    """list of (kind, string): kind in 'ws' (white space incl. line ends), 'cmt' (-- comment without
    its line end, or a delimited comment), 'lit' (string / character literal / extended identifier /
    tool-directive line: never re-cased), 'code' (everything else, maximal runs of word characters
    or one other character)"""
    out = []
    i = 0
    n = len(text)
    prev_code = ""  # last code/lit string (decides whether ' is an attribute tick)
    bol = True
    while i < n:
        c = text[i]
        if c in " \t\r\n\f\v\xa0":
            j = i
            while j < n and text[j] in " \t\r\n\f\v\xa0":
                j += 1
            out.append(("ws", text[i:j]))
            if "\n" in text[i:j]:
                bol = True
            i = j
            continue
        if bol and c in "`#":
            j = text.find("\n", i)
            j = n if j < 0 else j
            out.append(("lit", text[i:j]))
            prev_code = ""
            i = j
            bol = False
            continue
        bol = False
        if text.startswith("--", i):
            j = text.find("\n", i)
            j = n if j < 0 else j
            out.append(("cmt", text[i:j].rstrip("\r")))
            i = i + len(text[i:j].rstrip("\r"))
            continue
        if text.startswith("/*", i):
            j = text.find("*/", i + 2)
            j = n if j < 0 else j + 2
            out.append(("cmt", text[i:j]))
            i = j
            continue
        if c == '"':
            j = i + 1
            while j < n and text[j] != '"' and text[j] != "\n":
                j += 1
            j = min(j + 1, n) if j < n and text[j] == '"' else j
            out.append(("lit", text[i:j]))
            prev_code = '"'
            i = j
            continue
        if c == "\\":
            j = i + 1
            while j < n and text[j] != "\\" and text[j] != "\n":
                j += 1
            j = min(j + 1, n) if j < n and text[j] == "\\" else j
            out.append(("lit", text[i:j]))
            prev_code = "a"
            i = j
            continue
        if c == "'":
            tick = bool(prev_code) and bool(_ID_END.match(prev_code[-1]))
            if i + 2 < n and text[i + 2] == "'" and not (tick and text[i + 1] == "("):
                # 'x' is a character literal unless it is the tick of a qualified expression t'('
                out.append(("lit", text[i : i + 3]))
                prev_code = "'"
                i += 3
                continue
            out.append(("code", c))
            prev_code = c
            i += 1
            continue
        if c.isalnum() or c == "_":
            j = i
            while j < n and (text[j].isalnum() or text[j] in "_#."):
                j += 1
            out.append(("code", text[i:j]))
            prev_code = text[i:j]
            i = j
            continue
        out.append(("code", c))
        prev_code = c
        i += 1
    return out


def fold_ascii(s):
    return "".join(chr(ord(ch) + 32) if "A" <= ch <= "Z" else ch for ch in s)


def vhdl_norm(text):
    parts = []
    gap = False
    for k, s in scan(text):
        if k in ("ws", "cmt"):
            gap = True
            continue
        if gap and parts:
            parts.append(" ")
        gap = False
        parts.append(s if k == "lit" else fold_ascii(s))
    return "".join(parts)


# ------------------------------------------------------------------ generator


def _recase(t, mode, rng):
    if not gen_inputs._is_word(t) or not t.isascii() or "\\" in t or '"' in t or "'" in t:
        return t
    if mode == "upper":
        return t.upper()
    if mode == "lower":
        return t.lower()
    r = rng.random()
    return t.upper() if r < 0.4 else (t.lower() if r < 0.8 else t.swapcase())


def relayout(text, rng, ws=0.0, wsmax=4, case=0.0, casemode="mix", eol_comment=0.0, own_comment=0.0, split=0.0, tabs=0.0, blank=0.0, trailing=0.0, indent0=False, dc_eol=0.0, dc_own=0.0, dc_texts=None):
    """like gen_inputs.relayout (same protection of delimited comments / directive lines), with:
    ASCII-only re-casing, pragma lines and vhdl_comp_off regions untouched, no comment glued to a
    trailing `-`, probabilities up to 1.0 (every opportunity)"""
    lines = text.split("\n")
    if lines and lines[-1] == "":
        lines = lines[:-1]
    lines = [l.rstrip("\r") for l in lines]
    dc_texts = dc_texts or DC_TEXTS
    out = []
    in_delim = False
    comp_off = False
    for line in lines:
        if re.match(r"^\s*--vhdl_comp_off\s*$", line):
            comp_off = True
        if comp_off or is_pragma_line(line):
            if re.match(r"^\s*--vhdl_comp_on\s*$", line):
                comp_off = False
            out.append(line)
            continue
        if in_delim or "/*" in line or "*/" in line or line.lstrip().startswith(("`", "#")):
            if "/*" in line and "*/" not in line.split("/*")[-1]:
                in_delim = True
            elif "*/" in line:
                in_delim = False
            out.append(line)
            continue
        toks, ci = gen_inputs.line_tokens(line)
        if toks is None:
            out.append(line)
            continue
        code = toks if ci is None else toks[:ci]
        comment = "" if ci is None else "".join(toks[ci:])
        pieces = [[]]
        for i, t in enumerate(code):
            if t.isspace():
                if i == 0:
                    if indent0:
                        t = ""
                    elif rng.random() < ws:
                        t = "\t" * rng.randrange(0, 3) if rng.random() < tabs else " " * rng.randrange(0, 9)
                    pieces[-1].append(t)
                    continue
                if split and i < len(code) - 1 and rng.random() < split:
                    pieces.append([] if indent0 else [" " * rng.randrange(0, 6)])
                    continue
                if rng.random() < ws:
                    t = "\t" * rng.randrange(1, 3) if rng.random() < tabs else " " * rng.randrange(1, wsmax + 1)
                pieces[-1].append(t)
            else:
                if case and rng.random() < case:
                    t = _recase(t, casemode, rng)
                pieces[-1].append(t)
        strs = ["".join(p) for p in pieces]
        for k, s in enumerate(strs):
            last = k == len(strs) - 1
            if last and comment:
                s = s + comment
            elif eol_comment and s.strip() and rng.random() < eol_comment:
                suffix = rng.choice([" -- c", "-- c", "  --c", " -- vsx", "--", " --\t t"])
                if s.rstrip().endswith(("-", "/")) and not suffix.startswith(" "):
                    suffix = " " + suffix
                s = s + suffix
            elif dc_eol and s.strip() and rng.random() < dc_eol:
                s = s + " /*" + rng.choice(dc_texts) + "*/"
            if trailing and rng.random() < trailing:
                s = s + " " * rng.randrange(1, 4)
            if dc_own and rng.random() < dc_own:
                out.append(" " * rng.randrange(0, 6) + "/*" + rng.choice(dc_texts) + "*/")
            if own_comment and rng.random() < own_comment:
                out.append(" " * rng.randrange(0, 6) + rng.choice(["-- own line comment", "--", "--x", "-- a; b := c (d"]))
            if blank and rng.random() < blank:
                out.append("")
            out.append(s)
    return "\n".join(out) + "\n"


# delimited comments whose text is spelled like a code token (VHDL-2008 comments; inert by the LRM)
DC_TEXTS = [";", "(", ")", ",", ":", "<=", ":=", "=>", "'", "when", "is", "begin", "end", "generate", "then", "loop", "select", "with", "else", "to", "downto", "port", "map", "of", "report", "if", "process", "component", "entity", "all", "|", "return", "for", "after", "range", "others", "e", "-", "+"]

OWN_KINDS = {
    "nlall": dict(split=1.0, indent0=True),  # every white space run between two code tokens of a line -> line break
    "nlcmt": dict(split=1.0, eol_comment=1.0, own_comment=0.3),  # ... and a comment after every token that ends a line
    "nlblank": dict(split=1.0, blank=0.5),  # ... and an EMPTY line in half of those places (two line breaks where a blank stood)
    "cmtall": dict(eol_comment=1.0, own_comment=0.5, blank=0.2),
    "upper": dict(case=1.0, casemode="upper"),
    "lower": dict(case=1.0, casemode="lower"),
    "wide": dict(ws=1.0, wsmax=12, trailing=0.5),
    "tabsall": dict(ws=1.0, tabs=1.0),
    "dcmt": dict(dc_eol=0.6),  # delimited comment spelled like a code token at line ends
    "dcmtown": dict(dc_own=0.5),  # ... on lines of their own
    "dcmtsplit": dict(split=0.5, dc_eol=0.7),
    "chaos": dict(ws=0.7, case=0.5, eol_comment=0.4, own_comment=0.2, split=0.4, tabs=0.3, blank=0.1, trailing=0.2),
}
SHARED_KINDS = [v for v in gen_inputs.VARIANTS if v != "preproc"]  # inserting preprocessor lines is not one of the re-layouts C05 speaks about
KINDS = SHARED_KINDS + list(OWN_KINDS)


def variant(text, rng, kind):
    if kind in OWN_KINDS:
        return relayout(text, rng, **OWN_KINDS[kind])
    return gen_inputs.variant(text, rng, kind)


# ------------------------------------------------------------------ aligned decomposition (minimiser)


def decompose(text):
    """(gaps, toks): toks = code / literal strings in order, gaps[i] = layout text in front of toks[i],
    gaps[len(toks)] = trailing layout.  text == gaps[0] + toks[0] + gaps[1] + ... + gaps[n]"""
    gaps = [""]
    toks = []
    for k, s in scan(text):
        if k in ("ws", "cmt"):
            gaps[-1] += s
        else:
            toks.append(s)
            gaps.append("")
    return gaps, toks


def compose(gaps, toks):
    out = []
    for g, t in zip(gaps, toks):
        out.append(g)
        out.append(t)
    out.append(gaps[len(toks)])
    return "".join(out)


def hybrid(orig, var, keep):
    """text that takes gap i / spelling i from `var` for the positions in `keep` (a set of
    ('g', i) / ('t', i)) and from `orig` elsewhere; None when the two do not align"""
    go, to = decompose(orig)
    gv, tv = decompose(var)
    if len(to) != len(tv):
        return None
    gaps = [gv[i] if ("g", i) in keep else go[i] for i in range(len(go))]
    toks = [tv[i] if ("t", i) in keep else to[i] for i in range(len(to))]
    return compose(gaps, toks)


def differing_positions(orig, var):
    go, to = decompose(orig)
    gv, tv = decompose(var)
    if len(to) != len(tv):
        return None
    d = [("g", i) for i in range(len(go)) if go[i] != gv[i]]
    d += [("t", i) for i in range(len(to)) if to[i] != tv[i]]
    return d
