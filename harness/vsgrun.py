"""
In-process access to the real VSG code of /repo: build a configuration, parse a file,
run instrumented fix / check runs.  Nothing of `Rule.fix`, `Rule.analyze`,
`vhdlFile.update`, `rule_list.fix` … is re-implemented here — they are wrapped.
"""
import contextlib
import copy
import io
import json
import os
import sys
import tempfile
import time
import warnings

warnings.simplefilter("ignore")

from vsg import config, rule_list, severity  # noqa: E402
from vsg import parser as vparser  # noqa: E402
from vsg.vhdlFile import vhdlFile as vhdlfile_mod_cls  # noqa: E402,F401

VF = sys.modules["vsg.vhdlFile.vhdlFile"]


class CLA:
    """stand-in for the argparse namespace (all attributes apply_rules / config read)"""

    def __init__(self, **kw):
        self.version = False
        self.style = None
        self.configuration = []
        self.debug = False
        self.fix_only = None
        self.stdin = False
        self.force_fix = False
        self.fix = False
        self.filename = []
        self.local_rules = None
        self.junit = None
        self.json = None
        self.quality_report = None
        self.output_format = "vsg"
        self.backup = False
        self.all_phases = False
        self.fix_phase = 7
        self.skip_phase = []
        self.jobs = 1
        self.output_configuration = None
        self.rule_configuration = None
        self.__dict__.update(kw)


def make_config(style=None, conf_dicts=(), tmpdir=None, **cla_kw):
    """config.New through the real code path; configuration dictionaries are written as
    JSON files (YAML is a superset) so `-c` handling is exercised."""
    cla = CLA(style=style, **cla_kw)
    paths = []
    own = None
    if conf_dicts:
        if tmpdir is None:
            own = tempfile.mkdtemp(prefix="vsgverif-")
            tmpdir = own
        for i, d in enumerate(conf_dicts):
            p = os.path.join(tmpdir, "conf%d.json" % i)
            with open(p, "w") as f:
                json.dump(d, f)
            paths.append(p)
    cla.configuration = paths
    try:
        with contextlib.redirect_stdout(io.StringIO()):
            oConfig = config.New(cla)
    finally:
        if own:
            for p in paths:
                os.remove(p)
            os.rmdir(own)
    return cla, oConfig


def parse(lines, cla, oConfig, filename="t.vhd"):
    o = VF.vhdlFile(list(lines), cla, filename, None, oConfig)
    o.set_indent_map(oConfig.dIndent)
    return o


def new_rule_list(oFile, oConfig, configure=True):
    rl = rule_list.rule_list(oFile, oConfig.severity_list)
    if configure:
        rl.configure(oConfig)
    return rl


def text_to_lines(text):
    """what read_vhdlfile does to a file's text"""
    lines = []
    for l in io.StringIO(text, newline=None):
        lines.append(l.rstrip("\r\n"))
    return lines


# ------------------------------------------------------------------ token snapshots


class ClassIndex:
    def __init__(self, tables):
        self.by_name = {r["name"]: r["idx"] for r in tables["classes"]}
        self.kind = {r["idx"]: r["kind"] for r in tables["classes"]}
        self.cache = {}

    def of(self, obj):
        t = type(obj)
        i = self.cache.get(t)
        if i is None:
            i = self.by_name.get(t.__module__ + "." + t.__qualname__, -1)
            self.cache[t] = i
        return i


class Serials:
    """stable small integers for token objects during one run (keeps them alive)"""

    def __init__(self):
        self.map = {}
        self.keep = []

    def of(self, o):
        k = id(o)
        s = self.map.get(k)
        if s is None:
            s = len(self.keep)
            self.map[k] = s
            self.keep.append(o)
        return s


def snap(lObjects, ci, ser):
    """list of (serial, cls, value, tags) — the wire form"""
    return [(ser.of(o), ci.of(o), o.value, tuple(o.code_tags)) for o in lObjects]


def jsonable_action(a, ci, depth=0):
    """violation action / rule parameter as plain data: tokens -> {"tok": [cls, value]},
    token classes -> {"cls": idx}"""
    import inspect

    if a is None or isinstance(a, (bool, int, str)):
        return a
    if depth > 4:
        return {"repr": repr(a)[:80]}
    if isinstance(a, dict):
        return {str(k): jsonable_action(v, ci, depth + 1) for k, v in a.items()}
    if isinstance(a, (list, tuple)):
        return [jsonable_action(v, ci, depth + 1) for v in a]
    if isinstance(a, vparser.item):
        return {"tok": [ci.of(a), a.get_value()]}
    if inspect.isclass(a):
        return {"cls": ci.by_name.get(a.__module__ + "." + a.__qualname__, -1)}
    if inspect.isfunction(a):
        # multiline_structure: dAction["type"] is the module-level fix function itself
        return {"fn": a.__name__}
    return {"repr": repr(a)[:80]}


def violation_attrs(v, ci=None):
    """attributes a `_fix_violation` reads directly from the violation or its region:
    `_tv` = oTokens.sTokenValue (`get_token_value()`, set by get_tokens_bounded_by),
    `_ti` = oTokens.token_index (set by get_line_which_includes_tokens),
    `_iw` = violation.insert_whitespace (set by move_token.create_move_left_violation),
    `_a`  = the action itself when it is a bare int (move_token_right_to_next_non_whitespace_token),
    `_semi` = class index of violation.semicolon (set by multiline_structure._check_last_paren_new_line)"""
    import inspect

    a = {}
    sm = getattr(v, "semicolon", None)
    if ci is not None and inspect.isclass(sm):
        a["_semi"] = ci.by_name.get(sm.__module__ + "." + sm.__qualname__, -1)
    act = v.get_action()
    if isinstance(act, int) and not isinstance(act, bool):
        a["_a"] = act
    ot = v.oTokens
    tv = getattr(ot, "sTokenValue", None)
    if isinstance(tv, int) and not isinstance(tv, bool):
        a["_tv"] = tv
    ti = getattr(ot, "token_index", None)
    if isinstance(ti, int) and not isinstance(ti, bool):
        a["_ti"] = ti
    if hasattr(v, "insert_whitespace"):
        a["_iw"] = bool(v.insert_whitespace)
    if tv is not None and isinstance(tv, (str, int)) and not isinstance(tv, bool):
        # the value the extractor stored on the region (`get_token_value()`), under the key the insert
        # family (`…_using_value_from_token`) reads
        a["__token_value"] = tv
    return a


def harvest_action(v, ci):
    """action dict + violation attributes (used by the synthetic line-structure correspondence)"""
    a = jsonable_action(v.get_action(), ci)
    a = dict(a) if isinstance(a, dict) else {}
    a.update(violation_attrs(v, ci))
    return a


STD_ATTRS = {"name", "identifier", "unique_id", "solution", "violations", "had_violations", "phase", "subphase", "disable", "fixable", "severity", "user_error_message", "debug", "dFix", "configuration", "deprecated", "proposed", "groups", "options", "configuration_documentation_link", "prerequisites", "remap", "fix", "analyze", "_get_tokens_of_interest"}


def rule_params(oRule, ci):
    return {k: jsonable_action(v, ci) for k, v in oRule.__dict__.items() if k not in STD_ATTRS}


def raw(lObjects):
    """cheap snapshot: holds the objects themselves (identity comparison, keeps them alive)"""
    return [(o, o.value) for o in lObjects]


def wire(rawsnap, ci, ser):
    return [(ser.of(o), ci.of(o), v, tuple(o.code_tags)) for o, v in rawsnap]


# ------------------------------------------------------------------ instrumented fix run


class Step:
    __slots__ = ("rule", "kind", "before", "after", "edits", "tois", "remap", "exc", "fixable", "sev_error", "phase", "disabled", "wall", "changed", "index", "params", "found")

    def __init__(self):
        self.edits = None
        self.tois = None
        self.exc = None
        self.before = None
        self.after = None
        self.changed = False
        self.remap = None
        self.params = None
        self.found = None


def instrumented_fix(oFile, rl, ci, fix_phase=7, skip_phase=None, fix_only=None, record_tois=False, on_step=None, harvest=False):
    """Runs the real rule_list.fix with every rule's fix/analyze and the file's update wrapped.
    Returns the list of Steps (one per rule.fix / rule.analyze call, plus the post-phase-1
    normalisation as a pseudo step).  `before` of a step is the `after` of the previous one
    (nothing but rule_list.fix's own loop runs in between); unchanged steps drop their
    snapshots."""
    ser = Serials()
    steps = []
    cur = {"step": None, "last": raw(oFile.lAllObjects)}

    real_update = oFile.update

    def update(lUpdates, bUpdateMap):
        st = cur["step"]
        if st is not None:
            ed = []
            for v in lUpdates:
                ot = v.oTokens
                ed.append(
                    {
                        "start": ot.iStartIndex,
                        "stop": ot.iEndIndex,
                        "line": v.get_line_number(),
                        "new": snap(ot.get_tokens(), ci, ser),
                        "action": repr(v.get_action())[:200],
                        "action_data": jsonable_action(v.get_action(), ci) if harvest else None,
                        # what some base classes read from the violation / its region instead of the action
                        "viol_attrs": violation_attrs(v, ci) if harvest else None,
                        # indent level of every OLD token of interest (token state outside the wire form; the
                        # indent family's `_fix_violation` reads it): st.before holds the token objects
                        "old_indents": ([getattr(o, "indent", None) for o, _ in st.before[ot.iStartIndex : ot.iEndIndex]] if harvest and st.before is not None and isinstance(ot.iStartIndex, int) and isinstance(ot.iEndIndex, int) else None),
                        "solution": v.get_solution(),
                    }
                )
            st.edits = ed
            st.remap = bUpdateMap
            if harvest and ed and cur.get("rule") is not None:
                # the rule's parameters AS THEY ARE NOW: parameter token objects are inserted into the
                # file by some fixers and later mutated in place by the case rules
                st.params = rule_params(cur["rule"], ci)
        return real_update(lUpdates, bUpdateMap)

    oFile.update = update

    def begin(oRule, kind):
        st = Step()
        st.index = len(steps)
        st.rule = oRule.unique_id if oRule is not None else "<post_phase_1>"
        st.kind = kind
        st.fixable = bool(oRule.fixable) if oRule is not None else True
        st.disabled = bool(oRule.disable) if oRule is not None else False
        st.sev_error = (oRule.severity.type == severity.error_type) if oRule is not None else True
        st.phase = oRule.phase if oRule is not None else 1
        st.before = cur["last"]
        return st

    def finish(st, t0):
        st.wall = time.time() - t0
        a = raw(oFile.lAllObjects)
        if a != st.before:
            st.changed = True
            st.after = a
            cur["last"] = a
        else:
            st.after = st.before
            if not st.edits and not st.tois:
                st.before = st.after = None
        steps.append(st)
        if on_step:
            on_step(st)

    def wrap_rule(oRule):
        real_fix = oRule.fix
        real_analyze = oRule.analyze
        real_toi = getattr(oRule, "_get_tokens_of_interest", None)

        def fix(oF, dFixOnly=None):
            st = begin(oRule, "fix")
            cur["step"] = st
            cur["rule"] = oRule
            t0 = time.time()
            try:
                real_fix(oF, dFixOnly)
            except Exception as e:  # noqa: BLE001 - every exception is a C19 witness
                st.exc = "%s: %s" % (type(e).__name__, e)
                raise
            finally:
                cur["step"] = None
                finish(st, t0)

        def analyze(oF):
            if cur["step"] is not None:
                r = real_analyze(oF)
                if fix_only is not None and cur["step"].kind == "fix":
                    # what the analysis inside Rule.fix found, before --fix_only filters it
                    try:
                        cur["step"].found = [(v.get_line_number(), v.oTokens.iStartIndex) for v in oRule.violations]
                    except Exception:  # noqa: BLE001
                        cur["step"].found = None
                return r
            st = begin(oRule, "analyze")
            cur["step"] = st
            t0 = time.time()
            try:
                real_analyze(oF)
            except Exception as e:  # noqa: BLE001
                st.exc = "%s: %s" % (type(e).__name__, e)
                raise
            finally:
                cur["step"] = None
                finish(st, t0)

        def toi(oF):
            l = real_toi(oF)
            st = cur["step"]
            if st is not None and record_tois and l is not None and st.tois is None:
                rec = []
                for t in l:
                    try:
                        rec.append((t.iStartIndex, t.iEndIndex, t.iLine, list(t.lTokens)))
                    except Exception:  # noqa: BLE001
                        rec.append(None)
                st.tois = rec
            return l

        oRule.fix = fix
        oRule.analyze = analyze
        if real_toi is not None:
            oRule._get_tokens_of_interest = toi

    for r in rl.rules:
        wrap_rule(r)

    # post-phase-1 normalisation as a pseudo step
    real_fbl = oFile.fix_blank_lines
    real_utm = oFile.update_token_map

    def fix_blank_lines():
        cur["post"] = (begin(None, "post"), time.time())
        return real_fbl()

    def update_token_map():
        r = real_utm()
        p = cur.pop("post", None)
        if p is not None:
            finish(p[0], p[1])
        return r

    oFile.fix_blank_lines = fix_blank_lines
    oFile.update_token_map = update_token_map

    exc = None
    try:
        rl.fix(fix_phase, skip_phase if skip_phase is not None else [], fix_only)
    except Exception as e:  # noqa: BLE001
        exc = e
    return steps, exc, ser


def plain_fix(lines, cla, oConfig, fix_phase=7, skip_phase=None, fix_only=None, filename="t.vhd"):
    """un-instrumented fix; returns (lines after, had_violations)"""
    o = parse(lines, cla, oConfig, filename)
    rl = new_rule_list(o, oConfig)
    rl.fix(fix_phase, skip_phase or [], fix_only)
    return o.get_lines()[1:], rl.had_violations, o, rl


def check_report(o, rl, all_phases=True, skip_phase=None):
    rl.clear_violations()
    rl.check_rules(bAllPhases=all_phases, lSkipPhase=skip_phase or [])
    out = []
    for r in rl.rules:
        for v in r.violations:
            out.append((r.unique_id, v.get_line_number(), v.get_solution()))
    return out
