"""development aid: distinct (property, site, kind) over the cached sweeps of several seeds"""
import glob
import json
import os
import sys

sys.path.insert(0, os.path.dirname(os.path.abspath(__file__)))
import common  # noqa: E402

rows = {}
for f in sorted(glob.glob(os.path.join(common.CACHE, "sweep-*.json"))):
    agg = json.load(open(f))
    if agg.get("repo_hash") != common.tree_hash(repo_only=True):
        continue
    for fl in agg["failures"]:
        key = (fl["prop"], fl["site"], fl["kind"])
        n = agg["fail_counts"].get("%s|%s|%s" % key, 1)
        if key not in rows:
            rows[key] = [0, fl]
        rows[key][0] += n
for key in sorted(rows):
    n, fl = rows[key]
    inp = fl.get("input", {})
    print("%-4s %-70s %-26s n=%-4d %s | %s %s %s" % (key[0], key[1], key[2], n, fl["detail"].replace("\n", " ")[:150], os.path.basename(inp.get("path", "")), inp.get("variant"), inp.get("config")))
