"""
C10 — a rule that has just fixed has nothing left to fix.
Lean: second_fix_identity / unrepairable_noop (engine, any rule semantics).
Tie: inside instrumented full fix runs, every rule that changed the file is immediately run
again (its real `fix`, un-instrumented) on a deep copy of the model; the copy must not change.
"""
import json

import common
import sweep


def jobs_for(tier):
    jobs = sweep.make_jobs(tier, ("idem",))
    if tier == "quick":
        # the big style examples dominate the cost of the deep copies: keep the small files of the
        # corpus, all variants and configurations of the standard list
        import os

        jobs = [j for j in jobs if os.path.getsize(j["path"]) < 12000]
    return jobs


def run(prop, tier):
    res = common.Result(prop, tier)
    ok_model, tables, nobl, ndis, thms = common.lean_phase(res, prop)
    if not ok_model:
        return res.finish(max(nobl, 1), 0, "lake build VsgModel driver VsgProofs.Properties.C10", thms)
    agg = sweep.cached_sweep(tier, ("idem",), jobs=jobs_for(tier))
    for fl in agg["failures"]:
        if fl["prop"] == "C10":
            res.fail(fl["site"], fl["kind"], fl["detail"], fl.get("input"))
    import props_bcase

    props_bcase.extra(res, tier, prop)
    res.coverage.update(
        {
            "evaluations": agg["idem"],
            "distinct_nontrivial": agg["idem"],
            "rule": "one evaluation = one (job, rule) pair in which the rule's fix changed the token list inside a full phase-ordered fix run; the same rule's real fix is then applied again to a deep copy of the model and the (class, value) sequence compared; every evaluation is non-trivial by construction (the first fix changed something)",
            "samples": [{"site": f["site"], "kind": f["kind"], "detail": f["detail"][:160], "job": f.get("input", {}).get("path")} for f in agg["failures"] if f["prop"] == "C10"][:6] or [{"note": "no second fix changed anything", "jobs": agg["runs"]}],
            "jobs": agg["runs"],
            "configs": agg["configs"],
            "variants": agg["variants"],
            "failure_counts": {k: v for k, v in agg["fail_counts"].items() if k.startswith("C10")},
            "sweep_from_cache": agg.get("from_cache"),
        }
    )
    try:  # wp2_bfull2: whole-rule (B-full) correspondence of the indent / vertical-spacing families
        import props_bfull2

        props_bfull2.extra(res, tier, "C10")
    except ImportError:
        pass
    res.assumptions = ["rule bodies are layer U: idempotence of a rule is decided on the explored (state, rule) pairs only; the Lean theorems reduce it to 'the re-analysis offers nothing repairable'", "the deep copy shares configuration and rule objects with the run it was taken from"]
    return res.finish(max(nobl, 1), ndis, "cd lean && lake build VsgProofs.Properties.C10", thms)


def replay(prop, path):
    import gen_tables

    gen_tables.generate()
    d = json.load(open(path))
    if d.get("kind") == "no-failing-input-found":
        print(json.dumps(d, indent=1)[:3000])
        return 0
    if d["input"].get("via") == "props_bcase":
        import props_bcase

        return props_bcase.replay(prop, path)
    job = dict(d["input"])
    job["features"] = ["idem"]
    sweep._init()
    out = sweep.run_job(job)
    bad = [f for f in out["failures"] if f["prop"] == "C10"]
    for f in bad:
        print("REPRODUCED property=C10 site=%s kind=%s %s" % (f["site"], f["kind"], f["detail"][:300]))
    return 1 if bad else 0
