"""
Self-test of the C13 / C20 / C14 check logic: plausible bugs are monkeypatched into the real engine
IN THIS PROCESS ONLY (nothing under /repo is touched) and the checks must report them — both the
property search on the real code and the correspondence with the Lean model.
usage: /venv/bin/python -W ignore harness/selftest_engine.py
"""
import os
import sys

sys.path.insert(0, os.path.dirname(os.path.abspath(__file__)))

import common  # noqa: E402
import props_engine as pe  # noqa: E402
from vsg import rule, rule_list, severity, utils  # noqa: E402
from vsg import junit  # noqa: E402

N = 400


def run_stub(tag):
    r = pe.stub_task(("C13", "selftest/" + tag, 0, N))
    kinds = sorted({(f["prop"], f["kind"]) for f in r["fails"]})
    return kinds, len(r["mismatch"]), r["harness"]


# ---------------------------------------------------------------- mutants


def m_check_rules_always_break(self, bAllPhases=False, lSkipPhase=None):
    return ORIG["check_rules"](self, False, lSkipPhase)


def m_check_rules_counts_warnings(self, bAllPhases=False, lSkipPhase=None):
    if lSkipPhase is None:
        lSkipPhase = []
    self.iNumberRulesRan = 0
    iFailures = 0
    self.violations = False
    for phase in range(1, 8):
        if phase in lSkipPhase:
            continue
        for subphase in range(0, 6):
            lRules = self.get_rules_in_phase(phase)
            lRules = self.get_rules_in_subphase(lRules, subphase)
            lRules = rule_list.filter_out_disabled_rules(lRules)
            for oRule in lRules:
                oRule.analyze(self.oVhdlFile)
                iFailures += len(oRule.violations)  # BUG: warnings counted
                self.iNumberRulesRan += 1
            self.lastPhaseRan = phase
            if iFailures > 0:
                self.violations = True
        if self.violations:
            if not bAllPhases:
                break


def m_check_rules_ignores_skip(self, bAllPhases=False, lSkipPhase=None):
    return ORIG["check_rules"](self, bAllPhases, [])


def m_filter_keyerror_keeps_all(self, dFixOnly):
    if dFixOnly is None:
        return
    try:
        if "all" in dFixOnly["fix"]["rule"][self.unique_id]:
            return
    except KeyError:
        return  # BUG: an unlisted rule fixes everything
    self.violations = [v for v in self.violations if v.get_line_number() in dFixOnly["fix"]["rule"][self.unique_id]]


def m_filter_off_by_one(self, dFixOnly):
    if dFixOnly is None:
        return
    try:
        if "all" in dFixOnly["fix"]["rule"][self.unique_id]:
            return
    except KeyError:
        self.violations = []
    self.violations = [v for v in self.violations if v.get_line_number() + 1 in dFixOnly["fix"]["rule"][self.unique_id]]  # BUG


def m_fix_ignores_skip(self, iFixPhase=7, lSkipPhase=None, dFixOnly=None):
    return ORIG["fix"](self, iFixPhase, [], dFixOnly)


def m_fix_one_phase_more(self, iFixPhase=7, lSkipPhase=None, dFixOnly=None):
    return ORIG["fix"](self, int(iFixPhase) + 1, lSkipPhase, dFixOnly)


def m_junit_all_severities(self, sVhdlFileName):
    oTestcase = junit.testcase(sVhdlFileName, str(0))
    oFailure = junit.failure("Failure")
    for oRule in self.rules:
        if len(oRule.violations) > 0:  # BUG: warnings too
            for dViolation in oRule.violations:
                oFailure.add_text(oRule.name + "_" + oRule.identifier + ": " + str(utils.get_violation_line_number(dViolation)) + " : " + dViolation.get_solution())
    if oFailure.has_text():
        oTestcase.add_failure(oFailure)
    return oTestcase


def m_json_skips_first_rule(self):
    d = ORIG["extract_violation_dictionary"](self)
    if self.rules and self.rules[0].violations:
        d["violations"] = d["violations"][len(self.rules[0].violations) :]  # BUG
    return d


def m_get_violations_unsuffixed(self):
    l = ORIG["get_violations"](self)
    for d in l:
        d["lineNumber"] = str(int(d["lineNumber"]) + (1 if d["severity"]["type"] == "warning" else 0))  # BUG: stdout formats shift warnings
    return l


def m_json_guard_correct(self):
    """NEGATIVE control: the always-true guard replaced by the intended call — behaviour unchanged"""
    dReturn = {"violations": []}
    for oRule in self.rules:
        if oRule.has_violations():
            for oViolation in oRule.violations:
                dReturn["violations"].append({"rule": oRule.unique_id, "linenumber": oViolation.get_line_number(), "severity": oRule.severity.name, "solution": oViolation.get_solution()})
    return dReturn


ORIG = {
    "check_rules": rule_list.rule_list.check_rules,
    "fix": rule_list.rule_list.fix,
    "extract_violation_dictionary": rule_list.rule_list.extract_violation_dictionary,
    "extract_junit_testcase": rule_list.rule_list.extract_junit_testcase,
    "_filter": rule.Rule._filter_out_fix_only_violations,
    "get_violations": rule.Rule.get_violations,
}

MUTANTS = [
    # name, (object, attribute, replacement), expected kinds (any of), expect correspondence mismatch
    ("check_rules never honours --all_phases", (rule_list.rule_list, "check_rules", m_check_rules_always_break), {("C13", "allPhasesDidNotAnalyseEveryRule")}, True),
    ("check_rules counts warning-type violations", (rule_list.rule_list, "check_rules", m_check_rules_counts_warnings), {("C13", "gatedNotPrefixOfAllPhases"), ("C14", "exitNotIffErrorTypeViolation")}, True),
    ("check_rules ignores skip_phase", (rule_list.rule_list, "check_rules", m_check_rules_ignores_skip), {("C13", "analysedOutOfRangeOrSkipped"), ("C13", "skippedPhaseReported")}, True),
    ("fix_only: unlisted rule fixes everything", (rule.Rule, "_filter_out_fix_only_violations", m_filter_keyerror_keeps_all), {("C20", "fixedUnlisted"), ("C20", "emptySelectionTouchesFile")}, True),
    ("fix_only: line numbers off by one", (rule.Rule, "_filter_out_fix_only_violations", m_filter_off_by_one), {("C20", "fixedUnlisted"), ("C20", "listedNotFixed")}, True),
    ("fix ignores skip_phase", (rule_list.rule_list, "fix", m_fix_ignores_skip), {("C13", "fixedOutsideFixPhaseOrSkipped")}, True),
    ("fix runs one phase more than --fix_phase", (rule_list.rule_list, "fix", m_fix_one_phase_more), {("C13", "fixedOutsideFixPhaseOrSkipped")}, True),
    ("JUnit lists warnings", (rule_list.rule_list, "extract_junit_testcase", m_junit_all_severities), {("C14", "junitNotErrorTypeFilter")}, True),
    ("JSON drops the first rule's violations", (rule_list.rule_list, "extract_violation_dictionary", m_json_skips_first_rule), {("C14", "formatsDisagree")}, True),
    ("stdout formats shift the line of warnings", (rule.Rule, "get_violations", m_get_violations_unsuffixed), {("C14", "formatsDisagree")}, True),
]

BASELINE_KINDS = {("C14", "statusKeyedOnSeverityNameError"), ("C14", "severityKeyedOnNameError")}


def real_rule_mutants():
    """the end-to-end checks on real rules must notice the same bugs"""
    bad = 0
    files13 = pe.pick_files("selftest13", 12, need=lambda f: "test_input" in f)
    files20 = pe.pick_files("selftest20", 4, lo=300, hi=3000, need=lambda f: "test_input.vhd" in f)
    cases = [
        ("real rules: check_rules counts warnings", (rule_list.rule_list, "check_rules", m_check_rules_counts_warnings), lambda: [pe.real_c13_task({"path": f, "config": 3}) for f in files13], {"gatedNotPrefixOfAllPhases", "stopPhaseNotFirstFailing", "exitDiffersWithAllPhases"}),
        ("real rules: check_rules ignores skip_phase", (rule_list.rule_list, "check_rules", m_check_rules_ignores_skip), lambda: [pe.real_c13_task({"path": f, "config": 1}) for f in files13], {"skippedPhaseReported"}),
        ("real rules: fix runs one phase more", (rule_list.rule_list, "fix", m_fix_one_phase_more), lambda: [pe.real_fixphase_task({"path": f, "config": 0, "phases": [1, 2, 3, 4, 5, 6]}) for f in files20[:2]], {"fixedOutsideFixPhaseOrSkipped", "fixPhaseNotPrefixOfFullFix"}),
        ("real rules: fix ignores skip_phase", (rule_list.rule_list, "fix", m_fix_ignores_skip), lambda: [pe.real_fixphase_task({"path": f, "config": 4, "phases": [3, 7]}) for f in files20[:2]], {"fixedOutsideFixPhaseOrSkipped"}),
        ("real rules: unlisted rule fixes everything", (rule.Rule, "_filter_out_fix_only_violations", m_filter_keyerror_keeps_all), lambda: [pe.real_c20_task({"path": f, "trials": 2}) for f in files20], {"emptySelectionTouchesFile", "unlistedLineChanged", "lineCountChanged"}),
        ("real rules: JUnit lists warnings", (rule_list.rule_list, "extract_junit_testcase", m_junit_all_severities), lambda: [pe.real_c14_task({"setup": 4, "files": files13[:3], "ap": True})], {"junitNotErrorTypeFilter"}),
        ("real rules: JSON drops the first rule's violations", (rule_list.rule_list, "extract_violation_dictionary", m_json_skips_first_rule_real), lambda: [pe.real_c14_task({"setup": 0, "files": files13[:3], "ap": True})], {"formatsDisagree", "junitNotErrorTypeFilter"}),
    ]
    for name, (obj, attr, repl), runner, expected in cases:
        real = getattr(obj, attr)
        setattr(obj, attr, repl)
        try:
            rs = runner()
        finally:
            setattr(obj, attr, real)
        kinds = {f["kind"] for r in rs for f in r["fails"]}
        herr = [h for r in rs for h in r["harness"]]
        ok = bool(kinds & expected)
        if not ok:
            bad += 1
        print("mutant %-52s %s  kinds %s%s" % (name, "detected" if ok else "MISSED", sorted(kinds), " harness errors: %s" % herr[0][-200:] if herr else ""))
    return bad


def m_json_skips_first_rule_real(self):
    d = ORIG["extract_violation_dictionary"](self)
    d["violations"] = d["violations"][1:]  # BUG
    return d


def main():
    import gen_tables

    gen_tables.generate()
    ok, out = common.lake_build(["VsgModel", "driver"])[:2]
    pe._init()
    bad = 0
    kinds, mm, herr = run_stub("base")
    extra = set(kinds) - BASELINE_KINDS
    print("baseline: kinds=%s correspondence mismatches=%d harness errors=%d" % (sorted(kinds), mm, len(herr)))
    if extra or mm or herr:
        print("  UNEXPECTED on the unmodified code")
        bad += 1
    for name, (obj, attr, repl), expected, want_mm in MUTANTS:
        real = getattr(obj, attr)
        setattr(obj, attr, repl)
        try:
            kinds, mm, herr = run_stub("base")
        finally:
            setattr(obj, attr, real)
        found = set(kinds) & expected
        okm = (mm > 0) == want_mm
        verdict = "detected" if found and okm else "MISSED"
        if verdict == "MISSED":
            bad += 1
        print("mutant %-48s %s  property kinds %s, correspondence mismatches %d%s" % (name, verdict, sorted(set(kinds) - BASELINE_KINDS), mm, " harness errors %d" % len(herr) if herr else ""))
    # negative control
    real = rule_list.rule_list.extract_violation_dictionary
    rule_list.rule_list.extract_violation_dictionary = m_json_guard_correct
    try:
        kinds, mm, herr = run_stub("base")
    finally:
        rule_list.rule_list.extract_violation_dictionary = real
    neg_ok = not (set(kinds) - BASELINE_KINDS) and mm == 0
    print("negative control (equivalent rewrite of the JSON walk): %s" % ("silent, as it must be" if neg_ok else "FALSE ALARM %r %d" % (kinds, mm)))
    if not neg_ok:
        bad += 1
    bad += real_rule_mutants()
    print("SELFTEST %s" % ("OK" if bad == 0 else "FAILED (%d)" % bad))
    return 1 if bad else 0


if __name__ == "__main__":
    sys.exit(main())
