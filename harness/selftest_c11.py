"""self-test of harness/props_c11.py: seeded defects by monkeypatching the real code in-process
(nothing under /repo or /verif is written; evidence/replays go to a temp dir)"""
import os, sys, tempfile, json, shutil
sys.path.insert(0, os.path.dirname(os.path.abspath(__file__)))
os.environ["VSG_VERIF"] = "1"
import common
tmp = tempfile.mkdtemp(prefix="c11self-")
common.OUT = os.path.join(tmp, "out")
real_verif = common.VERIF
import props_c11 as P

which = sys.argv[1]
from vsg import parser as vparser, rule as vrule
from vsg.vhdlFile import code_tags

if which == "pinned":
    def has_code_tag(self, sCodeTag):
        if self.code_tags == ["all"]:
            return True
        return sCodeTag in self.code_tags
    vparser.item.has_code_tag = has_code_tag
elif which == "nextline":
    real_update = code_tags.New.update
    def update(self, oToken):
        if isinstance(oToken, vparser.carriage_return):
            self.bIgnoreNextCarriageReturn = False
            return None          # next-line tags are never cleared
        return real_update(self, oToken)
    code_tags.New.update = update
elif which == "firsttoken":
    def add_violation(self, violation):
        try:
            first = violation.oTokens.get_tokens()[:1]
        except Exception:
            first = []
        if not any(t.has_code_tag(self.unique_id) for t in first):
            self.violations.append(violation)
    vrule.Rule.add_violation = add_violation
elif which == "onstamp":
    # vsg_on comment stamped after the update instead of before
    VF = sys.modules["vsg.vhdlFile.vhdlFile"]
    def set_code_tags(lTokens):
        oCodeTags = code_tags.New()
        for oToken in lTokens:
            if code_tags.token_has_vsg_on_code_tag(oToken) or code_tags.token_has_vsg_off_code_tag(oToken) or code_tags.token_has_next_line_code_tag(oToken):
                oCodeTags.update(oToken)
                oToken.set_code_tags(oCodeTags.get_tags())
            else:
                oToken.set_code_tags(oCodeTags.get_tags())
                oCodeTags.update(oToken)
    VF.set_code_tags = set_code_tags

# evidence to the temp dir
real_finish = common.Result.finish
def finish(self, *a, **k):
    common.VERIF = tmp
    try:
        return real_finish(self, *a, **k)
    finally:
        common.VERIF = real_verif
common.Result.finish = finish
rc = P.run("C11", "quick")
print("exit", rc)
ev = json.load(open(os.path.join(tmp, "evidence", "C11.json")))
print("proof_breaks:", [b["what"] for b in ev["coverage"]["proof_breaks"]][:6])
print("B failure_counts:", ev["coverage"]["B"]["failure_counts"], "A defects:", ev["coverage"]["A"]["defects"])
rp = os.path.join(tmp, "out", "replays")
for f in sorted(os.listdir(rp)) if os.path.isdir(rp) else []:
    d = json.load(open(os.path.join(rp, f)))
    print(f, "|", (d.get("detail") or json.dumps(d.get("broken"))[:500])[:700])
    if d.get("kind") == "failing-input":
        import io, contextlib
        buf = io.StringIO()
        with contextlib.redirect_stdout(buf):
            rc2 = P.replay("C11", os.path.join(rp, f))
        print("   replay ->", rc2, "|", [l for l in buf.getvalue().splitlines() if "REPRODUCED" in l or "<--" in l][:4])
shutil.rmtree(tmp)
