"""
Layer P translator: the classifier productions (vsg/vhdlFile/classify/*.py) and their helpers
(vsg/vhdlFile/utils.py) of /repo, as they are NOW, printed as terms of the deep-embedded language of
lean/VsgModel/Prog/Syntax.lean:

    lean/VsgModel/Generated/ClassifyProg.lean   one `def` per function + `progTable : List (String × FunDef)`
                                                + module / attribute / constructor / regex tables
    .cache/prog.json                            names, indices, untranslated functions (with the reason)

Names are resolved against the IMPORTED modules (what `token.keyword` denotes in
classify/library_clause.py is whatever the running system says), constructor behaviour of every
token class is probed by instantiating it.  A function that uses a construct outside the subset
is emitted as opaque (`isOpaque := true`: calling it is `Err.unmodelled`) and listed.

Run through gen_tables.generate() (hooked at its end) or stand-alone with /venv/bin/python.
"""
import ast
import glob
import importlib
import json
import os
import re
import sys
import textwrap
import types

VERIF = os.path.dirname(os.path.dirname(os.path.abspath(__file__)))
GEN = os.path.join(VERIF, "lean", "VsgModel", "Generated")
CACHE = os.path.join(VERIF, ".cache")
REPO = os.environ.get("VSG_REPO", "/repo")


class Unsupported(Exception):
    pass


def lean_chars(s):
    """a Python str as a Lean `List Char` term"""
    if s == "":
        return "[]"
    out = []
    for ch in s:
        o = ord(ch)
        if ch == "'":
            out.append("'\\''")
        elif ch == "\\":
            out.append("'\\\\'")
        elif ch == "\n":
            out.append("'\\n'")
        elif ch == "\t":
            out.append("'\\t'")
        elif 32 <= o < 127:
            out.append("'%s'" % ch)
        else:
            out.append("'\\u{%x}'" % o)
    return "[" + ",".join(out) + "]"


def lean_string(s):
    out = ['"']
    for ch in s:
        if ch == '"':
            out.append('\\"')
        elif ch == "\\":
            out.append("\\\\")
        elif ch == "\n":
            out.append("\\n")
        elif ch == "\t":
            out.append("\\t")
        elif 32 <= ord(ch) < 127:
            out.append(ch)
        else:
            out.append("\\u{%x}" % ord(ch))
    out.append('"')
    return "".join(out)


def lean_int(i):
    return "(%d)" % i if i >= 0 else "(-%d)" % -i


# ---------------------------------------------------------------- the world that is translated


def source_modules():
    """(key prefix, module object) of every module whose functions are translated"""
    mods = []
    utils = importlib.import_module("vsg.vhdlFile.utils")
    mods.append(("utils", utils))
    base = os.path.join(REPO, "vsg", "vhdlFile", "classify")
    for p in sorted(glob.glob(os.path.join(base, "*.py"))):
        n = os.path.basename(p)[:-3]
        if n == "__init__":
            continue
        mods.append(("classify." + n, importlib.import_module("vsg.vhdlFile.classify." + n)))
    return mods


METHOD_PRIMS = {
    "get_value": ("getValue", 0),
    "get_lower_value": ("getLower", 0),
    "lower": ("strLower", 0),
    "split": ("strSplit", 1),
    "startswith": ("strStartswith", 1),
    "endswith": ("strEndswith", 1),
    "isdigit": ("strIsdigit", 0),
    "isspace": ("strIsspace", 0),
    "append": ("listAppend", 1),
    "insert": ("listInsert", 2),
    "copy": ("listCopy", 0),
    "reverse": ("listReverse", 0),
    "clear": ("listClear", 0),
    "fullmatch": ("regexFullmatch", 1),
    "match": ("regexMatch", 1),
    "get_filename": ("getFilename", 0),
}

CMP = {ast.Eq: "eq", ast.NotEq: "ne", ast.Lt: "lt", ast.LtE: "le", ast.Gt: "gt", ast.GtE: "ge", ast.In: "isin", ast.NotIn: "notin", ast.Is: "is", ast.IsNot: "isnot"}


class World:
    def __init__(self, crow, classes):
        self.class_index = {}
        for r in crow:
            self.class_index[classes[r["name"]]] = r["idx"]
        self.crow = crow
        self.classes = classes
        self.mods = source_modules()
        self.fun_index = {}  # function object id -> index
        self.fun_keys = []
        self.fun_defs = []  # (key, module, ast.FunctionDef | None, function object)
        for key, m in self.mods:
            try:
                tree = ast.parse(open(m.__file__, encoding="utf-8").read())
            except OSError:
                continue
            for n in tree.body:
                if isinstance(n, ast.FunctionDef):
                    fo = getattr(m, n.name, None)
                    if not isinstance(fo, types.FunctionType) or fo.__module__ != m.__name__:
                        continue
                    self.fun_index[id(fo)] = len(self.fun_defs)
                    self.fun_keys.append(key + "." + n.name)
                    self.fun_defs.append((key + "." + n.name, m, n, fo))
        self.module_index = {}  # module name -> idx
        self.module_objs = []
        self.attr_names = []  # dynamic attribute names
        self.globals = []  # (name, lean initialiser expr)
        self.global_index = {}
        self.regexes = []
        self.mod_globals_ast = {}
        for key, m in self.mods:
            self.module_idx(m)

    def module_idx(self, m):
        i = self.module_index.get(m.__name__)
        if i is None:
            i = len(self.module_objs)
            self.module_index[m.__name__] = i
            self.module_objs.append(m)
        return i

    def attr_idx(self, name):
        if name not in self.attr_names:
            self.attr_names.append(name)
        return self.attr_names.index(name)

    def regex_idx(self, pattern):
        if pattern not in self.regexes:
            self.regexes.append(pattern)
        return self.regexes.index(pattern)

    def global_for(self, owner_name, obj):
        """a module-level constant (list of str / compiled regex) -> Expr.glob"""
        k = (owner_name, id(obj))
        if k in self.global_index:
            return ".glob %d" % self.global_index[k]
        if isinstance(obj, re.Pattern):
            init = ".regexC %d" % self.regex_idx(obj.pattern)
        elif isinstance(obj, (list, tuple)) and all(isinstance(x, str) for x in obj):
            init = (".list [" if isinstance(obj, list) else ".tuple [") + ", ".join(".str " + lean_chars(x) for x in obj) + "]"
        else:
            raise Unsupported("module constant %s of type %s" % (owner_name, type(obj).__name__))
        self.global_index[k] = len(self.globals)
        self.globals.append((owner_name, init))
        return ".glob %d" % self.global_index[k]

    def value_expr(self, obj, what):
        """a Python object met as the value of a global name / static attribute -> Lean Expr"""
        if isinstance(obj, types.ModuleType):
            return ".modC %d" % self.module_idx(obj)
        if isinstance(obj, type):
            if obj in self.class_index:
                return ".clsC %d" % self.class_index[obj]
            raise Unsupported("class %s is not a token class" % obj.__name__)
        if isinstance(obj, types.FunctionType):
            if id(obj) in self.fun_index:
                return ".fnC %d" % self.fun_index[id(obj)]
            raise Unsupported("function %s.%s is outside the translated modules" % (obj.__module__, obj.__name__))
        if isinstance(obj, (re.Pattern, list, tuple)):
            return self.global_for(what, obj)
        if obj is None:
            return ".none"
        if isinstance(obj, bool):
            return ".bool " + ("true" if obj else "false")
        if isinstance(obj, int):
            return ".int " + lean_int(obj)
        if isinstance(obj, str):
            return ".str " + lean_chars(obj)
        raise Unsupported("global %s of type %s" % (what, type(obj).__name__))


def local_names(fn):
    names = []

    def add(n):
        if n not in names:
            names.append(n)

    for a in fn.args.posonlyargs + fn.args.args:
        add(a.arg)
    if fn.args.vararg or fn.args.kwarg or fn.args.kwonlyargs:
        raise Unsupported("*args / **kwargs / keyword-only parameters")

    def targets(t):
        if isinstance(t, ast.Name):
            add(t.id)
        elif isinstance(t, (ast.Tuple, ast.List)):
            for e in t.elts:
                targets(e)

    for n in ast.walk(fn):
        if isinstance(n, ast.Assign):
            for t in n.targets:
                targets(t)
        elif isinstance(n, (ast.AugAssign, ast.AnnAssign)):
            targets(n.target)
        elif isinstance(n, ast.For):
            targets(n.target)
        elif isinstance(n, ast.ExceptHandler) and n.name:
            add(n.name)
        elif isinstance(n, (ast.With,)):
            for it in n.items:
                if it.optional_vars is not None:
                    targets(it.optional_vars)
        elif isinstance(n, (ast.FunctionDef, ast.Lambda, ast.ClassDef)) and n is not fn:
            raise Unsupported("nested def / lambda / class")
        elif isinstance(n, (ast.Global, ast.Nonlocal)):
            raise Unsupported("global / nonlocal")
        elif isinstance(n, (ast.ListComp, ast.SetComp, ast.DictComp, ast.GeneratorExp)):
            raise Unsupported("comprehension")
        elif isinstance(n, ast.NamedExpr):
            raise Unsupported("walrus")
    return names


class FunTranslator:
    def __init__(self, world, module, fn):
        self.w = world
        self.m = module
        self.fn = fn
        self.locals = local_names(fn)
        self.slot = {n: i for i, n in enumerate(self.locals)}

    # ------------------------------------------------------------ names

    def static_obj(self, e):
        """the Python object a Name / dotted Attribute denotes statically (module globals), or raises KeyError"""
        if isinstance(e, ast.Name):
            if e.id in self.slot:
                raise KeyError(e.id)
            if hasattr(self.m, e.id):
                return getattr(self.m, e.id)
            import builtins

            if hasattr(builtins, e.id):
                return getattr(builtins, e.id)
            raise Unsupported("unknown name %s" % e.id)
        if isinstance(e, ast.Attribute):
            base = self.static_obj(e.value)
            if isinstance(base, types.ModuleType):
                if not hasattr(base, e.attr):
                    raise Unsupported("module %s has no attribute %s" % (base.__name__, e.attr))
                return getattr(base, e.attr)
            raise KeyError(e.attr)
        raise KeyError("dynamic")

    def try_static(self, e):
        try:
            return True, self.static_obj(e)
        except KeyError:
            return False, None

    # ------------------------------------------------------------ expressions

    def exprs(self, es):
        return "[" + ", ".join(self.expr(e) for e in es) + "]"

    def expr(self, e):
        w = self.w
        if isinstance(e, ast.Constant):
            v = e.value
            if v is None:
                return ".none"
            if isinstance(v, bool):
                return ".bool " + ("true" if v else "false")
            if isinstance(v, int):
                return ".int " + lean_int(v)
            if isinstance(v, str):
                return ".str " + lean_chars(v)
            raise Unsupported("constant of type %s" % type(v).__name__)
        if isinstance(e, ast.Name):
            if e.id in self.slot:
                return ".var %d" % self.slot[e.id]
            ok, obj = self.try_static(e)
            return w.value_expr(obj, self.m.__name__ + "." + e.id)
        if isinstance(e, ast.Attribute):
            ok, obj = self.try_static(e)
            if ok:
                return w.value_expr(obj, ast.unparse(e))
            if e.attr == "__name__":
                return ".prim .modName [%s]" % self.expr(e.value)
            if e.attr == "__module__":
                return ".prim .clsModule [%s]" % self.expr(e.value)
            if isinstance(e.value, ast.Name) and e.value.id in self.slot:
                return ".attr (%s) %d" % (self.expr(e.value), w.attr_idx(e.attr))
            raise Unsupported("attribute .%s" % e.attr)
        if isinstance(e, ast.List):
            return ".list " + self.exprs(e.elts)
        if isinstance(e, ast.Tuple):
            return ".tuple " + self.exprs(e.elts)
        if isinstance(e, ast.BinOp):
            if isinstance(e.op, ast.Add):
                op = ".add"
            elif isinstance(e.op, ast.Sub):
                op = ".sub"
            else:
                raise Unsupported("binary operator %s" % type(e.op).__name__)
            return ".binop %s (%s) (%s)" % (op, self.expr(e.left), self.expr(e.right))
        if isinstance(e, ast.UnaryOp):
            if isinstance(e.op, ast.Not):
                return ".not (%s)" % self.expr(e.operand)
            if isinstance(e.op, ast.USub):
                if isinstance(e.operand, ast.Constant) and isinstance(e.operand.value, int) and not isinstance(e.operand.value, bool):
                    return ".int " + lean_int(-e.operand.value)
                return ".neg (%s)" % self.expr(e.operand)
            raise Unsupported("unary operator %s" % type(e.op).__name__)
        if isinstance(e, ast.BoolOp):
            op = ".and" if isinstance(e.op, ast.And) else ".or"
            vals = [self.expr(v) for v in e.values]
            acc = vals[-1]
            for v in reversed(vals[:-1]):
                acc = "%s (%s) (%s)" % (op, v, acc)
            return acc
        if isinstance(e, ast.Compare):
            if len(e.ops) != 1:
                raise Unsupported("comparison chain")
            op = CMP.get(type(e.ops[0]))
            if op is None:
                raise Unsupported("comparison %s" % type(e.ops[0]).__name__)
            return ".cmp .%s (%s) (%s)" % (op, self.expr(e.left), self.expr(e.comparators[0]))
        if isinstance(e, ast.Subscript):
            if isinstance(e.slice, ast.Slice):
                s = e.slice
                if s.step is not None:
                    raise Unsupported("slice with a step")
                lo = "none" if s.lower is None else "(some (%s))" % self.expr(s.lower)
                hi = "none" if s.upper is None else "(some (%s))" % self.expr(s.upper)
                return ".slice (%s) %s %s" % (self.expr(e.value), lo, hi)
            return ".index (%s) (%s)" % (self.expr(e.value), self.expr(e.slice))
        if isinstance(e, ast.JoinedStr):
            parts = []
            for v in e.values:
                if isinstance(v, ast.Constant):
                    parts.append(".str " + lean_chars(v.value))
                elif isinstance(v, ast.FormattedValue):
                    if v.conversion != -1 or v.format_spec is not None:
                        raise Unsupported("f-string conversion / format spec")
                    parts.append(self.expr(v.value))
                else:
                    raise Unsupported("f-string part")
            return ".fstr [" + ", ".join(parts) + "]"
        if isinstance(e, ast.Call):
            return self.call(e)
        raise Unsupported("expression %s" % type(e).__name__)

    def positional(self, e, fo):
        """arguments of a call of a known function, keywords mapped to positions"""
        if not e.keywords:
            return list(e.args)
        if fo is None:
            raise Unsupported("keyword arguments in a call of an unknown callee")
        code = fo.__code__
        params = list(code.co_varnames[: code.co_argcount])
        args = list(e.args)
        kw = {k.arg: k.value for k in e.keywords}
        if None in kw:
            raise Unsupported("**kwargs in a call")
        for p in params[len(args):]:
            if p in kw:
                args.append(kw.pop(p))
            else:
                break
        if kw:
            raise Unsupported("keyword arguments that skip a parameter")
        return args

    def call(self, e):
        w = self.w
        f = e.func
        for a in e.args:
            if isinstance(a, ast.Starred):
                raise Unsupported("*args in a call")
        # ---- callee known statically
        ok, obj = self.try_static(f)
        if ok:
            import builtins
            import copy as copy_mod

            if isinstance(obj, types.FunctionType):
                if obj is copy_mod.deepcopy:
                    return ".prim .listCopy " + self.exprs(e.args)
                if id(obj) in w.fun_index:
                    return ".callF %d %s" % (w.fun_index[id(obj)], self.exprs(self.positional(e, obj)))
                raise Unsupported("call of %s.%s (outside the translated modules)" % (obj.__module__, obj.__name__))
            if e.keywords:
                raise Unsupported("keyword arguments")
            if isinstance(obj, type):
                if obj in w.class_index:
                    return ".call (.clsC %d) %s" % (w.class_index[obj], self.exprs(e.args))
                from vsg import exceptions

                if obj is exceptions.ClassifyError:
                    return ".prim .classifyError " + self.exprs(e.args)
                if obj is builtins.type and len(e.args) == 1:
                    return ".prim .typeOf " + self.exprs(e.args)
                if obj is builtins.str and len(e.args) == 1:
                    return ".prim .strOf " + self.exprs(e.args)
                raise Unsupported("call of class %s" % obj.__name__)
            if obj is builtins.len:
                return ".prim .len " + self.exprs(e.args)
            if obj is builtins.isinstance:
                return ".prim .isinstance " + self.exprs(e.args)
            if obj is builtins.print:
                return ".prim .print " + self.exprs(e.args)
            if obj is re.compile:
                raise Unsupported("re.compile inside a function")
            raise Unsupported("call of %s" % ast.unparse(f))
        if e.keywords:
            raise Unsupported("keyword arguments in a dynamic call")
        # ---- local variable called: class or function value
        if isinstance(f, ast.Name):
            return ".call (.var %d) %s" % (self.slot[f.id], self.exprs(e.args))
        # ---- method call
        if isinstance(f, ast.Attribute):
            recv = f.value
            name = f.attr
            if name == "pop":
                return ".prim .listPop " + self.exprs([recv] + list(e.args))
            if name == "join" and len(e.args) == 1:
                return ".prim .strJoin " + self.exprs([recv] + list(e.args))
            if name in METHOD_PRIMS:
                prim, n = METHOD_PRIMS[name]
                if len(e.args) != n:
                    raise Unsupported("method .%s with %d arguments" % (name, len(e.args)))
                return ".prim .%s %s" % (prim, self.exprs([recv] + list(e.args)))
            if isinstance(recv, ast.Name) and recv.id in self.slot:
                # module (or class container) held in a local: `module.detect(...)`, `token.dot()`
                return ".call (.attr (.var %d) %d) %s" % (self.slot[recv.id], w.attr_idx(name), self.exprs(e.args))
            raise Unsupported("method .%s" % name)
        raise Unsupported("call of a computed callee")

    # ------------------------------------------------------------ statements

    def target(self, t, top=True):
        if isinstance(t, ast.Name):
            return ".var %d" % self.slot[t.id]
        if isinstance(t, (ast.Tuple, ast.List)) and top:
            return ".tuple [" + ", ".join(self.target(x, False) for x in t.elts) + "]"
        if isinstance(t, ast.Subscript):
            if isinstance(t.slice, ast.Slice):
                raise Unsupported("slice assignment")
            return ".index (%s) (%s)" % (self.expr(t.value), self.expr(t.slice))
        raise Unsupported("assignment target %s" % type(t).__name__)

    def block(self, ss):
        out = []
        for s in ss:
            r = self.stmt(s)
            if r is not None:
                out.append(r)
        return "[" + ", ".join(out) + "]"

    def iter_expr(self, it):
        if isinstance(it, ast.Call) and isinstance(it.func, ast.Name) and it.func.id not in self.slot and not it.keywords:
            if it.func.id == "range" and not hasattr(self.m, "range"):
                return ".range " + self.exprs(it.args)
            if it.func.id == "enumerate" and len(it.args) == 1 and not hasattr(self.m, "enumerate"):
                a = it.args[0]
                if isinstance(a, ast.Subscript) and isinstance(a.slice, ast.Slice) and a.slice.lower is not None and a.slice.upper is None and a.slice.step is None:
                    return ".enumFrom (%s) (%s)" % (self.expr(a.value), self.expr(a.slice.lower))
                return ".enumerate (%s)" % self.expr(a)
        return ".plain (%s)" % self.expr(it)

    def exc_names(self, t):
        if t is None:
            raise Unsupported("bare except")
        if isinstance(t, ast.Tuple):
            out = []
            for x in t.elts:
                out += self.exc_names(x)
            return out
        ok, obj = self.try_static(t)
        from vsg import exceptions

        if ok and obj is TypeError:
            return [".typeError"]
        if ok and obj is IndexError:
            return [".indexError"]
        if ok and obj is exceptions.ClassifyError:
            return [".classifyError"]
        raise Unsupported("except %s" % ast.unparse(t))

    def stmt(self, s):
        if isinstance(s, ast.Expr):
            if isinstance(s.value, ast.Constant) and isinstance(s.value.value, str):
                return None  # docstring
            return ".expr (%s)" % self.expr(s.value)
        if isinstance(s, ast.Assign):
            if len(s.targets) != 1:
                raise Unsupported("chained assignment")
            fused = self.retag(s.targets[0], s.value)
            if fused is not None:
                return fused
            return ".assign (%s) (%s)" % (self.target(s.targets[0]), self.expr(s.value))
        if isinstance(s, ast.AugAssign):
            if isinstance(s.op, ast.Add):
                op = ".add"
            elif isinstance(s.op, ast.Sub):
                op = ".sub"
            else:
                raise Unsupported("augmented operator %s" % type(s.op).__name__)
            return ".aug (%s) %s (%s)" % (self.target(s.target, False), op, self.expr(s.value))
        if isinstance(s, ast.If):
            return ".ite (%s) %s %s" % (self.expr(s.test), self.block(s.body), self.block(s.orelse))
        if isinstance(s, ast.While):
            if s.orelse:
                raise Unsupported("while-else")
            return ".while (%s) %s" % (self.expr(s.test), self.block(s.body))
        if isinstance(s, ast.For):
            return ".for (%s) (%s) %s %s" % (self.target(s.target), self.iter_expr(s.iter), self.block(s.body), self.block(s.orelse))
        if isinstance(s, ast.Return):
            return ".ret (%s)" % (".none" if s.value is None else self.expr(s.value))
        if isinstance(s, ast.Break):
            return ".brk"
        if isinstance(s, ast.Continue):
            return ".cont"
        if isinstance(s, ast.Pass):
            return ".pass"
        if isinstance(s, ast.Try):
            if s.finalbody or s.orelse:
                raise Unsupported("try-finally / try-else")
            hs = []
            for h in s.handlers:
                if h.name:
                    raise Unsupported("except … as name")
                hs.append("([%s], %s)" % (", ".join(self.exc_names(h.type)), self.block(h.body)))
            return ".try %s [%s]" % (self.block(s.body), ", ".join(hs))
        if isinstance(s, ast.Raise):
            if s.exc is None or s.cause is not None:
                raise Unsupported("re-raise / raise from")
            return ".raise (%s)" % self.expr(s.exc)
        raise Unsupported("statement %s" % type(s).__name__)

    def retag(self, t, v):
        """`L[X] = C(L[X].get_value())` / `L[X] = C()` with L, X, C plain local variables -> Stmt.retag"""

        def local(e):
            return isinstance(e, ast.Name) and e.id in self.slot

        if not (isinstance(t, ast.Subscript) and local(t.value) and local(t.slice)):
            return None
        if not (isinstance(v, ast.Call) and local(v.func) and not v.keywords):
            return None
        L, X, C = t.value.id, t.slice.id, v.func.id
        if len(v.args) == 0:
            return ".retag %d %d %d false" % (self.slot[L], self.slot[X], self.slot[C])
        if len(v.args) == 1:
            a = v.args[0]
            if (
                isinstance(a, ast.Call)
                and not a.args
                and not a.keywords
                and isinstance(a.func, ast.Attribute)
                and a.func.attr == "get_value"
                and isinstance(a.func.value, ast.Subscript)
                and local(a.func.value.value)
                and a.func.value.value.id == L
                and local(a.func.value.slice)
                and a.func.value.slice.id == X
            ):
                return ".retag %d %d %d true" % (self.slot[L], self.slot[X], self.slot[C])
        return None

    def fundef(self):
        fn = self.fn
        nparams = len(fn.args.posonlyargs) + len(fn.args.args)
        defaults = []
        for d in fn.args.defaults:
            if isinstance(d, ast.Constant) and (d.value is None or isinstance(d.value, (bool, int, str))):
                defaults.append(self.expr(d))
            else:
                # evaluated once at `def` time in module scope: only names that denote a class / module / constant
                ok, obj = (False, None)
                if isinstance(d, (ast.Name, ast.Attribute)):
                    saved, self.slot = self.slot, {}
                    try:
                        ok, obj = self.try_static(d)
                    finally:
                        self.slot = saved
                if not ok or not isinstance(obj, type):
                    raise Unsupported("non-constant default value")
                defaults.append(self.w.value_expr(obj, ast.unparse(d)))
        body = self.block(fn.body)
        return "{ nparams := %d, nlocals := %d, defaults := [%s], body := %s }" % (nparams, len(self.locals), ", ".join(defaults), body)


# ---------------------------------------------------------------- constructor behaviour


def probe_ctor(cls):
    """(ctor1, ctor0): what `C(v)` and `C()` do.  ctor1 = ["keep"] | ["fixed", value, lower] | ["typeError"] | ["odd", why]"""
    p1, p2 = "ProbeİA", "oTHer"

    def one(arg):
        try:
            o = cls(arg)
        except TypeError:
            return ("typeError",)
        except Exception as ex:  # noqa: BLE001
            return ("raises", type(ex).__name__)
        return ("ok", o.value, o.lower_value)

    a, b = one(p1), one(p2)
    if a[0] == "typeError" and b[0] == "typeError":
        c1 = ["typeError"]
    elif a[0] == "ok" and b[0] == "ok":
        if a[1] == p1 and b[1] == p2 and a[2] == p1.lower() and b[2] == p2.lower():
            c1 = ["keep"]
        elif a[1] == b[1] and a[2] == b[2]:
            c1 = ["fixed", a[1], a[2]]
        else:
            c1 = ["odd", "value depends on the argument in another way"]
    else:
        c1 = ["odd", "TypeError for some arguments only"]
    try:
        o = cls()
        c0 = ["fixed", o.value, o.lower_value]
    except TypeError:
        c0 = ["typeError"]
    except Exception as ex:  # noqa: BLE001
        c0 = ["typeError"]
        if c1[0] != "odd":
            c1 = ["odd", "C() raises %s" % type(ex).__name__]
    return c1, c0


# ---------------------------------------------------------------- emit


def chunks(xs, n):
    return [xs[i : i + n] for i in range(0, len(xs), n)]


def generate(crow=None, classes=None, verbose=False):
    import gen_tables

    if crow is None:
        crow, classes = gen_tables.class_table()
    w = World(crow, classes)
    defs = []
    opaque = []
    for i, (key, m, fn, fo) in enumerate(w.fun_defs):
        try:
            term = FunTranslator(w, m, fn).fundef()
        except Unsupported as ex:
            nparams = len(fn.args.posonlyargs) + len(fn.args.args)
            term = "{ nparams := %d, nlocals := %d, body := [], isOpaque := true }" % (nparams, nparams)
            opaque.append({"idx": i, "key": key, "reason": str(ex), "line": fn.lineno})
        defs.append(term)

    # dynamic attributes of modules: (module, attribute name) -> value, for every module that can be held in a local
    # (the translated modules and every module reachable as a module-valued global of them: `token` aliases)
    seen = True
    while seen:
        seen = False
        for m in list(w.module_objs):
            for k, v in list(vars(m).items()):
                if isinstance(v, types.ModuleType) and (v.__name__.startswith("vsg.token") or v.__name__.startswith("vsg.vhdlFile.classify") or v.__name__ in ("vsg.parser", "vsg.vhdlFile.utils")):
                    if v.__name__ not in w.module_index:
                        w.module_idx(v)
                        seen = True
    mod_attr = []
    for mi, m in enumerate(w.module_objs):
        for ai, an in enumerate(w.attr_names):
            if not hasattr(m, an):
                continue
            v = getattr(m, an)
            if isinstance(v, type) and v in w.class_index:
                mod_attr.append((mi, ai, 0, w.class_index[v]))
            elif isinstance(v, types.FunctionType) and id(v) in w.fun_index:
                mod_attr.append((mi, ai, 1, w.fun_index[id(v)]))
            elif isinstance(v, types.ModuleType) and v.__name__ in w.module_index:
                mod_attr.append((mi, ai, 2, w.module_index[v.__name__]))

    ctor1, ctor0, odd = [], [], []
    for r in crow:
        c1, c0 = probe_ctor(classes[r["name"]])
        if c1[0] == "odd":
            odd.append({"idx": r["idx"], "name": r["name"], "why": c1[1]})
        ctor1.append(c1)
        ctor0.append(c0)

    L = []
    L.append("/- GENERATED by harness/gen_prog.py from vsg/vhdlFile/classify/*.py and vsg/vhdlFile/utils.py of /repo — do not edit -/")
    L.append("import VsgModel.Prog.Syntax")
    L.append("set_option maxRecDepth 4096")
    L.append("namespace Vsgm.Gen.Prog")
    L.append("open Vsgm.Prog")
    for i, term in enumerate(defs):
        L.append("/-- %s -/" % w.fun_keys[i])
        L.append("def f%d : FunDef := %s" % (i, term))
    for ci, ch in enumerate(chunks(list(range(len(defs))), 64)):
        L.append("def progTable_%d : List (String × FunDef) := [%s]" % (ci, ", ".join("(%s, f%d)" % (lean_string(w.fun_keys[i]), i) for i in ch)))
    nch = len(chunks(list(range(len(defs))), 64))
    L.append("/-- every function of the translated modules, keyed by `module.function`; calls refer to positions of this list -/")
    L.append("def progTable : List (String × FunDef) := " + (" ++ ".join("progTable_%d" % i for i in range(nch)) or "[]"))
    L.append("/-- module-level constants (initialisers, evaluated once in this order) -/")
    L.append("def progGlobals : List Expr := [%s]" % ", ".join(g[1] for g in w.globals))
    L.append("def progGlobalNames : List String := [%s]" % ", ".join(lean_string(g[0]) for g in w.globals))
    L.append("def moduleNames : List String := [%s]" % ", ".join(lean_string(m.__name__) for m in w.module_objs))
    L.append("def attrNames : List String := [%s]" % ", ".join(lean_string(a) for a in w.attr_names))
    L.append("/-- (module, attribute name, kind 0 = class | 1 = function | 2 = module, index) -/")
    for ci, ch in enumerate(chunks(mod_attr, 128)):
        L.append("def modAttr_%d : List (Nat × Nat × Nat × Nat) := [%s]" % (ci, ", ".join("(%d,%d,%d,%d)" % t for t in ch)))
    L.append("def modAttrTable : List (Nat × Nat × Nat × Nat) := " + (" ++ ".join("modAttr_%d" % i for i in range(len(chunks(mod_attr, 128)))) or "[]"))
    L.append("def regexPatterns : List String := [%s]" % ", ".join(lean_string(p) for p in w.regexes))

    def c1term(c):
        if c[0] == "keep":
            return ".keep"
        if c[0] == "fixed":
            return "(.fixed %s %s)" % (lean_chars(c[1]), lean_chars(c[2]))
        return ".typeError"

    L.append("/-- per class index: what `C(v)` does (probed by instantiating the class) -/")
    for ci, ch in enumerate(chunks(ctor1, 64)):
        L.append("def ctor1_%d : List Ctor1 := [%s]" % (ci, ", ".join(c1term(c) for c in ch)))
    L.append("def ctor1Table : List Ctor1 := " + " ++ ".join("ctor1_%d" % i for i in range(len(chunks(ctor1, 64)))))
    L.append("/-- per class index: what `C()` gives (value, lower_value), or TypeError -/")
    for ci, ch in enumerate(chunks(ctor0, 64)):
        L.append("def ctor0_%d : List (Option (Str × Str)) := [%s]" % (ci, ", ".join("none" if c[0] != "fixed" else "some (%s, %s)" % (lean_chars(c[1]), lean_chars(c[2])) for c in ch)))
    L.append("def ctor0Table : List (Option (Str × Str)) := " + " ++ ".join("ctor0_%d" % i for i in range(len(chunks(ctor0, 64)))))
    L.append("/-- classes whose constructor is neither value-keeping nor constant (constructing them is `unmodelled`) -/")
    L.append("def ctorOdd : List Nat := [%s]" % ", ".join(str(o["idx"]) for o in odd))
    L.append("def classModules : List String := [%s]" % ", ".join(lean_string(classes[r["name"]].__module__) for r in crow))
    L.append("end Vsgm.Gen.Prog")
    text = "\n".join(L) + "\n"
    changed = gen_tables.write_if_changed(os.path.join(GEN, "ClassifyProg.lean"), text)

    info = {
        "functions": [{"idx": i, "key": k} for i, k in enumerate(w.fun_keys)],
        "opaque": opaque,
        "modules": [m.__name__ for m in w.module_objs],
        "attrs": w.attr_names,
        "globals": [g[0] for g in w.globals],
        "regexes": w.regexes,
        "ctor_odd": odd,
        "ctor1": ctor1,
        "ctor0": ctor0,
        "bytes": len(text),
    }
    os.makedirs(CACHE, exist_ok=True)
    with open(os.path.join(CACHE, "prog.json"), "w") as f:
        json.dump(info, f)
    if verbose:
        print("gen_prog: %d functions, %d opaque, %d modules, %d globals, %d bytes%s" % (len(defs), len(opaque), len(w.module_objs), len(w.globals), len(text), " (rewritten)" if changed else ""))
        for o in opaque:
            print("  opaque %-70s %s" % (o["key"], o["reason"]))
        for o in odd:
            print("  odd constructor", o)
    return info, changed


if __name__ == "__main__":
    sys.path.insert(0, os.path.dirname(os.path.abspath(__file__)))
    generate(verbose=True)
