"""development aid: add the (site, kind) of replay files under out/replays (or another dir) for the given
properties to known_findings.json as open entries.  Usage: kf_add.py <dir> C08 C09 …"""
import glob
import json
import os
import sys

VERIF = os.path.dirname(os.path.dirname(os.path.abspath(__file__)))
d = sys.argv[1]
props = set(sys.argv[2:])
K = json.load(open(os.path.join(VERIF, "known_findings.json")))
have = {(k["property"], k["site"], k["kind"]) for k in K}
n = 0
for f in sorted(glob.glob(os.path.join(d, "*.json"))):
    r = json.load(open(f))
    if r.get("kind") != "failing-input" or r["property"] not in props:
        continue
    key = (r["property"], r["site"], r["failure"])
    if key in have:
        continue
    have.add(key)
    det = r["detail"]
    if isinstance(det, dict):
        det = {k: det[k] for k in list(det)[:6]}
    inp = r.get("input") or {}
    ex = inp.get("cut_input") or inp.get("path") or inp.get("corrupted_from") or ""
    if isinstance(ex, list):
        ex = "\n".join(ex[:25])
    K.append({"property": r["property"], "site": r["site"], "kind": r["failure"], "detail": json.dumps(det, default=str)[:500] if not isinstance(det, str) else det[:500], "example": str(ex)[:600] + (" | variant=%s config=%s" % (inp.get("variant"), inp.get("config")) if inp.get("variant") else ""), "status": "open"})
    n += 1
    print("added", key)
json.dump(K, open(os.path.join(VERIF, "known_findings.json"), "w"), indent=1)
print(n, "added;", len(K), "entries")
