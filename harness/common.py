"""
Shared machinery of every check: seeds, Lean build + axiom audit, known findings,
replay files, evidence, exit protocol.
"""
import hashlib
import json
import os
import random
import re
import subprocess
import sys
import time

VERIF = os.path.dirname(os.path.dirname(os.path.abspath(__file__)))
LEAN = os.path.join(VERIF, "lean")
CACHE = os.path.join(VERIF, ".cache")
OUT = os.path.join(VERIF, "out")
REPO = os.environ.get("VSG_REPO", "/repo")
ALLOWED_AXIOMS = {"propext", "Classical.choice", "Quot.sound"}
FORBIDDEN = re.compile(r"\b(sorry|admit|native_decide|bv_decide|implemented_by)\b|^\s*axiom\s|\bunsafe\s|maxHeartbeats\s+0\b")

TRUSTED_BASE = [
    "Lean 4.33 kernel; axioms of every property theorem audited on each run to be within {propext, Classical.choice, Quot.sound}; no sorry/admit/native_decide/bv_decide/own axioms (grep on each run)",
    "hand-written Lean models (lean/VsgModel/**) of the modelled parts of vsg/: tied to /repo only through the correspondence runs of this check on the explored inputs",
    "harness/gen_tables.py (translator): reads instantiated rule objects, token classes, docs labels and CPython str predicates and prints them as Lean tables",
    "the Python harness: instrumentation by wrapping Rule.fix / Rule.analyze / vhdlFile.update from outside, wire encoding, canonicalisation",
    "CPython 3.12, PyYAML, POSIX file system semantics",
]


def seed():
    try:
        return int(os.environ.get("VERIF_SEED", "0"))
    except ValueError:
        return 0


def rel(path):
    """a path below the repository or below /verif without that prefix: random choices are keyed by it, so that the
    same job makes the same choices wherever the tree under test happens to live"""
    path = str(path)
    for base in (REPO, VERIF):
        b = os.path.abspath(base) + os.sep
        if os.path.abspath(path).startswith(b):
            return os.path.abspath(path)[len(b):]
    return path


def rng(tag=""):
    return random.Random("%d/%s" % (seed(), tag))


def tree_hash(repo_only=False):
    """content hash of everything under /repo/vsg and /repo/docs that can influence a check"""
    h = hashlib.sha256()
    for root in ("vsg", "docs"):
        base = os.path.join(REPO, root)
        for dp, dn, fn in os.walk(base):
            dn[:] = sorted(d for d in dn if d != "__pycache__")
            for f in sorted(fn):
                if f.endswith((".py", ".yaml", ".rst", ".json")):
                    p = os.path.join(dp, f)
                    h.update(p.encode())
                    with open(p, "rb") as fh:
                        h.update(fh.read())
    if repo_only:
        return h.hexdigest()[:24]
    hs = h.copy()
    # the harness and the model are part of the key too
    for base in (os.path.join(VERIF, "harness"), os.path.join(LEAN, "VsgModel"), os.path.join(LEAN, "VsgProofs")):
        for dp, dn, fn in os.walk(base):
            dn[:] = sorted(d for d in dn if d not in ("__pycache__", "Generated"))
            for f in sorted(fn):
                if f.endswith((".py", ".lean")):
                    p = os.path.join(dp, f)
                    hs.update(p.encode())
                    with open(p, "rb") as fh:
                        hs.update(fh.read())
    for f in ("Driver.lean", "VsgModel.lean", "VsgProofs.lean"):
        p = os.path.join(LEAN, f)
        if os.path.exists(p):
            hs.update(open(p, "rb").read())
    return hs.hexdigest()[:24]


# ------------------------------------------------------------------ Lean


def lean_sources():
    out = []
    for base in (os.path.join(LEAN, "VsgModel"), os.path.join(LEAN, "VsgProofs")):
        for dp, dn, fn in os.walk(base):
            for f in sorted(fn):
                if f.endswith(".lean"):
                    out.append(os.path.join(dp, f))
    for f in ("Driver.lean", "VsgModel.lean", "VsgProofs.lean"):
        p = os.path.join(LEAN, f)
        if os.path.exists(p):
            out.append(p)
    return out


def strip_comments(src):
    src = re.sub(r"/-.*?-/", lambda m: "\n" * m.group(0).count("\n"), src, flags=re.S)
    src = re.sub(r"--.*", "", src)
    return src


def forbidden_tokens():
    hits = []
    for p in lean_sources():
        src = strip_comments(open(p, encoding="utf-8").read())
        for i, line in enumerate(src.split("\n")):
            if FORBIDDEN.search(line):
                hits.append("%s:%d: %s" % (os.path.relpath(p, LEAN), i + 1, line.strip()[:120]))
    return hits


def lake_build(targets):
    t0 = time.time()
    p = subprocess.run(["lake", "build", *targets], cwd=LEAN, stdout=subprocess.PIPE, stderr=subprocess.STDOUT, text=True)
    return p.returncode == 0, p.stdout, time.time() - t0


def failed_decls(build_output):
    out = []
    for m in re.finditer(r"error: ([^\s:]+\.lean):(\d+):(\d+): (.*)", build_output):
        path, line, msg = m.group(1), int(m.group(2)), m.group(4)
        name = None
        try:
            src = open(os.path.join(LEAN, path), encoding="utf-8").read().split("\n")
            for i in range(min(line, len(src)) - 1, -1, -1):
                mm = re.match(r"\s*(?:private\s+|protected\s+)?(?:theorem|lemma|def|example|instance)\s+([^\s:(\[{]+)?", src[i])
                if mm:
                    name = mm.group(1) or "example@%d" % (i + 1)
                    break
        except OSError:
            pass
        out.append({"file": path, "line": line, "decl": name, "message": msg[:300]})
    return out


def property_theorems(prop):
    """names of the theorems stated in lean/VsgProofs/Properties/<prop>.lean"""
    p = os.path.join(LEAN, "VsgProofs", "Properties", prop + ".lean")
    if not os.path.exists(p):
        return []
    src = strip_comments(open(p, encoding="utf-8").read())
    ns = re.search(r"^namespace\s+(\S+)", src, flags=re.M)
    prefix = (ns.group(1) + ".") if ns else ""
    return [prefix + m.group(1) for m in re.finditer(r"^theorem\s+([^\s:(\[{]+)", src, flags=re.M)]


def audit_axioms(prop):
    """#print axioms for every property theorem.  Returns (theorems, {name: [axioms]}, problems)"""
    thms = property_theorems(prop)
    if not thms:
        return [], {}, ["no property theorems found for " + prop]
    os.makedirs(OUT, exist_ok=True)
    tmp = os.path.join(OUT, "Audit_%s_%d.lean" % (prop, os.getpid()))
    with open(tmp, "w") as f:
        f.write("import VsgProofs.Properties.%s\n" % prop)
        for t in thms:
            f.write("#print axioms %s\n" % t)
    p = subprocess.run(["lake", "env", "lean", tmp], cwd=LEAN, stdout=subprocess.PIPE, stderr=subprocess.STDOUT, text=True)
    os.remove(tmp)
    axioms = {}
    problems = []
    text = p.stdout
    for m in re.finditer(r"'([^']+)' depends on axioms: \[([^\]]*)\]", text, flags=re.S):
        axioms[m.group(1)] = [a.strip() for a in m.group(2).replace("\n", " ").split(",") if a.strip()]
    for m in re.finditer(r"'([^']+)' does not depend on any axioms", text):
        axioms[m.group(1)] = []
    for t in thms:
        if t not in axioms:
            problems.append("no axiom report for %s" % t)
        else:
            bad = [a for a in axioms[t] if a not in ALLOWED_AXIOMS]
            if bad:
                problems.append("%s depends on %s" % (t, bad))
    if p.returncode != 0:
        problems.append("audit file failed to elaborate: " + text[-400:])
    return thms, axioms, problems


# ------------------------------------------------------------------ known findings


def load_known():
    p = os.path.join(VERIF, "known_findings.json")
    if not os.path.exists(p):
        return []
    return json.load(open(p))


def match_known(prop, site, kind, known=None):
    """an `open` entry with the same property, site and kind (detail is informative)"""
    for k in known if known is not None else load_known():
        if k.get("status") == "open" and k["property"] == prop and k["site"] == site and k["kind"] == kind:
            return k
    return None


# ------------------------------------------------------------------ result protocol


class Result:
    """collects failures of one check run and finishes it (evidence, VIOLATION lines, exit)"""

    def __init__(self, prop, tier):
        self.prop = prop
        self.tier = tier
        self.t0 = time.time()
        self.failures = []  # dicts: site, kind, detail, replay(dict)
        self.proof_breaks = []  # dicts naming theorems / correspondences that no longer check
        self.coverage = {}
        self.assumptions = []
        self.notes = []

    def fail(self, site, kind, detail, replay):
        self.failures.append({"site": site, "kind": kind, "detail": detail, "replay": replay})

    def proof_break(self, what, detail):
        self.proof_breaks.append({"what": what, "detail": detail})

    def write_replay(self, name, obj):
        d = os.path.join(OUT, "replays")
        os.makedirs(d, exist_ok=True)
        p = os.path.join(d, "%s_%s.json" % (self.prop, name))
        with open(p, "w") as f:
            json.dump(obj, f, indent=1, default=str)
        return p

    def finish(self, obligations, discharged, checker_cmd, theorems=None):
        known = load_known()
        lines = []
        nviol = 0
        seen_known = set()
        seen_viol = set()
        for fl in self.failures:
            k = match_known(self.prop, fl["site"], fl["kind"], known)
            if k is not None:
                key = (fl["site"], fl["kind"])
                if key not in seen_known:
                    seen_known.add(key)
                    lines.append("KNOWN-FINDING: property=%s site=%s kind=%s %s" % (self.prop, fl["site"], fl["kind"], k.get("detail", "")))
                continue
            key = (fl["site"], fl["kind"])
            if key in seen_viol:
                continue
            seen_viol.add(key)
            nviol += 1
            safe = re.sub(r"[^A-Za-z0-9_.-]", "_", "%s_%s" % (fl["site"], fl["kind"]))[:72] + "_" + hashlib.sha256(("%s|%s" % (fl["site"], fl["kind"])).encode()).hexdigest()[:6]
            rp = self.write_replay(safe, {"property": self.prop, "kind": "failing-input", "site": fl["site"], "failure": fl["kind"], "detail": fl["detail"], "seed": seed(), "tier": self.tier, "input": fl["replay"]})
            lines.append("VIOLATION property=%s replay=%s" % (self.prop, rp))
        if self.proof_breaks and nviol == 0:
            # a proof obligation or a correspondence no longer checks and the search found no
            # failing input that is not already listed: the property is no longer shown to hold
            rp = self.write_replay("proof_break", {"property": self.prop, "kind": "no-failing-input-found", "broken": self.proof_breaks, "seed": seed(), "tier": self.tier})
            lines.append("VIOLATION property=%s replay=%s no-failing-input-found" % (self.prop, rp))
            nviol += 1
        cov = dict(self.coverage)
        cov.setdefault("evaluations", 0)
        cov.setdefault("distinct_nontrivial", 0)
        cov.setdefault("samples", [])
        cov["obligations"] = obligations
        cov["discharged"] = discharged
        cov["checker_cmd"] = checker_cmd
        cov["trusted_base"] = TRUSTED_BASE
        if theorems is not None:
            cov["theorems"] = theorems
        cov["known_findings_seen"] = sorted("%s/%s" % k for k in seen_known)
        cov["proof_breaks"] = self.proof_breaks
        ev = {
            "property_id": self.prop,
            "tier": self.tier,
            "seed": seed(),
            "level": "proof",
            "coverage": cov,
            "assumptions": self.assumptions,
            "wall_s": round(time.time() - self.t0, 2),
            "violations": nviol,
        }
        os.makedirs(os.path.join(VERIF, "evidence"), exist_ok=True)
        with open(os.path.join(VERIF, "evidence", self.prop + ".json"), "w") as f:
            json.dump(ev, f, indent=1, default=str)
        for l in lines:
            print(l)
        print("%s %s: %d evaluations, %d obligations (%d discharged), %d violation(s), %d known finding(s), %.1fs" % (self.prop, self.tier, cov["evaluations"], obligations, discharged, nviol, len(seen_known), time.time() - self.t0))
        sys.stdout.flush()
        return 1 if nviol else 0


def lean_phase(res, prop):
    """regenerate tables, build model + proofs + driver, audit.  Records proof breaks in `res`.
    Returns (driver_ok, obligations, discharged, theorem names)"""
    import gen_tables

    tables, changed = gen_tables.generate()
    ok_model, out_model, _ = lake_build(["VsgModel", "driver"])
    if not ok_model:
        for d in failed_decls(out_model):
            res.proof_break("model build: %s:%s %s" % (d["file"], d["line"], d["decl"]), d["message"])
        if not failed_decls(out_model):
            res.proof_break("model build", out_model[-600:])
    ok_proofs, out_proofs, _ = lake_build(["VsgProofs.Properties." + prop])
    thms = property_theorems(prop)
    broken = set()
    if not ok_proofs:
        fd = failed_decls(out_proofs)
        for d in fd:
            res.proof_break("theorem %s (%s:%s)" % (d["decl"], d["file"], d["line"]), d["message"])
            broken.add(d["decl"])
        if not fd:
            res.proof_break("proof build", out_proofs[-600:])
    discharged = 0
    axioms = {}
    if ok_proofs:
        thms, axioms, problems = audit_axioms(prop)
        for pr in problems:
            res.proof_break("axiom audit", pr)
        discharged = sum(1 for t in thms if t in axioms and all(a in ALLOWED_AXIOMS for a in axioms[t]))
    hits = forbidden_tokens()
    for h in hits:
        res.proof_break("forbidden token", h)
    if hits:
        discharged = 0
    return ok_model, tables, len(thms), discharged, [{"name": t, "axioms": axioms.get(t)} for t in thms]
