"""Lean side access: build, driver subprocess, wire encoding."""
import os
import re
import subprocess
import sys

VERIF = os.path.dirname(os.path.dirname(os.path.abspath(__file__)))
LEAN = os.path.join(VERIF, "lean")
DRIVER = os.path.join(LEAN, ".lake", "build", "bin", "driver")


def enc_str(s):
    return ".".join(str(ord(c)) for c in s)


def dec_str(s):
    return "".join(chr(int(p)) for p in s.split(".")) if s else ""


def enc_tok(t, ncls):
    ser, cls, val = t[0], t[1], t[2]
    return "%d:%d:%s" % (ser, cls if cls >= 0 else ncls, enc_str(val))


def enc_toks(ts, ncls):
    return " ".join(enc_tok(t, ncls) for t in ts)


def lake_build(targets=("VsgModel", "driver"), timeout=1800):
    """returns (ok, output)"""
    p = subprocess.run(["lake", "build", *targets], cwd=LEAN, stdout=subprocess.PIPE, stderr=subprocess.STDOUT, text=True, timeout=timeout)
    return p.returncode == 0, p.stdout


def failed_decls(build_output):
    """(file, line, message) of every error, with the enclosing theorem name"""
    out = []
    for m in re.finditer(r"error: ([^\s:]+\.lean):(\d+):(\d+): (.*)", build_output):
        path, line, msg = m.group(1), int(m.group(2)), m.group(4)
        name = None
        try:
            src = open(os.path.join(LEAN, path), encoding="utf-8").read().split("\n")
            for i in range(min(line, len(src)) - 1, -1, -1):
                mm = re.match(r"\s*(?:private\s+|protected\s+)?(?:theorem|lemma|def|example|instance)\s+([^\s:(\[{]+)?", src[i])
                if mm:
                    name = mm.group(1) or "example@%d" % (i + 1)
                    break
        except OSError:
            pass
        out.append({"file": path, "line": line, "decl": name, "message": msg[:300]})
    return out


class Driver:
    def __init__(self, mode):
        self.p = subprocess.Popen([DRIVER, mode], stdin=subprocess.PIPE, stdout=subprocess.PIPE, text=True, encoding="utf-8", bufsize=1 << 20)

    def send(self, line):
        self.p.stdin.write(line)
        self.p.stdin.write("\n")

    def ask(self, line):
        self.send(line)
        self.p.stdin.flush()
        return self.p.stdout.readline().rstrip("\n")

    def flush(self):
        self.p.stdin.flush()

    def read(self):
        return self.p.stdout.readline().rstrip("\n")

    def close(self):
        try:
            self.p.stdin.close()
        except Exception:  # noqa: BLE001
            pass
        rest = self.p.stdout.read()
        self.p.wait()
        return rest
