"""
BFULL2 — whole rules inside the Lean model (work package WP2): the indent family (`token_indent` + its three
extractor variants, 102 rules) and the vertical-spacing families (`blank_line_below_line_ending_with_token`,
`blank_line_above_line_starting_with_token`, `previous_line`).

Decided by
 (1) the theorems between the `BEGIN wp2_bfull2` / `END wp2_bfull2` markers of VsgProofs/Properties/C03 C07 C10 C18
     (whole-rule idempotence, line exactness, layout-only, slice exactness — for ALL token lists, indent
     assignments and option values);
 (2) correspondence of the whole-rule Lean functions (driver mode `bfull2`) with the REAL rules:
     for every rule of a family × corpus file × re-layout variant × option values the real rule's
     `_get_tokens_of_interest`, `_analyze` and `fix` run in-process on the parsed file (code tags cleared, indent
     levels as `set_token_indent` leaves them) and the Lean function runs on the same token list (+ the real
     indent levels); compared: regions of interest (start index, line, length), violations (line, start, action,
     solution text), the token list after `Rule.fix`;
 (3) the theorems' conclusions on the real code: after the real fix the real analysis is run again — it must be
     empty (C10) — and the lines that differ must be the reported ones, the line count unchanged (C07, indent).

`./check BFULL2 quick|thorough`; `extra(res, tier, prop)` is the hook used by C03 / C07 / C10 / C18.
"""
import json
import multiprocessing
import os
import re
import subprocess
import sys
import time
import traceback

import common
import gen_inputs
import leanio

PROP_FILES = ["C03", "C06", "C07", "C09", "C10", "C18", "BFULL2"]
MARK = "wp2_bfull2"
MARKS = ["wp2_bfull2", "wp2b_affix", "wp2b_vspace", "wp2b_indent", "wp2c_selstable", "wp2c_vspace", "wp2d_vspace"]
PROCS = int(os.environ.get("BFULL2_PROCS", "5"))

# ------------------------------------------------------------------ Lean side


def my_theorems():
    out = {}
    for pf in PROP_FILES:
        p = os.path.join(common.LEAN, "VsgProofs", "Properties", pf + ".lean")
        src = open(p, encoding="utf-8").read()
        bodies = []
        for mk in MARKS:
            bodies += re.findall(r"BEGIN %s(.*?)END %s" % (mk, mk), src, flags=re.S)
        if not bodies:
            continue
        ns = re.search(r"^namespace\s+(\S+)", src, flags=re.M).group(1)
        names = []
        for b in bodies:
            b = common.strip_comments(b)
            names += [ns + "." + t for t in re.findall(r"^theorem\s+([^\s:(\[{]+)", b, flags=re.M)]
        out[pf] = names
    return out


def audit(thms_by_file):
    os.makedirs(common.OUT, exist_ok=True)
    tmp = os.path.join(common.OUT, "Audit_BFULL2_%d.lean" % os.getpid())
    with open(tmp, "w") as f:
        for pf in thms_by_file:
            f.write("import VsgProofs.Properties.%s\n" % pf)
        for pf, ts in thms_by_file.items():
            for t in ts:
                f.write("#print axioms %s\n" % t)
    p = subprocess.run(["lake", "env", "lean", tmp], cwd=common.LEAN, stdout=subprocess.PIPE, stderr=subprocess.STDOUT, text=True)
    os.remove(tmp)
    axioms = {}
    for m in re.finditer(r"'([^']+)' depends on axioms: \[([^\]]*)\]", p.stdout, flags=re.S):
        axioms[m.group(1)] = [a.strip() for a in m.group(2).replace("\n", " ").split(",") if a.strip()]
    for m in re.finditer(r"'([^']+)' does not depend on any axioms", p.stdout):
        axioms[m.group(1)] = []
    problems = []
    for ts in thms_by_file.values():
        for t in ts:
            if t not in axioms:
                problems.append("no axiom report for " + t)
            elif [a for a in axioms[t] if a not in common.ALLOWED_AXIOMS]:
                problems.append("%s depends on %s" % (t, axioms[t]))
    if p.returncode != 0:
        problems.append("audit file failed: " + p.stdout[-400:])
    return axioms, problems


# ------------------------------------------------------------------ workers

_W = {}


def _winit():
    import vsgrun

    tables = json.load(open(os.path.join(common.CACHE, "tables.json")))
    _W["tables"] = tables
    _W["ci"] = vsgrun.ClassIndex(tables)
    _W["ncls"] = len(tables["classes"])
    _W["kind"] = {r["idx"]: r["kind"] for r in tables["classes"]}
    cla, oConfig = vsgrun.make_config(style=None)
    _W["cla"] = cla
    _W["config"] = oConfig
    _W["indent_ids"] = [r["id"] for r in tables["bfull2"]["indent"]]
    _W["vspace"] = tables["bfull2"]["vspace"]


INDENT_CFGS_ALL = [("spaces", 2)]
INDENT_CFGS_EXTRA = [("smart_tabs", 2), ("spaces", 0), ("spaces", 3), ("bogus", 2), ("smart_tabs", 0), ("spaces", -1)]


class Snap:
    """the state `vhdlFile.update` and the indent fix touch: the token list, the index object, token values"""

    def __init__(self, o):
        self.objs = list(o.lAllObjects)
        self.vals = [t.value for t in self.objs]
        self.map = o.oTokenMap

    def restore(self, o):
        o.lAllObjects = list(self.objs)
        for t, v in zip(self.objs, self.vals):
            if t.value != v:
                t.value = v
        o.oTokenMap = self.map


def plain(lObjects, ci, ncls):
    out = []
    for t in lObjects:
        c = ci.of(t)
        out.append((c if c >= 0 else ncls, t.get_value()))
    return out


def enc_plain(pl):
    return " ".join("%d:%s" % (c, leanio.enc_str(v)) for c, v in pl)


def lines_of(pl, kind):
    """token list -> list of line strings (split at carriage returns)"""
    out = [[]]
    for c, v in pl:
        if kind.get(c) == "cr":
            out.append([])
        else:
            out[-1].append(v)
    return ["".join(l) for l in out]


def crash_frame(e):
    """innermost frame of the traceback that lies in /repo: `rules/token_indent.py:indent_exists_but_is_incorrect`"""
    site = "?"
    for fr in traceback.extract_tb(e.__traceback__):
        fn = fr.filename
        if os.sep + "vsg" + os.sep in fn:
            site = fn.split(os.sep + "vsg" + os.sep, 1)[1] + ":" + fr.name
    return site


# synthetic indent levels (wp2b stage 0): the levels `set_token_indent` produces never exercise the `None` guards,
# negative levels or odd sizes of `_analyze`; overwrite the attribute of line-leading tokens and compare again
SYNTH_LEVELS = [None, None, 0, 0, -1, -3, 1, 2, 3, 7, 40]
SYNTH_CFGS = [(st, sz) for st in ("spaces", "smart_tabs") for sz in (0, 1, 2, 3, 4)]


def line_leading(lObjects):
    from vsg import parser as vparser

    out = []
    for i, t in enumerate(lObjects):
        if isinstance(t, (vparser.whitespace, vparser.carriage_return, vparser.blank_line)):
            continue
        if i == 0 or isinstance(lObjects[i - 1], vparser.carriage_return) or (i >= 2 and isinstance(lObjects[i - 1], vparser.whitespace) and isinstance(lObjects[i - 2], vparser.carriage_return)):
            out.append(t)
    return out


def real_indent_rule(o, r, style, size, snap, ci, ncls, kind):
    """the real rule on the shared file object; the object is restored afterwards"""
    rec = {"tois": None, "viols": None, "fixed": None, "exc": None, "second": None, "c07": None, "frame": None}
    r.indent_style = style
    r.indent_size = size
    r.violations = []
    try:
        lToi = r._get_tokens_of_interest(o)
        rec["tois"] = [(t.iStartIndex, t.iLine, len(t.lTokens)) for t in lToi]
        r._analyze(lToi)
    except Exception as e:  # noqa: BLE001
        rec["exc"] = type(e).__name__
        rec["frame"] = crash_frame(e)
        r.violations = []
        return rec
    acts = {"remove_whitespace": 0, "adjust_whitespace": 1, "add_whitespace": 2}
    rec["viols"] = [(v.get_line_number(), v.oTokens.iStartIndex, acts.get(v.get_action(), -1), v.get_solution()) for v in r.violations]
    nviol = len(r.violations)
    r.violations = []
    if nviol:
        before = plain(o.lAllObjects, ci, ncls)
        reported = sorted({v[0] for v in rec["viols"]})
        try:
            r.fix(o, None)
            after = plain(o.lAllObjects, ci, ncls)
            rec["fixed"] = after
            r.violations = []
            r.analyze(o)
            rec["second"] = [(v.get_line_number(), v.get_solution()) for v in r.violations]
            la, lb = lines_of(before, kind), lines_of(after, kind)
            if len(la) != len(lb):
                rec["c07"] = "line count %d -> %d" % (len(la), len(lb))
            else:
                changed = [i + 1 for i, (x, y) in enumerate(zip(la, lb)) if x != y]
                if changed != reported:
                    rec["c07"] = "changed lines %r, reported lines %r" % (changed[:8], reported[:8])
        except Exception as e:  # noqa: BLE001
            rec["exc"] = "fix:" + type(e).__name__
            rec["frame"] = crash_frame(e)
        finally:
            r.violations = []
            r.had_violations = False
            snap.restore(o)
    return rec


def parse_indent_reply(rep):
    """`ok tois|viols|fixed` -> dict"""
    if rep.startswith("raise "):
        return {"exc": rep[6:]}
    if not rep.startswith("ok "):
        return {"bad": rep[:200]}
    body = rep[3:]
    parts = body.split("|")
    if len(parts) != 3:
        return {"bad": rep[:200]}
    tois = [tuple(int(x) for x in t.split(",")) for t in parts[0].split(";")] if parts[0] else []
    viols = []
    if parts[1]:
        for v in parts[1].split(";"):
            a = v.split(",")
            viols.append((int(a[0]), int(a[1]), int(a[2]), int(a[3]), leanio.dec_str(a[4])))
    if parts[2] == "=":
        fixed = None
    else:
        fixed = []
        if parts[2]:
            for p in parts[2].split(" "):
                c, _, v = p.partition(":")
                fixed.append((int(c), leanio.dec_str(v)))
    return {"tois": tois, "viols": viols, "fixed": fixed}


def run_job(job):
    """one (file, variant): every rule of every family, real vs Lean.  Returns stats + mismatches"""
    import vsgrun

    path, variant, idx = job
    out = {"job": [path, variant], "pairs": 0, "nontrivial": 0, "fixes": 0, "mismatch": [], "skipped": None, "tois": 0, "viols": 0, "findings": [], "fam": {}}
    try:
        text = gen_inputs.read_text(path)
        if variant != "orig":
            text = gen_inputs.variant(text, common.rng("bfull2/%s/%s" % (common.rel(path), variant)), variant)
        lines = vsgrun.text_to_lines(text)
        try:
            o = vsgrun.parse(lines, _W["cla"], _W["config"], path)
        except BaseException as e:  # noqa: BLE001 - unparsable fixture / variant
            out["skipped"] = type(e).__name__
            return out
        if getattr(o, "lAllObjects", None) is None or len(o.lAllObjects) > 60000:
            out["skipped"] = "size"
            return out
        for t in o.lAllObjects:
            t.code_tags = []
        o.set_token_indent()
        rl = vsgrun.new_rule_list(o, _W["config"])
        rules = {r.unique_id: r for r in rl.rules}
        ci, ncls, kind = _W["ci"], _W["ncls"], _W["kind"]
        snap = Snap(o)
        pl = plain(o.lAllObjects, ci, ncls)
        req = ["TOKS\t" + " ".join("%d:%s:%s" % (c, leanio.enc_str(v), "N" if getattr(t, "indent", None) is None else str(int(t.indent))) for (c, v), t in zip(pl, o.lAllObjects))]
        recs = []
        # ---------------- family 1: indent
        cfgs = list(INDENT_CFGS_ALL)
        if idx % 5 == 0:
            cfgs += [INDENT_CFGS_EXTRA[(idx // 5) % len(INDENT_CFGS_EXTRA)]]
        for rid in _W["indent_ids"]:
            r = rules.get(rid)
            if r is None:
                continue
            for style, size in cfgs:
                real = real_indent_rule(o, r, style, size, snap, ci, ncls, kind)
                req.append("IND\t%s\t%s\t%d" % (rid, leanio.enc_str(style), size))
                recs.append(("indent", rid, (style, size), real))
        # ---------------- family 2: vertical spacing
        try:
            import bfull2_vspace

            bfull2_vspace.requests(o, rules, snap, _W, req, recs, idx)
        except ImportError:
            pass
        # ---------------- family 3 (wp2b): token_prefix / token_suffix
        try:
            import bfull2_affix

            bfull2_affix.requests(o, rules, snap, _W, req, recs, idx)
        except ImportError:
            pass
        # ---------------- family 1 again with SYNTHETIC indent levels (None / 0 / negative / large) and sizes 0..4
        if idx % 3 == 1:
            rs = common.rng("bfull2-synth/%s/%s" % (common.rel(path), variant))
            lead = line_leading(o.lAllObjects)
            saved = [(t, getattr(t, "indent", None)) for t in lead]
            for t in lead:
                if rs.random() < 0.6:
                    t.indent = rs.choice(SYNTH_LEVELS)
            req.append("TOKS\t" + " ".join("%d:%s:%s" % (c, leanio.enc_str(v), "N" if getattr(t, "indent", None) is None else str(int(t.indent))) for (c, v), t in zip(pl, o.lAllObjects)))
            scfgs = [SYNTH_CFGS[rs.randrange(len(SYNTH_CFGS))], SYNTH_CFGS[rs.randrange(len(SYNTH_CFGS))]]
            for rid in _W["indent_ids"]:
                r = rules.get(rid)
                if r is None:
                    continue
                for style, size in scfgs:
                    real = real_indent_rule(o, r, style, size, snap, ci, ncls, kind)
                    req.append("IND\t%s\t%s\t%d" % (rid, leanio.enc_str(style), size))
                    recs.append(("indent_synth", rid, (style, size), real))
            for t, v in saved:
                t.indent = v
        # ---------------- Lean
        p = subprocess.run([leanio.DRIVER, "bfull2"], input="".join(l + "\n" for l in req), stdout=subprocess.PIPE, text=True, encoding="utf-8")
        reps = p.stdout.split("\n")
        if len(reps) < len(recs):
            out["mismatch"].append({"what": "driver died", "n": len(reps), "want": len(recs)})
            return out
        for (fam, rid, cfg, real), rep in zip(recs, reps):
            out["pairs"] += 1
            out["fam"][fam] = out["fam"].get(fam, 0) + 1
            if fam in ("indent", "indent_synth"):
                compare_indent(out, path, variant, rid, cfg, real, parse_indent_reply(rep), fam)
            elif fam == "affix":
                import bfull2_affix

                bfull2_affix.compare(out, path, variant, rid, cfg, real, rep)
            else:
                import bfull2_vspace

                bfull2_vspace.compare(out, path, variant, rid, cfg, real, rep)
    except BaseException as e:  # noqa: BLE001
        out["mismatch"].append({"what": "harness", "exc": traceback.format_exc()[-1500:]})
    for d in out["mismatch"] + out["findings"]:
        d["idx"] = idx  # the job index selects the option values / synthetic levels: needed to replay
    return out


def compare_indent(out, path, variant, rid, cfg, real, lean, fam="indent"):
    def mm(what, a, b):
        out["mismatch"].append({"family": fam, "rule": rid, "path": path, "variant": variant, "cfg": list(cfg), "what": what, "real": repr(a)[:600], "lean": repr(b)[:600]})

    if "bad" in lean:
        mm("bad reply", None, lean["bad"])
        return
    if real["exc"] is not None or "exc" in lean:
        if real["exc"] != lean.get("exc"):
            mm("exception", real["exc"], lean.get("exc"))
            if real["exc"] is not None and "exc" not in lean:
                # the real rule crashes on token state the engine can produce (stale / missing indent levels) where the
                # model reports or repairs normally: also a C19 failure candidate at the crash frame
                out["findings"].append({"prop": "C19", "site": real.get("frame") or "token_indent", "kind": real["exc"].replace("fix:", ""), "rule": rid, "path": path, "variant": variant, "cfg": list(cfg), "detail": "real %s raises %s (levels: %s); the whole-rule model does not" % (rid, real["exc"], "synthetic" if fam == "indent_synth" else "set_token_indent")})
        else:
            out["nontrivial"] += 1
        return
    out["tois"] += len(real["tois"])
    out["viols"] += len(real["viols"])
    if real["tois"] != lean["tois"]:
        mm("tois", real["tois"], lean["tois"])
        return
    lv = [(v[0], v[1], v[2], v[4]) for v in lean["viols"]]
    if real["viols"] != lv:
        mm("violations", real["viols"], lv)
        return
    if real["viols"]:
        out["nontrivial"] += 1
        out["fixes"] += 1
        if real["fixed"] != lean["fixed"]:
            a, b = real["fixed"], lean["fixed"] or []
            k = next((i for i, (x, y) in enumerate(zip(a, b)) if x != y), min(len(a), len(b)))
            mm("fixed tokens (first difference at %d)" % k, a[max(0, k - 3) : k + 4], b[max(0, k - 3) : k + 4])
            return
        guard_ok = cfg[0] in ("spaces", "smart_tabs")
        if real["second"]:
            # a second analysis that still reports: allowed only outside the theorem's guard (adjust under an unknown style)
            if guard_ok:
                out["findings"].append({"prop": "C10", "site": "token_indent", "kind": "secondAnalysisNonEmpty", "rule": rid, "path": path, "variant": variant, "cfg": list(cfg), "detail": repr(real["second"][:4])})
                out["findings"].append({"prop": "C09", "site": "token_indent", "kind": "secondAnalysisNonEmpty", "rule": rid, "path": path, "variant": variant, "cfg": list(cfg), "detail": repr(real["second"][:4])})  # wp2c: the same observation refutes one-step convergence
        if real["c07"] is not None and guard_ok and cfg[1] >= 1 and fam == "indent":
            # (synthetic negative levels: empty indent inserted as well — only real levels are held to the C07 clause)
            # (size <= 0: `add_whitespace` inserts an EMPTY whitespace token — reported line, unchanged text; outside the guard of the C07 theorem)
            out["findings"].append({"prop": "C07", "site": "token_indent", "kind": "unreportedLineChanged", "rule": rid, "path": path, "variant": variant, "cfg": list(cfg), "detail": real["c07"]})


# ------------------------------------------------------------------ job lists

VARIANTS_Q = ["ws", "tabs", "messy", "lines", "flush", "comments", "glue", "splitall"]


def make_jobs(tier, limit=None):
    files = gen_inputs.corpus_files()
    jobs = [(p, "orig") for p in files]
    rng = common.rng("bfull2-jobs")
    nvar = 480 if tier == "quick" else 4000
    small = [p for p in files if os.path.getsize(p) < 20000]
    for i in range(nvar):
        jobs.append((small[rng.randrange(len(small))], VARIANTS_Q[i % len(VARIANTS_Q)]))
    if limit:
        step = max(1, len(jobs) // limit)
        jobs = jobs[::step][:limit]
    return [(p, v, i) for i, (p, v) in enumerate(jobs)]


def sweep(tier, limit=None):
    jobs = make_jobs(tier, limit)
    t0 = time.time()
    agg = {"jobs": 0, "pairs": 0, "nontrivial": 0, "fixes": 0, "tois": 0, "viols": 0, "mismatch": [], "skipped": {}, "findings": [], "fam": {}, "variants": {}}
    with multiprocessing.Pool(PROCS, initializer=_winit) as pool:
        for r in pool.imap_unordered(run_job, jobs, chunksize=4):
            agg["jobs"] += 1
            agg["variants"][r["job"][1]] = agg["variants"].get(r["job"][1], 0) + 1
            if r["skipped"]:
                agg["skipped"][r["skipped"]] = agg["skipped"].get(r["skipped"], 0) + 1
            for k in ("pairs", "nontrivial", "fixes", "tois", "viols"):
                agg[k] += r[k]
            for k, v in r["fam"].items():
                agg["fam"][k] = agg["fam"].get(k, 0) + v
            agg["mismatch"] += r["mismatch"][:3]
            agg["findings"] += r["findings"][:3]
    agg["wall"] = round(time.time() - t0, 1)
    return agg


def cached_sweep(tier, limit=None):
    key = "bfull2-%s-%s-%d-%s.json" % (common.tree_hash(), tier, common.seed(), limit)
    p = os.path.join(common.CACHE, key)
    if os.path.exists(p) and not os.environ.get("BFULL2_NOCACHE"):
        agg = json.load(open(p))
        agg["from_cache"] = True
        return agg
    agg = sweep(tier, limit)
    agg["from_cache"] = False
    os.makedirs(common.CACHE, exist_ok=True)
    json.dump(agg, open(p, "w"))
    return agg


# ------------------------------------------------------------------ entry points


def apply(res, agg, prop=None):
    """mismatches are correspondence breaks of every property resting on the whole-rule model; findings are
    failures of the named property on the real code"""
    for m in agg["mismatch"][:10]:
        res.proof_break("correspondence whole-rule model vs real rule (%s %s: %s)" % (m.get("family"), m.get("rule"), m.get("what")), m)
    for f in agg["findings"]:
        if prop is None or f["prop"] == prop:
            if prop is None:
                # BFULL2 itself: reported under the property the finding belongs to, matched against its known findings
                k = common.match_known(f["prop"], f["site"], f["kind"])
                if k is not None:
                    print("KNOWN-FINDING: property=%s site=%s kind=%s %s" % (f["prop"], f["site"], f["kind"], k.get("detail", "")))
                    continue
            res.fail(f["site"], f["kind"], json.dumps(f)[:1500], {"path": f["path"], "variant": f["variant"], "rule": f["rule"], "cfg": f["cfg"], "idx": f.get("idx", 0)})
    return {k: agg[k] for k in ("jobs", "pairs", "nontrivial", "fixes", "tois", "viols", "skipped", "fam", "variants", "wall", "from_cache")} | {"mismatches": len(agg["mismatch"]), "findings": len(agg["findings"])}


def extra(res, tier, prop):
    """hook for C03 / C07 / C10 / C18: the (cached) whole-rule correspondence; a break is a proof break there"""
    agg = cached_sweep(tier)
    res.coverage["layer_b_full2"] = apply(res, agg, prop)
    return agg


def run(prop, tier):
    res = common.Result(prop, tier)
    import gen_tables

    gen_tables.generate()
    ok_model, out_model, _ = common.lake_build(["VsgModel", "driver"])
    if not ok_model:
        for d in common.failed_decls(out_model):
            res.proof_break("model build: %s:%s %s" % (d["file"], d["line"], d["decl"]), d["message"])
        if not common.failed_decls(out_model):
            res.proof_break("model build", out_model[-600:])
        return res.finish(1, 0, "lake build VsgModel driver", [])
    thms = my_theorems()
    built = True
    for pf in PROP_FILES:
        okp, outp, _ = common.lake_build(["VsgProofs.Properties." + pf])
        if not okp:
            built = False
            fd = common.failed_decls(outp)
            for d in fd:
                res.proof_break("theorem %s (%s:%s)" % (d["decl"], d["file"], d["line"]), d["message"])
            if not fd:
                res.proof_break("proof build " + pf, outp[-600:])
    axioms = {}
    if built:
        axioms, problems = audit(thms)
        for pr in problems:
            res.proof_break("axiom audit", pr)
    for h in common.forbidden_tokens():
        res.proof_break("forbidden token", h)
    names = [t for ts in thms.values() for t in ts]
    limit = int(os.environ["BFULL2_LIMIT"]) if os.environ.get("BFULL2_LIMIT") else None
    agg = cached_sweep(tier, limit)
    cov = apply(res, agg, None)
    res.coverage.update(
        {
            "evaluations": agg["pairs"],
            "distinct_nontrivial": agg["nontrivial"],
            "rule": "an evaluation = one (rule, parsed file or re-layout variant, option values): the real rule's regions of interest, violations and the token list after its real `fix` compared with the Lean whole-rule function on the same tokens and indent levels; non-trivial = the rule reported at least one violation (or both sides raised the same exception)",
            "samples": agg["mismatch"][:5] or [{"note": "no mismatch", "regions": agg["tois"], "violations": agg["viols"], "fixes compared": agg["fixes"]}],
        }
    )
    res.coverage.update(cov)
    res.assumptions = [
        "code tags are cleared on the real side (add_violation's tag filter is outside the whole-rule model)",
        "the indent level of a token is an oracle keyed by the token's ordinal among the non-whitespace tokens; the real levels (set_token_indent) are sent with the token list",
    ]
    return res.finish(max(len(names), 1), sum(1 for t in names if t in axioms and all(a in common.ALLOWED_AXIOMS for a in axioms[t])), "cd lean && lake build " + " ".join("VsgProofs.Properties." + p for p in PROP_FILES), [{"name": t, "axioms": axioms.get(t)} for t in names])


def replay(prop, path):
    import gen_tables

    gen_tables.generate()
    d = json.load(open(path))
    if d.get("kind") == "no-failing-input-found":
        print(json.dumps(d, indent=1)[:4000])
        return 0
    inp = d["input"]
    _winit()
    r = run_job((inp["path"], inp["variant"], inp.get("idx", 0)))
    bad = [f for f in r["findings"] if f["rule"] == inp.get("rule")] or r["findings"]
    for f in bad:
        print("REPRODUCED property=%s site=%s kind=%s %s" % (f["prop"], f["site"], f["kind"], json.dumps(f)[:400]))
    return 1 if bad else 0


if __name__ == "__main__":
    sys.exit(run("BFULL2", sys.argv[1] if len(sys.argv) > 1 else "quick"))
