"""
Correspondence of the Lean line-layer model (lean/VsgModel/Lex/Lines.lean, driver mode `lines`)
with the real code: `vhdlFile._processFile` up to (not including) `design_file.tokenize`,
`vhdlFile.get_lines`, `vhdlFile.utils.read_vhdlfile`.

The pre-classification layer of the REAL run is observed by wrapping `design_file.tokenize`
as seen from vsg.vhdlFile.vhdlFile (snapshot of lAllObjects, then the real function): nothing of
`_processFile` is re-implemented here.
"""
import os
import sys

sys.path.insert(0, os.path.dirname(os.path.abspath(__file__)))
from leanio import Driver, dec_str, enc_str  # noqa: E402

from vsg import parser  # noqa: E402
from vsg.token import delimited_comment, pragma  # noqa: E402

VF = sys.modules.get("vsg.vhdlFile.vhdlFile")
if VF is None:
    import vsg.vhdlFile.vhdlFile  # noqa: F401

    VF = sys.modules["vsg.vhdlFile.vhdlFile"]

KIND = {
    parser.item: 0,
    parser.whitespace: 1,
    parser.carriage_return: 2,
    parser.blank_line: 3,
    parser.comment: 4,
    delimited_comment.beginning: 5,
    delimited_comment.text: 6,
    delimited_comment.ending: 7,
    parser.preprocessor: 9,
    pragma.open: 12,
    pragma.close: 13,
    pragma.single: 14,
    pragma.ignore: 15,
}
KIND_NAME = {0: "item", 1: "whitespace", 2: "carriage_return", 3: "blank_line", 4: "comment", 5: "dc.beginning", 6: "dc.text", 7: "dc.ending", 9: "preprocessor", 12: "pragma.open", 13: "pragma.close", 14: "pragma.single", 15: "pragma.ignore"}


def kind_of(o):
    return KIND.get(type(o), -1)


class Observed:
    """result of one real construction of vhdlFile"""

    __slots__ = ("pre", "post", "obj", "exc", "pre_objs")


def observe(lines, cla=None, oConfig=None, filename="t.vhd"):
    """runs the real vhdlFile constructor; returns the token list as it was handed to
    design_file.tokenize [(kind, value)], the final list [(type, value)], the object / exception"""
    ob = Observed()
    ob.pre = None
    ob.pre_objs = None
    real = VF.design_file.tokenize

    def spy(lObjects):
        ob.pre = [(kind_of(o), o.value) for o in lObjects]
        ob.pre_objs = list(lObjects)
        return real(lObjects)

    VF.design_file.tokenize = spy
    try:
        try:
            if cla is None:
                ob.obj = VF.vhdlFile(list(lines))
            else:
                ob.obj = VF.vhdlFile(list(lines), cla, filename, None, oConfig)
            ob.exc = None
        except Exception as e:  # noqa: BLE001
            ob.obj = None
            ob.exc = e
    finally:
        VF.design_file.tokenize = real
    ob.post = None if ob.obj is None else [(type(o), o.value) for o in ob.obj.lAllObjects]
    return ob


def regex_flags(lines, oConfig=None):
    conf = oConfig if oConfig is not None else VF.default_conf
    rx = conf.dConfig["pragma"]["regexp"]
    out = []
    for l in lines:
        out.append("".join("1" if any(r.match(l) for r in rx[k]) else "0" for k in ("open", "close", "single")))
    return out


def split_lines(pre):
    """[(kind, value)] -> list of lines (split at carriage returns, which are dropped)"""
    out = []
    cur = []
    for k, v in pre:
        if k == 2:
            out.append(cur)
            cur = []
        else:
            cur.append((k, v))
    if cur:
        out.append(cur)
    return out


class LeanLines:
    def __init__(self):
        self.d = Driver("lines")

    def file(self, lines, flags):
        """returns (per line: list of (kind, value) or None for ERR, get_lines list or None)"""
        self.d.send("F %d" % len(lines))
        for l, f in zip(lines, flags):
            self.d.send("%s\t%s" % (f, enc_str(l)))
        self.d.flush()
        per = []
        for _ in lines:
            r = self.d.read()
            if r == "ERR":
                per.append(None)
                continue
            toks, _, st = r.partition("\t")
            row = []
            if toks:
                for t in toks.split(" "):
                    k, _, v = t.partition(":")
                    row.append((int(k), dec_str(v)))
            per.append((row, st))
        g = self.d.read()
        if g == "G ERR":
            gl = None
        else:
            body = g[2:]
            gl = [("" if x == "e" else dec_str(x)) for x in body.split(" ")] if body else []
        return per, gl

    def read(self, text):
        r = self.d.ask("R " + enc_str(text) if text else "R")
        return [("" if x == "e" else dec_str(x)) for x in r.split(" ")] if r else []

    def close(self):
        self.d.close()


def compare_file(ll, lines, cla=None, oConfig=None, ob=None):
    """returns (observed, list of disagreement dicts)"""
    if ob is None:
        ob = observe(lines, cla, oConfig)
    dis = []
    if ob.pre is None:
        # the constructor raised before design_file.tokenize: nothing to compare against
        return ob, [{"what": "real code raised before classification", "exc": repr(ob.exc)}] if ob.exc is not None else []
    per, gl = ll.file(lines, regex_flags(lines, oConfig))
    real_lines = split_lines(ob.pre)
    if len(real_lines) != len(lines):
        dis.append({"what": "line count", "python": len(real_lines), "input": len(lines)})
    for i, (rl, ml) in enumerate(zip(real_lines, per)):
        if ml is None:
            dis.append({"what": "lean ERR", "line": i + 1, "text": lines[i]})
            break
        if rl != ml[0]:
            dis.append({"what": "tokens", "line": i + 1, "text": lines[i], "python": rl, "lean": ml[0]})
            if len(dis) > 3:
                break
    real_gl = [""] + ["".join(v for _, v in l) for l in real_lines]
    if gl is not None and gl != real_gl:
        dis.append({"what": "get_lines of the pre layer", "python": real_gl[:6], "lean": gl[:6]})
    return ob, dis


if __name__ == "__main__":
    ll = LeanLines()
    tests = [
        ["/*", "/ foo *", "*/"],
        ["a <= b; -- c  ", "", "  ", "\t", "x := \"a -- b\"; --  d\t", "/* a", "", "-- in", "b */ c /* d */ e", "*/", "#ifdef X /*", "after", "*/ end"],
        ["-- vhdl_comp_off", "--vhdl_comp_off", "a b", "--vhdl_comp_on", "c"],
        ["a \"\t\" b", "c\x0cd \x0b e\x85f g", " # x", "\t# x", "/*/ x", "/**/", "/***/", "/* **/ x"],
    ]
    for t in tests:
        ob, dis = compare_file(ll, t)
        print(len(dis), dis[:2], repr(ob.exc)[:80])
    ll.close()
