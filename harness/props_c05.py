"""
C05 — token classification does not depend on layout, comments or letter case.

What is PROVED (lean/VsgProofs/Properties/C05.lean): the navigation primitives of
vsg/vhdlFile/utils.py factor through the view they skip to, the post passes of vhdlFile.py commute
with re-layout (exact `_partial` versions where they do not), the tokenizer keeps its other tokens
when one of its white space tokens is resized (guarded).
What is NOT modelled: the ~8 300 lines of productions under vsg/vhdlFile/classify (layer U).  The
end-to-end statement is therefore DECIDED PER EXPLORED INPUT: corpus file x re-layout variant, both
parsed by the REAL parser, roles compared by the Lean driver (`driver c05`, CMP).

Correspondence: every modelled primitive and every post pass is run on real token lists (raw,
before and after the post passes) at sampled positions through the real function and through the
Lean model; a disagreement is a proof break.
"""
import ast
import collections
import glob
import json
import multiprocessing
import os
import random
import re
import sys
import time
import traceback

sys.path.insert(0, os.path.dirname(os.path.abspath(__file__)))

import common  # noqa: E402
import gen_inputs  # noqa: E402
import relayout_c05 as R  # noqa: E402

PLAIN = ["ws", "case", "comments", "lines", "messy", "tabs", "splitall", "nlall", "nlblank", "nlcmt", "cmtall", "upper", "lower", "wide", "tabsall", "chaos"]
DCOMMENT = ["dcmtplain", "dcmt", "dcmtown", "dcmtsplit", "dcsemi", "dcparen"]
EXOTIC = ["exotic"]
FAMILY = {k: "plain" for k in PLAIN}
FAMILY.update({k: "dcomment" for k in DCOMMENT})
FAMILY.update({k: "exotic" for k in EXOTIC})

# small texts that exercise the constructs read through direct subscripts (see the AST scan):
# exponents, identifiers called `e`, attribute ticks, selected names, extended identifiers
EXTRA_TEXTS = {
    "extra/exponent.vhd": """architecture rtl of ent is
  constant c1 : real := 1.0e-3;
  constant c2 : real := 2.5E+6;
  constant c3 : integer := 1e3;
  signal e : integer;
  signal f : integer;
begin
  f <= e + 1;
  f <= e - 1 when e > 2 else
       - e;
  f <= 2 ** e;
  p1 : process (clk) is
  begin
    if clk'event and clk = '1' then
      f <= e
           + 3;
    end if;
  end process p1;
end architecture rtl;
""",
    "extra/attributes.vhd": """library ieee;
use ieee.std_logic_1164.all;
use ieee.numeric_std."+";
entity ent is
  port (
    a : in std_logic_vector(7 downto 0);
    b : out std_logic
  );
end entity ent;
architecture rtl of ent is
  signal s : std_logic_vector(a'range);
  constant w : natural := a'length;
  type t is (x, y);
  signal q : t := t'('x');
begin
  b <= a(a'high) and not a(a'low) when s'event else
       '0';
  s <= (others => '0'), (0 => '1', others => '0') after 1 ns;
  g1 : for i in a'reverse_range generate
    s(i) <= a(i) xor
            a(0);
  end generate g1;
end architecture rtl;
""",
    "extra/extended_identifier.vhd": """architecture rtl of ent is
  signal \\sig\\ : bit;
  signal c : bit;
begin
  \\sig\\ <= '1';
  c <= \\sig\\ and c;
  c <= \\sig\\
       or c;
end architecture rtl;
""",
    "extra/physical_type.vhd": """architecture a of e is
  type t is range 0 to 20 units
    u1;
    u2 = 10 u1;
  end units t;
  type r is record
    f : t;
  end record r;
begin
end architecture a;
""",
    "extra/subprograms.vhd": """package body pkg is
  function "+" (l : t; r : t) return t is
    variable v : t;
  begin
    v := (l and r) or (not l);
    return - v + (+ l);
  end function "+";
  procedure p (signal s : out bit; constant n : in natural := 2#1010#e2) is
  begin
    s <= '1' after 1.5 ns,
         '0' after 16#F.F#E+1 ns;
    proc_call(a, b,
              c);
    assert n > 0
      report "n is " & integer'image(n)
      severity note;
  end procedure p;
end package body pkg;
""",
}


# ------------------------------------------------------------------ worker state

_W = {}


def _init():
    import vsgrun

    tables = json.load(open(os.path.join(common.CACHE, "tables.json")))
    _W["tables"] = tables
    _W["ci"] = vsgrun.ClassIndex(tables)
    _W["names"] = {r["idx"]: r["name"] for r in tables["classes"]}
    _W["kinds"] = {r["idx"]: r["kind"] for r in tables["classes"]}
    _W["cla"], _W["conf"] = vsgrun.make_config(style=None)
    _W["drv"] = None
    _W["seen"] = set()
    _W["store"] = None
    install_hooks()


def driver():
    import leanio

    if _W.get("drv") is None:
        _W["drv"] = leanio.Driver("c05")
    return _W["drv"]


# ------------------------------------------------------------------ real parser access

PASSES = ("post_token_assignments", "set_token_hierarchy_value", "set_todo_tokens", "set_aggregate_tokens")
PASS_CODE = {"post_token_assignments": "pta", "set_token_hierarchy_value": "hier", "set_todo_tokens": "todo", "set_aggregate_tokens": "agg"}


def snap(lTokens):
    ci = _W["ci"]
    return [(ci.of(o), o.value, o.lower_value, o.iId, o.hierarchy) for o in lTokens]


def install_hooks():
    """wrap (from outside) design_file.tokenize and the four post passes so that a parse can record
    the raw list and the list before / after each pass; recording is off unless _W['store'] is set"""
    import vsgrun

    VF = vsgrun.VF
    real_tok = VF.design_file.tokenize

    def tokenize(lObjects):
        st = _W.get("store")
        if st is not None:
            st["raw"] = list(lObjects)
        return real_tok(lObjects)

    VF.design_file.tokenize = tokenize

    def mk(name):
        real = getattr(VF, name)

        def w(lTokens):
            st = _W.get("store")
            if st is None:
                return real(lTokens)
            before = snap(lTokens)
            objs = list(lTokens)
            try:
                real(lTokens)
            except Exception as e:  # noqa: BLE001
                st["passes"].append((name, before, None, type(e).__name__, objs))
                raise
            st["passes"].append((name, before, snap(lTokens), None, objs))

        return w

    for n in PASSES:
        setattr(VF, n, mk(n))


class ParseTimeout(Exception):
    pass


def _on_alarm(signum, frame):
    raise ParseTimeout("parser still running after %d s" % PARSE_SECONDS)


PARSE_SECONDS = 10


def parse(text, name, record=False):
    """the real parser, under a watchdog: a parse that does not end is reported like a crash (the
    innermost /repo frame of the interrupted stack is the loop that does not terminate)"""
    import signal

    import vsgrun

    _W["store"] = {"raw": None, "passes": []} if record else None
    signal.signal(signal.SIGALRM, _on_alarm)
    signal.alarm(PARSE_SECONDS)
    try:
        o = vsgrun.VF.vhdlFile(vsgrun.text_to_lines(text), _W["cla"], name, None, _W["conf"])
    finally:
        signal.alarm(0)
        st = _W["store"]
        _W["store"] = None
    return o.lAllObjects, st


def enc_cp(s):
    return ".".join(str(ord(c)) for c in s)


def enc_tok(t):
    cls, val, low, iid, hier = t
    if cls < 0:
        cls = len(_W["names"])
    return "%d:%s:%s:%s:%s" % (cls, enc_cp(val), "=" if low == val else enc_cp(low), "-" if iid is None else iid, "-" if hier is None else (("m%d" % -hier) if hier < 0 else hier))


def enc_toks(ts):
    return " ".join(enc_tok(t) for t in ts)


def dec_toks(s):
    out = []
    if not s:
        return out
    for w in s.split(" "):
        c, v, lo, iid, h = w.split(":")
        val = "".join(chr(int(p)) for p in v.split(".")) if v else ""
        low = val if lo == "=" else ("".join(chr(int(p)) for p in lo.split(".")) if lo else "")
        out.append((int(c), val, low, None if iid == "-" else int(iid), None if h == "-" else (-int(h[1:]) if h.startswith("m") else int(h))))
    return out


def classify_site(exc):
    """innermost frame under vsg/vhdlFile/classify of a traceback (the production that gave up);
    falls back to the innermost /repo frame"""
    tb = exc.__traceback__
    site = None
    last = None
    while tb is not None:
        fn = tb.tb_frame.f_code.co_filename
        if "/vsg/" in fn and "/verif/" not in fn:
            last = "%s:%s" % (fn.split("/vsg/", 1)[1], tb.tb_frame.f_code.co_name)
            if "/vhdlFile/classify/" in fn:
                site = "classify/%s:%s" % (os.path.basename(fn)[:-3], tb.tb_frame.f_code.co_name)
        tb = tb.tb_next
    return site or last or "?"


def stack_of(exc):
    out = []
    tb = exc.__traceback__
    while tb is not None:
        fn = tb.tb_frame.f_code.co_filename
        if "/vsg/" in fn and "/verif/" not in fn:
            out.append("%s:%s:%d" % (fn.split("/vsg/", 1)[1], tb.tb_frame.f_code.co_name, tb.tb_lineno))
        tb = tb.tb_next
    return out[-12:]


def role_site(cls_name):
    """best guess of the production responsible for a role: vsg.token.<module>.<class> -> classify/<module>"""
    parts = cls_name.split(".")
    if parts[:2] == ["vsg", "token"] and len(parts) >= 4:
        mod = parts[2]
        if os.path.exists(os.path.join(common.REPO, "vsg", "vhdlFile", "classify", mod + ".py")):
            return "classify/" + mod
        return "token/" + mod
    if parts[:2] == ["vsg", "parser"]:
        return "vhdlFile.post_passes/parser." + parts[-1]
    return cls_name


# ------------------------------------------------------------------ the per-pair judgement


def judge(orig_text, var_text, name, orig_parse=None):
    """-> dict(verdict=…): 'origRejected' | 'same' | 'rejected' | 'role' | 'count' | 'value'"""
    if orig_parse is None:
        try:
            a, _ = parse(orig_text, name)
            orig_parse = snap(a)
        except Exception as e:  # noqa: BLE001
            return {"verdict": "origRejected", "exc": type(e).__name__}
    try:
        b, _ = parse(var_text, name)
    except Exception as e:  # noqa: BLE001
        ts = tokens_site(orig_text, var_text)
        if ts == "tokens.py:create":
            # the tokenizer already produced other code tokens: that is the root cause, not the production that gave up
            return {"verdict": "value", "k": -1, "site": ts, "then": "%s at %s: %s" % (type(e).__name__, classify_site(e), str(e).strip()[:300])}
        if isinstance(e, ParseTimeout):
            # the interrupted stack differs from run to run: the site is the parse as a whole, the sampled stack is detail
            return {"verdict": "rejected", "exc": "ParseTimeout", "site": "design_file.tokenize", "msg": str(e), "sampled_stack": stack_of(e)}
        return {"verdict": "rejected", "exc": type(e).__name__, "site": classify_site(e), "msg": str(e).strip()[:400]}
    sb = snap(b)
    rep = driver().ask("CMP\t%s\t%s" % (enc_toks(orig_parse), enc_toks(sb)))
    w = rep.split(" ")
    if w[0] == "same":
        return {"verdict": "same", "n": int(w[1])}
    if w[0] == "count":
        return {"verdict": "count", "na": int(w[1]), "nb": int(w[2]), "site": tokens_site(orig_text, var_text)}
    if w[0] == "value":
        return {"verdict": "value", "k": int(w[1]), "site": tokens_site(orig_text, var_text)}
    if w[0] == "role":
        k, ca, cb = int(w[1]), int(w[2]), int(w[3])
        kinds = _W["kinds"]
        ca_list = [t for t in orig_parse if kinds.get(t[0], "code") in ("code", "codeCI")]
        cb_list = [t for t in sb if kinds.get(t[0], "code") in ("code", "codeCI")]
        diffs = []
        for d in rep.split(" ; ", 1)[1].split(" ") if " ; " in rep else []:
            i, x, y = (int(z) for z in d.split(":"))
            diffs.append({"k": i, "value": ca_list[i][1], "orig_role": _W["names"].get(x, "?"), "variant_role": _W["names"].get(y, "?")})
        line = 1 + sum(t[1].count("\n") for t in sb[: index_of_code(sb, k)])
        return {"verdict": "role", "k": k, "value": cb_list[k][1], "orig_role": _W["names"].get(ca, "?"), "variant_role": _W["names"].get(cb, "?"), "line": line, "diffs": diffs, "site": role_site(_W["names"].get(ca, "?"))}
    raise RuntimeError("driver said: " + rep[:200])


def index_of_code(sn, k):
    kinds = _W["kinds"]
    n = -1
    for i, t in enumerate(sn):
        if kinds.get(t[0], "code") in ("code", "codeCI"):
            n += 1
            if n == k:
                return i
    return len(sn)


def tokens_site(orig_text, var_text):
    """where a change of the code token SEQUENCE comes from: the tokenizer (the non-blank tokens of
    tokens.create differ, ignoring case) or the per-line classification of blanks / comments"""
    from vsg import tokens

    def seq(text):
        out = []
        in_dc = False
        for l in text.split("\n"):
            for t in tokens.create(l.rstrip("\r")):
                if in_dc:
                    in_dc = t != "*/"
                    continue
                if t == "/*":
                    in_dc = True
                    continue
                if t.startswith("--"):
                    break
                if t and not t.isspace():
                    out.append(t.lower())
        return out

    try:
        if seq(orig_text) != seq(var_text):
            return "tokens.py:create"
    except Exception:  # noqa: BLE001
        pass
    return "classify/whitespace+comment+blank:classify"


def signature(v, family):
    """failure identity (site, kind) of a verdict"""
    if v["verdict"] == "rejected":
        if v["exc"] == "ParseTimeout":
            return (v["site"], "relayoutHang")
        return (v["site"], "relayoutRejected" if v["exc"] == "ClassifyError" else "relayoutCrash:" + v["exc"])
    if v["verdict"] == "role":
        return (v["site"], "roleChanged")
    if v["verdict"] in ("count", "value"):
        return (v["site"], "codeTokensChanged")
    return None


# ------------------------------------------------------------------ minimisation


def ddmin(items, test, budget):
    """classic delta debugging: a 1-minimal sublist of `items` for which test() holds"""
    n = 2
    items = list(items)
    while len(items) >= 2 and budget[0] > 0:
        chunk = max(1, len(items) // n)
        subsets = [items[i : i + chunk] for i in range(0, len(items), chunk)]
        reduced = False
        for s in subsets:
            if budget[0] <= 0:
                break
            comp = [x for x in items if x not in s]
            budget[0] -= 1
            if comp and test(comp):
                items = comp
                n = max(n - 1, 2)
                reduced = True
                break
        if not reduced:
            if n >= len(items):
                break
            n = min(len(items), n * 2)
    return items


def minimise(orig, var, name, sig, family, budget_n=600, seconds=25.0):
    """(orig', var') with the same failure signature: first over the lines of the original (both
    texts are cut consistently through their aligned decomposition), then over the positions at
    which the two differ (gap i / spelling i taken from the original again)"""
    go, to = R.decompose(orig)
    gv, tv = R.decompose(var)
    if len(to) != len(tv):
        return orig, var
    budget = [budget_n]
    t_end = time.time() + seconds

    def fails(o, v):
        if time.time() > t_end:
            budget[0] = 0
            return False
        r = judge(o, v, name)
        return signature(r, family) == sig

    # stage 1: lines of the original = groups of token indices
    line_of = []
    ln = 0
    for i in range(len(to)):
        ln += go[i].count("\n")
        line_of.append(ln)
        ln += to[i].count("\n")
    groups = collections.OrderedDict()
    for i, l_ in enumerate(line_of):
        groups.setdefault(l_, []).append(i)
    units = list(groups.keys())

    def build(keep_lines):
        idx = [i for l_ in keep_lines for i in groups[l_]]
        o = "".join(go[i] + to[i] for i in idx) + "\n"
        v = "".join(gv[i] + tv[i] for i in idx) + "\n"
        return o.lstrip("\n"), v.lstrip("\n")

    def test_lines(keep_lines):
        o, v = build(keep_lines)
        return fails(o, v)

    if not test_lines(units):
        return orig, var
    units = ddmin(units, test_lines, budget)
    o1, v1 = build(units)
    # stage 2: re-layout choices
    diffs = R.differing_positions(o1, v1)
    if diffs:

        def test_diffs(keep):
            h = R.hybrid(o1, v1, set(keep))
            return h is not None and fails(o1, h)

        if test_diffs(diffs):
            keep = ddmin(diffs, test_diffs, budget)
            v1 = R.hybrid(o1, v1, set(keep))
    return o1, v1


# ------------------------------------------------------------------ variants of the families beyond `plain`


def make_variant(text, rng, kind):
    if kind == "exotic":
        # a white space token between two tokens of a line -> form feed / vertical tab / no-break space
        # (all are separators by the LRM and `str.isspace()`); only tokens.create's own blank tokens are touched
        out = []
        for line in text.split("\n"):
            toks, ci = gen_inputs.line_tokens(line.rstrip("\r")) if ("/*" not in line and "*/" not in line and not line.lstrip().startswith(("`", "#")) and not R.is_pragma_line(line)) else (None, None)
            if toks is None:
                out.append(line)
                continue
            code = toks if ci is None else toks[:ci]
            new = []
            for i, t in enumerate(code):
                if t.isspace() and 0 < i < len(code) - 1 and rng.random() < 0.25:
                    t = rng.choice(["\x0c", "\x0b", "\xa0", "\x0c\x0c"])
                new.append(t)
            out.append("".join(new) + ("" if ci is None else "".join(toks[ci:])))
        return "\n".join(out)
    if kind == "dcmtplain":
        return R.relayout(text, rng, dc_eol=0.5, dc_own=0.2, dc_texts=[" c ", " a note ", ""])
    if kind == "dcsemi":
        return R.relayout(text, rng, dc_eol=1.0, dc_texts=[";"])
    if kind == "dcparen":
        return R.relayout(text, rng, dc_eol=0.5, dc_texts=["(", ")"])
    return R.variant(text, rng, kind)


# ------------------------------------------------------------------ correspondence

TYPE_NAMES = None


def type_pool():
    """(name, class object, [class indices of subclasses]) for the isinstance arguments drawn in the
    correspondence; computed with issubclass at run time (not from the generated table)"""
    import gen_tables

    if _W.get("types") is None:
        classes = gen_tables.all_token_classes()
        ci = _W["ci"]
        pool = []
        for b in gen_tables.CLASSIFY_BASES + ["vsg.parser.item", "vsg.parser.character_literal"]:
            base = classes[b]
            pool.append((b, base, sorted(ci.by_name[n] for n, c in classes.items() if issubclass(c, base))))
        _W["types"] = pool
        _W["classes"] = classes
    return _W["types"]


def py_call(f, *a):
    try:
        r = f(*a)
    except Exception as e:  # noqa: BLE001
        return "err " + type(e).__name__
    if r is True:
        return "ok True"
    if r is False:
        return "ok False"
    return "ok %s" % (r,)


def enc_s(s):
    return "E" if s == "" else enc_cp(s)


def enc_ty(idx):
    return "E" if not idx else ",".join(str(i) for i in idx)


def corr_prims(objs, rng, nsamp, tag, out):
    """run every modelled primitive at sampled positions of the real list `objs` through the real
    function and through the Lean model"""
    from vsg.vhdlFile import utils

    drv = driver()
    sn = snap(objs)
    drv.send("LIST\t" + enc_toks(sn))
    n = len(objs)
    pool = type_pool()
    pos = sorted(set([0, 1, max(n - 2, 0), max(n - 1, 0), n, n + 1] + [rng.randrange(0, max(n, 1)) for _ in range(nsamp)]))
    lowers = [o.lower_value for o in objs]
    fixed = [";", "(", ")", ":", "is", "<=", ":=", "when", ",", "begin", "end", "=>", "'"]
    nq = 0
    bad = 0

    def ask(name, args, pyres):
        nonlocal nq, bad
        rep = drv.ask("P\t%s\t%s" % (name, "\t".join(str(a) for a in args)))
        nq += 1
        if rep != pyres:
            bad += 1
            if len(out) < 40:
                out.append({"prim": name, "args": [str(a)[:60] for a in args], "python": pyres, "lean": rep[:120], "list": tag, "len": n})

    for i in pos:
        near = [lowers[j] for j in range(i, min(i + 6, n))]
        s = rng.choice(near + fixed) if near else rng.choice(fixed)
        s2 = rng.choice(near + fixed) if near else rng.choice(fixed)
        # optional-string lists
        k = rng.randrange(1, 4)
        ostr = [None if rng.random() < 0.25 else rng.choice(near + fixed[:4]) if near else ";" for _ in range(k)]
        otys = []
        for _ in range(rng.randrange(1, 3)):
            if rng.random() < 0.2:
                otys.append(None)
            elif i < n and rng.random() < 0.5:
                # a type that the token in the neighbourhood really has
                j = min(n - 1, i + rng.randrange(0, 3))
                cands = [p for p in pool if isinstance(objs[j], p[1])]
                otys.append(rng.choice(cands) if cands else rng.choice(pool))
            else:
                otys.append(rng.choice(pool))
        py_tys = [None if t is None else t[1] for t in otys]
        w_tys = ";".join("N" if t is None else enc_ty(t[2]) for t in otys)
        w_strs = ";".join("N" if x is None else enc_s(x) for x in ostr)
        ask("findNextToken", [i], py_call(utils.find_next_token, i, objs))
        ask("findNextNonWs", [i], py_call(utils.find_next_non_whitespace_token, i, objs))
        for j in ((i, -1) if i == 0 else (i,)):
            ask("findPrevNonWs", [j], py_call(utils.find_previous_non_whitespace_token, j, objs))
        ask("objectValueIs", [i, enc_s(s)], py_call(utils.object_value_is, objs, i, s.upper() if rng.random() < 0.3 else s))
        ask("isItem", [i], py_call(utils.is_item, objs, i))
        ask("isNextToken", [enc_s(s), i], py_call(utils.is_next_token, s, i, objs))
        ask("isNextTokenOneOf", [";".join(enc_s(x) for x in [s, s2]), i], py_call(utils.is_next_token_one_of, [s, s2], i, objs))
        ask("areNextTokens", [w_strs, i], py_call(utils.are_next_consecutive_tokens, ostr, i, objs))
        ask("areNextTokensIgnWs", [w_strs, i], py_call(utils.are_next_consecutive_tokens_ignoring_whitespace, ostr, i, objs))
        ask("areNextTypes", [w_tys, i], py_call(utils.are_next_consecutive_token_types, py_tys, i, objs))
        ask("areNextTypesIgnWs", [w_tys, i], py_call(utils.are_next_consecutive_token_types_ignoring_whitespace, py_tys, i, objs))
        for j in (i, i - 1):
            ask("arePrevTypesIgnWs", [w_tys, j], py_call(utils.are_previous_consecutive_token_types_ignoring_whitespace, py_tys, j, objs))
        m = rng.randrange(0, 4)
        ask("findInNextN", [enc_s(s), m, i], py_call(utils.find_in_next_n_tokens, s, m, i, objs))
        c = rng.randrange(-2, 3)
        ask("updateParenCounter", [i, c], py_call(utils.update_paren_counter, i, objs, c))
        ask("findInRange", [enc_s(s), i, enc_s(s2)], py_call(utils.find_in_range, s, i, s2, objs))
        e = i + rng.randrange(0, 8)
        ask("findInIndexRange", [enc_s(s), i, e], py_call(utils.find_in_index_range, s, i, e, objs))
        v = objs[min(n - 1, i + rng.randrange(0, 5))].value if n else ";"
        ask("findNextTokenWithValue", [i, enc_s(v)], py_call(utils.find_next_token_with_value, i, v, objs))
        ask("allAssignmentsInsideParen", [i, enc_s(s2)], py_call(utils.all_assignments_inside_parenthesis, i, s2, objs))
        ask("assignmentOperatorFound", [i], py_call(utils.assignment_operator_found, i, objs))
        ask("keywordFound", [enc_s(s), i], py_call(utils.keyword_found, s, i, objs))
        ask("hasLabel", [i], py_call(utils.has_label, i, objs))
        ask("exponentDetected", [i], py_call(utils.exponent_detected, objs, i))
        # assign_special_tokens: which class does it give the token at i
        if i < n:
            ask("assignSpecial", [i], py_special(objs, i))
        # assignment primitives on a copy
        for (pname, lname) in (("assign_next_token", "assignNextToken"), ("assign_token", "assignToken")):
            tc = rng.choice(ASSIGN_CLASSES)
            cobj = _W["classes"][tc[0]]
            cp = list(objs)
            if pname == "assign_token":
                r = py_call(utils.assign_token, cp, i, cobj)
            else:
                r = py_call(utils.assign_next_token, cobj, i, cp)
            if r.startswith("ok"):
                r = r + "\t" + enc_toks(snap(cp))
            ask(lname, [_W["ci"].by_name[tc[0]], tc[1], i], r)
        for (fn, lname) in ((utils.assign_next_token_if, "assignNextTokenIf"), (utils.assign_next_token_if_not, "assignNextTokenIfNot"), (utils.assign_next_token_required, "assignNextTokenRequired")):
            tc = rng.choice(ASSIGN_CLASSES[:2])
            cobj = _W["classes"][tc[0]]
            cp = list(objs)
            r = py_call(fn, s, cobj, i, cp)
            if r == "err ClassifyError" or r.startswith("ok"):
                if r.startswith("ok"):
                    r = r + "\t" + enc_toks(snap(cp))
            ask(lname, [enc_s(s), _W["ci"].by_name[tc[0]], tc[1], i], r)
    return nq, bad


# (class name, default value when the constructor takes no argument else '-')
ASSIGN_CLASSES = [("vsg.parser.keyword", "-"), ("vsg.parser.todo", "-"), ("vsg.parser.open_parenthesis", enc_cp("(")), ("vsg.parser.close_parenthesis", enc_cp(")"))]


def py_special(objs, i):
    """the class assign_special_tokens gives lObjects[i], expressed as the branch of the model"""
    from vsg import parser as vparser
    from vsg.token import exponent
    from vsg.vhdlFile import utils

    class marker(vparser.item):
        pass

    cp = list(objs)
    try:
        utils.assign_special_tokens(cp, i, marker)
    except Exception as e:  # noqa: BLE001
        return "err " + type(e).__name__
    # assign_token writes at find_next_token(i): look there
    j = utils.find_next_token(i, objs)
    o = cp[j] if j < len(cp) else None
    changed = [k for k in range(len(cp)) if cp[k] is not objs[k]]
    if not changed:
        return "ok none"
    o = cp[changed[0]]
    if type(o) is marker:
        return "ok oType"
    if type(o) is exponent.minus_sign:
        return "ok expMinus"
    if type(o) is exponent.plus_sign:
        return "ok expPlus"
    if type(o) is exponent.e_keyword:
        return "ok eKeyword"
    if type(o) is exponent.integer:
        return "ok expInteger"
    if type(o) is vparser.todo and objs[i].lower_value in ("-", "+"):
        return "ok todo"
    return "ok fixed"


def corr_passes(store, out):
    """each recorded post pass: the Lean model on the `before` snapshot must give the `after` snapshot"""
    drv = driver()
    n = 0
    bad = 0
    for name, before, after, exc, _objs in store["passes"]:
        for t in before:
            if t[2] != t[1].lower():
                out.append({"pass": name, "note": "lower_value != value.lower()", "value": t[1]})
        drv.send("LIST\t" + enc_toks(before))
        rep = drv.ask("PASS\t" + PASS_CODE[name])
        n += 1
        if after is not None:
            after = [(c if c >= 0 else len(_W["names"]), v, lo, i, h) for (c, v, lo, i, h) in after]
        if exc is not None:
            ok = rep == "err " + exc
        else:
            ok = rep.startswith("ok") and dec_toks(rep[3:]) == after
        if not ok:
            bad += 1
            if len(out) < 40:
                d = {"pass": name, "python_exc": exc, "lean": rep[:80]}
                if exc is None and rep.startswith("ok"):
                    la = dec_toks(rep[3:])
                    for k, (x, y) in enumerate(zip(la, after)):
                        if x != y:
                            d["first_diff"] = {"index": k, "lean": x, "python": y, "before": before[k]}
                            break
                out.append(d)
    return n, bad


# ------------------------------------------------------------------ jobs


def load_text(path):
    if path in EXTRA_TEXTS:
        return EXTRA_TEXTS[path]
    return gen_inputs.read_text(path)


def job(args):
    path, kinds, seeds, do_corr, nsamp = args
    res = {"path": path, "pairs": 0, "nontrivial": 0, "genbug": [], "verdicts": collections.Counter(), "fails": [], "corr": {"prim_calls": 0, "prim_bad": 0, "pass_runs": 0, "pass_bad": 0, "breaks": []}, "tokens": 0}
    try:
        text = load_text(path)
        try:
            objs, store = parse(text, path, record=do_corr)
        except Exception as e:  # noqa: BLE001
            res["verdicts"]["origRejected"] += 1
            return res
        osnap = snap(objs)
        res["tokens"] = len(osnap)
        if do_corr:
            rng = random.Random("c05corr/%d/%s" % (common.seed(), common.rel(path)))
            br = res["corr"]["breaks"]
            a, b = corr_passes(store, br)
            res["corr"]["pass_runs"] += a
            res["corr"]["pass_bad"] += b
            lists = [("final", objs)]
            if store["raw"] is not None:
                lists.append(("raw", store["raw"]))  # NB: the list object after tokenize mutated it; see below
            if store["passes"]:
                lists.append(("before_post_passes", store["passes"][0][4]))
            for tag, lo in lists:
                a, b = corr_prims(lo, rng, nsamp, tag, br)
                res["corr"]["prim_calls"] += a
                res["corr"]["prim_bad"] += b
        onorm = R.vhdl_norm(text)
        comp_off = "vhdl_comp_off" in text
        for kind in kinds:
            if comp_off and kind in R.SHARED_KINDS:
                continue  # the shared generator does not protect --vhdl_comp_off regions (classification there is by design)
            fam = FAMILY[kind]
            for sd in seeds:
                rng = random.Random("c05/%d/%s/%s/%d" % (common.seed(), common.rel(path), kind, sd))
                var = make_variant(text, rng, kind)
                if var == text:
                    res["verdicts"]["identical"] += 1
                    continue
                vn = R.vhdl_norm(var)
                if fam == "exotic":
                    ok = vn == onorm
                else:
                    ok = vn == onorm
                if not ok:
                    res["genbug"].append((path, kind, sd))
                    continue
                res["pairs"] += 1
                v = judge(text, var, path, osnap)
                res["verdicts"][v["verdict"]] += 1
                if v["verdict"] == "same":
                    res["nontrivial"] += 1
                    continue
                sig = signature(v, fam)
                res["fails"].append({"family": fam, "site": sig[0], "kind": sig[1], "path": path, "variant": kind, "vseed": sd, "size": len(text), "first": {k: v_ for k, v_ in v.items() if k != "diffs"}})
    except Exception:  # noqa: BLE001
        res["harness_error"] = traceback.format_exc()[-1500:]
    res["verdicts"] = dict(res["verdicts"])
    return res


def min_job(fl):
    """phase 2: regenerate the variant of a failing pair and minimise it"""
    try:
        text = load_text(fl["path"])
        rng = random.Random("c05/%d/%s/%s/%d" % (common.seed(), common.rel(fl["path"]), fl["variant"], fl["vseed"]))
        var = make_variant(text, rng, fl["variant"])
        fam = fl["family"]
        sig = (fl["site"], fl["kind"])
        v0 = judge(text, var, fl["path"])
        if signature(v0, fam) != sig:
            return dict(fl, harness_error="phase 2 could not reproduce %r: got %r" % (sig, signature(v0, fam)))
        global PARSE_SECONDS
        if fl["kind"] == "relayoutHang":
            # a hanging candidate costs the whole watchdog time: shorten it while minimising
            keep = PARSE_SECONDS
            PARSE_SECONDS = 2
            try:
                o1, v1 = minimise(text, var, fl["path"], sig, fam, budget_n=120, seconds=60.0)
            finally:
                PARSE_SECONDS = keep
        else:
            o1, v1 = minimise(text, var, fl["path"], sig, fam)
        fin = judge(o1, v1, fl["path"])
        cause = fam
        if fam == "dcomment":
            # does the text of the comment matter?  (inert text: only "a delimited comment is not skipped" is left)
            inert = re.sub(r"/\*.*?\*/", "/* c */", v1)
            cause = "dcommentNotSkipped" if judge(o1, inert, fl["path"])["verdict"] not in ("same", "origRejected") else "dcommentText"
        return dict(fl, cause=cause, orig=o1, var=v1, final={k: v_ for k, v_ in fin.items() if k != "diffs"}, diffs=fin.get("diffs", [])[:6])
    except Exception:  # noqa: BLE001
        return dict(fl, harness_error=traceback.format_exc()[-1500:])


# ------------------------------------------------------------------ advisory AST scan


def ast_scan():
    """direct subscripts lObjects[i ± k] in classify/*.py, utils.py, vhdlFile.py (advisory)"""
    out = []
    files = sorted(glob.glob(os.path.join(common.REPO, "vsg", "vhdlFile", "classify", "*.py"))) + [os.path.join(common.REPO, "vsg", "vhdlFile", "utils.py"), os.path.join(common.REPO, "vsg", "vhdlFile", "vhdlFile.py")]
    for f in files:
        try:
            tree = ast.parse(open(f).read())
        except SyntaxError:
            continue
        for fn in ast.walk(tree):
            if not isinstance(fn, (ast.FunctionDef,)):
                continue
            for n in ast.walk(fn):
                if isinstance(n, ast.Subscript) and isinstance(n.value, ast.Name) and n.value.id in ("lObjects", "lTokens", "lAllObjects"):
                    s = n.slice
                    if isinstance(s, ast.BinOp) and isinstance(s.op, (ast.Add, ast.Sub)) and isinstance(s.right, ast.Constant):
                        out.append("%s:%d %s %s" % (os.path.relpath(f, os.path.join(common.REPO, "vsg")), n.lineno, fn.name, ast.unparse(n)))
    return sorted(set(out))


NOT_BLIND = ["are_next_consecutive_token_types", "is_token_at_end_of_line", "assign_special_tokens", "exponent_detected", "classify_selected_name", "classify_predefined_types", "find_in_range", "get_range", "find_earliest_occurrence", "assign_tokens_until_ignoring_paren", "all_assignments_inside_parenthesis"]


def call_sites():
    """who calls the primitives that are proved NOT to factor through the code view (direct
    neighbour look-ups, value scans over every token): file -> count, per primitive (advisory)"""
    out = {}
    for name in NOT_BLIND:
        pat = re.compile(r"\b%s\(" % re.escape(name))
        hits = collections.Counter()
        for f in glob.glob(os.path.join(common.REPO, "vsg", "**", "*.py"), recursive=True):
            try:
                src = open(f).read()
            except OSError:
                continue
            n = len([m for m in pat.finditer(src) if not src[max(0, m.start() - 4) : m.start()].endswith("def ")])
            if n:
                hits[os.path.relpath(f, os.path.join(common.REPO, "vsg"))] = n
        out[name] = dict(hits.most_common(12))
    return out


# ------------------------------------------------------------------ run / replay

FAMILY_NOTE = {
    "plain": "blank / tab resizing, line breaks at white space, `--` comments at line ends and on own lines, letter case outside literals",
    "dcomment": "VHDL-2008 delimited comments `/*…*/` added at line ends / on own lines (dcmtplain: inert text; dcmt*: text spelled like a code token)",
    "exotic": "a blank between two tokens replaced by another LRM separator (form feed, vertical tab, no-break space)",
}


# root causes of the two families beyond `plain` -> (site, kind) of the finding
CAUSE = {
    "dcommentText": ("delimited_comment.text", "commentTextReadAsCode"),
    "dcommentNotSkipped": ("utils.token_is_whitespace_or_comment", "delimitedCommentNotSkipped"),
    "dcomment": ("delimited_comment.text", "commentTextReadAsCode"),
    "exotic": ("classify/whitespace:classify", "separatorNotRecognised"),
}


def plan(tier, files):
    jobs = []
    sd0 = common.seed()
    for n, f in enumerate(files):
        extra = f in EXTRA_TEXTS
        if tier == "thorough" or extra:
            kinds = PLAIN + DCOMMENT + EXOTIC
            seeds = [0, 1] if tier == "thorough" else [0]
        else:
            kinds = [PLAIN[(n + sd0 + j * 5) % len(PLAIN)] for j in range(3)]
            # letter case is cheap to vary and the classifier compares many values by hand: every file
            # also gets the all-uppercase variant
            if "upper" not in kinds:
                kinds.append("upper")
            kinds.append((DCOMMENT + EXOTIC)[(n + sd0) % len(DCOMMENT + EXOTIC)])
            seeds = [0]
        do_corr = extra or (tier == "thorough" and n % 3 == 0) or (tier != "thorough" and n % 12 == (sd0 % 12))
        jobs.append((f, kinds, seeds, do_corr, 10 if tier == "thorough" else 6))
    return jobs


def run(prop, tier):
    res = common.Result(prop, tier)
    ok_model, tables, nobl, ndis, thms = common.lean_phase(res, prop)
    if not ok_model:
        return res.finish(max(nobl, 1), 0, "lake build VsgModel driver VsgProofs.Properties.%s" % prop, thms)
    # static side condition: the productions reach the token list through the modelled primitives only
    import c05_confine

    new_direct, gone_direct, new_prims, confine_stats = c05_confine.compare()
    for f, fn, st in new_direct[:6]:
        res.proof_break("confinement: %s:%s reads the token list directly in a way that is not on the reviewed list (harness/c05_direct_access.json)" % (f, fn), {"statement": st, "note": "the Lean theorems prims_* speak about the classifier only through the primitives of utils.py; the re-layout search of this run is the search for a failing input"})
    for n in new_prims[:6]:
        res.proof_break("confinement: a production calls utils.%s, which is not on the reviewed list of primitives" % n, {"primitive": n})
    files = gen_inputs.corpus_files() + sorted(EXTRA_TEXTS)
    jobs = plan(tier, files)
    t0 = time.time()
    pool = multiprocessing.Pool(min(16, os.cpu_count() or 4), initializer=_init)
    out = pool.map(job, jobs, chunksize=4)
    verd = collections.Counter()
    pairs = nontrivial = tokens = 0
    genbugs = []
    corr = collections.Counter()
    breaks = []
    herr = []
    by_sig = collections.OrderedDict()
    counts = collections.Counter()
    cands = collections.defaultdict(list)
    for r in out:
        if "harness_error" in r:
            herr.append((r["path"], r["harness_error"]))
        for k, v in r["verdicts"].items():
            verd[k] += v
        pairs += r["pairs"]
        nontrivial += r["nontrivial"]
        tokens += r["tokens"]
        genbugs.extend(r["genbug"])
        for k in ("prim_calls", "prim_bad", "pass_runs", "pass_bad"):
            corr[k] += r["corr"][k]
        breaks.extend(r["corr"]["breaks"])
        for fl in r["fails"]:
            key = (fl["family"], fl["site"], fl["kind"])
            counts[key] += 1
            cands[key].append(fl)
    # phase 2: one representative per signature (the smallest source text), minimised
    reps = [sorted(v, key=lambda f: f["size"])[0] for v in cands.values()]
    for fl in pool.map(min_job, reps, chunksize=1):
        if "harness_error" in fl:
            herr.append((fl["path"], fl["harness_error"]))
            continue
        by_sig[(fl["family"], fl["site"], fl["kind"])] = fl
    pool.close()
    pool.join()
    wall = time.time() - t0
    if herr:
        print("HARNESS-ERROR in %d job(s): %s" % (len(herr), herr[0]))
        return 2
    seen_b = set()
    breaks = [b for b in breaks if not ((b.get('prim') or b.get('pass'), b.get('python'), b.get('lean', '')[:20]) in seen_b or seen_b.add((b.get('prim') or b.get('pass'), b.get('python'), b.get('lean', '')[:20])))]
    for b in breaks[:10]:
        res.proof_break("correspondence %s" % (b.get("prim") or b.get("pass")), b)
    # failures: `plain` family per (site, kind); the other families are grouped by root cause
    grouped = collections.OrderedDict()
    occ = collections.Counter()
    for key, fl in by_sig.items():
        fam, site, kind = key
        gk = (site, kind) if fam == "plain" else CAUSE[fl.get("cause", fam)]
        if fam != "plain" and kind == "relayoutHang":
            gk = (gk[0], gk[1] + "Hang")  # a parse that does not terminate is a finding of its own
        occ[gk] += counts[key]
        if gk not in grouped or len(fl["var"]) < len(grouped[gk]["var"]):
            aff = grouped[gk]["affected"] if gk in grouped else []
            grouped[gk] = dict(fl, affected=aff)
        if site not in grouped[gk]["affected"]:
            grouped[gk]["affected"].append("%s/%s" % (site, kind))
    samples = []
    for (site, kind), fl in grouped.items():
        detail = {
            "family": fl["family"] + ": " + FAMILY_NOTE[fl["family"]],
            "found_in": fl["path"],
            "variant": fl["variant"],
            "original": fl["orig"],
            "relayout": fl["var"],
            "relayout_repr": repr(fl["var"]),
            "verdict": fl["final"],
            "role_differences": fl["diffs"],
            "occurrences": occ[(site, kind)],
        }
        if fl["family"] != "plain":
            detail["affected_sites"] = sorted(set(fl["affected"]))[:80]
        res.fail(site, kind, detail, {"orig": fl["orig"], "variant": fl["var"], "path": fl["path"], "kind": fl["variant"], "vseed": fl["vseed"]})
        samples.append({"site": site, "kind": kind, "path": fl["path"], "variant": fl["variant"], "lines": fl["var"].count("\n")})
    res.coverage["confinement"] = dict(confine_stats, new=len(new_direct), vanished=len(gone_direct), new_primitives=new_prims)
    # >>> WP1 layer P: translated productions vs the real ones (coverage["layerP"])
    try:
        import props_prog

        props_prog.extra(res, tier)
    except ImportError:
        pass
    # <<< WP1 layer P
    res.coverage.update(
        {
            "evaluations": pairs,
            "distinct_nontrivial": nontrivial,
            "rule": "an evaluation = one (corpus file, re-layout variant) pair: both texts parsed by the real parser, roles of the code tokens compared by the Lean driver; a variant counts only if an independent VHDL scanner confirms that it differs from the original in layout runs, comments and letter case outside literals; non-trivial = the variant differs from the original as text, both were accepted and all roles were equal",
            "samples": samples[:8] or [{"note": "no role difference, no rejected re-layout", "verdicts": dict(verd)}],
            "verdicts": dict(verd),
            "files": len(files),
            "variant_kinds": {"plain": PLAIN, "dcomment": DCOMMENT, "exotic": EXOTIC},
            "failure_counts": {"%s|%s|%s" % k: v for k, v in counts.items()},
            "generator_rejects": len(genbugs),
            "generator_reject_samples": genbugs[:6],
            "correspondence": dict(corr),
            "input_tokens": tokens,
            "search_wall_s": round(wall, 1),
            "ast_scan_direct_subscripts": ast_scan(),
            "call_sites_of_primitives_not_layout_blind": call_sites(),
        }
    )
    res.assumptions = [
        "the ~8 300 lines of productions under vsg/vhdlFile/classify are NOT modelled: for them C05 is decided per explored (file, re-layout) pair on the real parser, not for all inputs",
        "proved for all lists: the navigation primitives of utils.py factor through the view they skip to (prims_codeView, with the stated guards and the witnesses where they do not), the post passes commute with re-layout under the stated guards; the models are tied to /repo by the correspondence runs of this check (sampled positions of real token lists)",
        "`sValue.lower()` in the post passes is read off `lower_value`; the check verifies lower_value == value.lower() on every token of every recorded pass input",
        "re-layouts explored: " + "; ".join("%s = %s" % kv for kv in FAMILY_NOTE.items()),
        "set_token_indent (indent levels, not classes) is modelled separately: theorems setIndent_* of this file, correspondence under coverage[\"setindent\"]",
    ]
    try:
        import props_setindent

        props_setindent.extra(res, tier, "C05")
    except ImportError:
        pass
    return res.finish(max(nobl, 1), ndis, "cd lean && lake build VsgProofs.Properties.%s && lake env lean <audit file with #print axioms>" % prop, thms)


def replay(prop, path):
    import gen_tables

    gen_tables.generate()
    d = json.load(open(path))
    if d.get("kind") == "no-failing-input-found":
        print(json.dumps(d, indent=1)[:3000])
        return 0
    _init()
    inp = d["input"]
    v = judge(inp["orig"], inp["variant"], inp.get("path", "replay.vhd"))
    print("--- original\n" + inp["orig"] + "--- re-layout\n" + inp["variant"] + "---")
    print(json.dumps(v, indent=1)[:3000])
    if v["verdict"] not in ("same", "origRejected"):
        print("REPRODUCED property=%s site=%s verdict=%s" % (prop, v.get("site"), v["verdict"]))
        return 1
    return 0


def vsgrun_VF():
    import vsgrun

    return vsgrun.VF
