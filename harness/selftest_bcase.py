"""
Self-test of the case-family check logic.  Never touches /repo: the real functions are monkeypatched
in this process with plausible bugs and the correspondence / search of corr_case.py must report each.

    /venv/bin/python harness/selftest_bcase.py
"""
import json
import os
import sys

sys.path.insert(0, os.path.dirname(os.path.abspath(__file__)))

import common  # noqa: E402
import corr_case  # noqa: E402
import props_bcase  # noqa: E402


def small_checks(rng):
    return corr_case.make_checks(corr_case.SYNTH_VALUES, rng, full=False)


def main():
    import gen_tables

    tables, _ = gen_tables.generate()
    cu = corr_case.rmod("case_utils")
    tc = corr_case.rcls("token_case")
    results = []

    def expect(name, cond, detail):
        results.append((name, bool(cond), detail))
        print("%-62s %s  %s" % (name, "DETECTED" if cond else "MISSED", detail))

    # 0. unpatched: nothing to report
    out = corr_case.run_checks(small_checks(common.rng("st0")), procs=4)
    expect("baseline: no mismatch on the unchanged code", len(out["mismatches"]) == 0, "%d checks" % out["n"])

    # 1. off-by-one in remove_prefix
    real = cu.remove_prefix
    cu.remove_prefix = lambda sString, sPrefix: sString[len(sPrefix) + 1 :]
    try:
        out = corr_case.run_checks(small_checks(common.rng("st1")), procs=4)
    finally:
        cu.remove_prefix = real
    kinds = {k[2] for k in out["findings"]}
    expect("remove_prefix drops one character too many: correspondence", len(out["mismatches"]) > 0, "%d mismatches" % len(out["mismatches"]))
    expect("remove_prefix drops one character too many: property search", "lengthChanged" in kinds or "codeChanged" in kinds, sorted(kinds))

    # 2. the literal skip as it was before commit da18b98 (only '"')
    real = cu.does_not_contain_any_alpha_characters
    cu.does_not_contain_any_alpha_characters = lambda s: s.startswith('"')
    try:
        out = corr_case.run_checks(small_checks(common.rng("st2")), procs=4)
    finally:
        cu.does_not_contain_any_alpha_characters = real
    kinds = {k[2] for k in out["findings"]}
    expect("character literals no longer skipped: correspondence", len(out["mismatches"]) > 0, "%d mismatches" % len(out["mismatches"]))
    expect("character literals no longer skipped: property search", "literalChanged" in kinds, sorted(kinds))

    # 3. check_for_exception REPAIRED (keeps the token index): the model transcribes the oddity, so
    #    the correspondence must notice the difference
    real = cu.check_for_exception

    def repaired(sObjectValue, self, oToi, iIndex, iLine):
        i = self.case_exceptions_lower.index(sObjectValue.lower())
        if sObjectValue != self.case_exceptions[i]:
            return cu.create_case_violation(sObjectValue, self.case_exceptions[i], oToi, iIndex, iLine)

    cu.check_for_exception = repaired
    try:
        out = corr_case.run_checks([c for c in small_checks(common.rng("st3"))], procs=4)
    finally:
        cu.check_for_exception = real
    expect("check_for_exception keeps the token index: correspondence", len(out["mismatches"]) > 0, "%d mismatches" % len(out["mismatches"]))

    # 4. upper() replaced by title()
    real = cu.check_for_upper_case

    def bad_upper(sActualValue, sPrefix, sWord, sSuffix, oToi, iIndex, iLine, self):
        sExpectedValue = sPrefix + sWord.title() + sSuffix
        if not sActualValue == sExpectedValue:
            return cu.create_case_violation(sActualValue, sExpectedValue, oToi, iIndex, iLine)

    cu.dCase["upper"]["check"] = bad_upper
    try:
        out = corr_case.run_checks(small_checks(common.rng("st4")), procs=4)
    finally:
        cu.dCase["upper"]["check"] = real
    expect("upper implemented with title(): correspondence", len(out["mismatches"]) > 0, "%d mismatches" % len(out["mismatches"]))

    # 5. token_case._fix_violation writes into the LAST token
    real = tc._fix_violation

    def bad_fix(self, oViolation):
        lTokens = oViolation.get_tokens()
        dAction = oViolation.get_action()
        if dAction["value"] is not None:
            lTokens[-1].set_value(dAction["value"])
            oViolation.set_tokens(lTokens)

    tc._fix_violation = bad_fix
    try:
        n, outcomes, mism = corr_case.run_synthetic_fix(tables, common.rng("st5"), 600)
    finally:
        tc._fix_violation = real
    expect("token_case._fix_violation writes the last token: bfix correspondence", len(mism) > 0, "%d mismatches of %d" % (len(mism), n))

    # 6. the formal-part loop forgets to reset bFormalFound at `=>`
    fp = corr_case.rcls("token_case_formal_part_of_association_element_in_map_between_tokens")
    real = fp._analyze

    def bad_analyze(self, lToi):
        from vsg import parser, token

        for oToi in lToi:
            bMap = False
            bFormal = False
            for iToken, oToken in enumerate(oToi.get_tokens()):
                if isinstance(oToken, self.oMapStart):
                    bMap = True
                    continue
                if isinstance(oToken, self.oMapEnd):
                    break
                if isinstance(oToken, token.association_element.formal_part) and not bFormal and bMap:
                    bFormal = True
                    v = cu.check_for_case_violation(oToi, self, bool(self.prefix_exceptions), bool(self.suffix_exceptions), False, iToken, 1)
                    if v is not None:
                        self.add_violation(v)

    fp._analyze = bad_analyze
    try:
        n, nontriv, mism = corr_case.run_formal(tables, common.rng("st6"), 1500)
    finally:
        fp._analyze = real
    expect("formal-part loop never resets bFormalFound: correspondence", len(mism) > 0, "%d mismatches of %d" % (len(mism), n))

    # 7. the e2e judge on a rule that rewrites a string literal
    real = cu.does_not_contain_any_alpha_characters
    cu.does_not_contain_any_alpha_characters = lambda s: False
    try:
        found = []
        for c in props_bcase.e2e_cases(tables)[:2]:
            f, _ = props_bcase.judge_e2e(c, tables)
            found += f
    finally:
        cu.does_not_contain_any_alpha_characters = real
    expect("no literal skip at all: phase-6 fix runs on real texts", any(k[2] == "literalChanged" for k in found), sorted({k[2] for k in found}))

    bad = [r for r in results if not r[1]]
    print("selftest: %d/%d as expected" % (len(results) - len(bad), len(results)))
    return 1 if bad else 0


if __name__ == "__main__":
    sys.exit(main())
