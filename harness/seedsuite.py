"""development aid: full test suite on a scratch worktree of /repo with one seeded change applied.
  seedsuite.py <dir with patch.diff> ...    -> /tmp/seed_res/<name>_suite.json"""
import json
import os
import re
import subprocess
import sys
import time

ALWAYS_FAIL = ("test_summary_output_format_", "file_timestamp")


def sh(cmd, cwd=None, timeout=3600):
    p = subprocess.run(cmd, shell=True, cwd=cwd, stdout=subprocess.PIPE, stderr=subprocess.STDOUT, text=True, timeout=timeout)
    return p.returncode, p.stdout


def main():
    for d in sys.argv[1:]:
        d = os.path.abspath(d)
        name = os.path.basename(d)
        w = "/tmp/seedsuite_%s" % name
        sh("git -C /repo worktree remove --force %s" % w)
        rc, o = sh("git -C /repo worktree add --detach %s HEAD" % w)
        out = {"name": name}
        try:
            rc, o = sh("git apply %s" % os.path.join(d, "patch.diff"), cwd=w)
            out["apply"] = rc
            if rc == 0:
                t0 = time.time()
                rc, o = sh("/venv/bin/python -W ignore -m pytest -q -p no:cacheprovider --no-cov -n 10 --timeout=900 2>&1 | tail -40", cwd=w, timeout=3400)
                failed = [l for l in o.split("\n") if l.startswith("FAILED") and not any(a in l for a in ALWAYS_FAIL)]
                m = re.search(r"(\d+) passed", o)
                out["suite_passed"] = int(m.group(1)) if m else None
                out["suite_new_failures"] = failed
                out["suite_wall"] = round(time.time() - t0)
                out["suite_tail"] = o[-300:]
        finally:
            sh("git -C /repo worktree remove --force %s" % w)
        os.makedirs("/tmp/seed_res", exist_ok=True)
        json.dump(out, open("/tmp/seed_res/%s_suite.json" % name, "w"), indent=1)
        print(name, out.get("apply"), out.get("suite_passed"), out.get("suite_new_failures"))


if __name__ == "__main__":
    main()
