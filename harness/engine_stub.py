"""
Stub rules through the REAL engine (vsg.rule.Rule.analyze / add_violation / fix /
_filter_out_fix_only_violations, rule_list.check_rules / fix / report_violations /
extract_*, vhdlFile.update, report/*.py, junit.py) and the same scenario through the Lean
driver (`driver engine`).  The stub kinds S / I / D have exactly the semantics of
lean/VsgModel/Engine/Stub.lean.

Parsers of the real text outputs (vsg / syntastic / summary / JUnit) are simple and TRUSTED.
"""
import contextlib
import copy
import io
import json
import re
import xml.etree.ElementTree as ET

import leanio
import vsgrun
from vsg import parser, rule, rule_list, severity, violation
from vsg.report import quality_report
from vsg.vhdlFile.extract import tokens as toi_tokens

TEXTS = [
    "entity a is\nend entity a;\n\narchitecture rtl of a is\n  signal S : std_logic;  -- c\nbegin\nend architecture rtl;\n",
    "library ieee;  \nuse ieee.std_logic_1164.all;\n\n   \nentity E is\n  port (\n    Clk : in std_logic; -- clock\n    Q   : out std_logic\n  );\nend entity E;\n\n\narchitecture A of E is\nbegin\n  Q <= Clk;   \nend architecture A;\n",
    "-- header\n\npackage p is\n  constant C : integer := 3;\n  constant D : integer := 4;  \n\t\n  type t is (x, y);\nend package p;\n",
    "entity t is end entity t;\narchitecture a of t is\n  signal s1, s2 : bit;\nbegin\n  p1 : process (s1) is\n  begin\n    if s1 = '1' then\n      s2 <= '0'; -- x\n    else\n      s2 <= '1';\n    end if;\n  end process p1;\nend architecture a;\n",
    "\n\nentity z is\nend entity z;\n \n",
    "architecture b of c is begin end architecture b;",
]

USER_SEVS = {"Todo": "error", "Future": "warning"}


def eS(s):
    return leanio.enc_str(s)


# ------------------------------------------------------------------ the stub rule class


class StubRule(rule.Rule):
    """S: every token of class cls whose value != arg, fix sets the value
    I: every token of class cls not followed by a whitespace token, fix appends ' '
    D: every token of class cls, fix removes it"""

    def __init__(self, spec, cls_obj, oSeverity):
        super().__init__()
        self.name = "stub"
        self.identifier = spec["id"].split("_", 1)[1]
        self.unique_id = spec["id"]
        self.spec = spec
        self.kind = spec["kind"]
        self.cls = cls_obj
        self.arg = spec["arg"]
        self.phase = spec["phase"]
        self.subphase = spec["sub"]
        self.disable = spec["disable"]
        self.fixable = spec["fixable"]
        self.severity = oSeverity
        self.user_error_message = spec["msg"]
        self.prerequisites = ["x"] if spec["prereq"] else []
        self.remap = spec.get("remap", True)
        self.fixv_log = None  # set by the harness
        self.analyze_log = None
        self.found_now = None
        self.found_at_fix = None  # lines found by the analysis made inside Rule.fix (real method, wrapped below)

    def fix(self, oFile, dFixOnly=None):
        """the REAL Rule.fix, bracketed to remember what its analysis found"""
        self.found_now = None
        rule.Rule.fix(self, oFile, dFixOnly)
        if self.fixable:
            self.found_at_fix = list(self.found_now or [])

    def _get_tokens_of_interest(self, oFile):
        if self.analyze_log is not None:
            self.analyze_log.append(self.unique_id)
        lReturn = []
        self.real_lines = []
        # the region handed to the engine starts `off` lines above the line the violation is reported on (as the
        # regions of the real multi-line rules do): --fix_only selects by the REPORTED line
        off = sum(map(ord, self.unique_id)) % 3
        iLine = 1
        lAll = oFile.lAllObjects
        for i, o in enumerate(lAll):
            if type(o) is self.cls:
                if self.kind == "S":
                    hit = o.get_value() != self.arg
                elif self.kind == "I":
                    hit = not (i + 1 < len(lAll) and isinstance(lAll[i + 1], parser.whitespace))
                else:
                    hit = True
                if hit:
                    lReturn.append(toi_tokens.New(i, max(1, iLine - off), [o]))
                    self.real_lines.append(iLine)
            if isinstance(o, parser.carriage_return):
                iLine += 1
        return lReturn

    def _analyze(self, lToi):
        self.found_now = list(self.real_lines)
        for oToi, iLine in zip(lToi, self.real_lines):
            v = oToi.get_tokens()[0].get_value()
            if self.kind == "S":
                sSolution = 'Change "%s" to "%s"' % (v, self.arg)
            elif self.kind == "I":
                sSolution = 'Add space after "%s"' % v
            else:
                sSolution = "Remove token on line %d" % iLine
            self.add_violation(violation.New(iLine, oToi, sSolution))

    def _fix_violation(self, oViolation):
        if self.fixv_log is not None:
            self.fixv_log.append((self.unique_id, oViolation.get_line_number(), oViolation.oTokens.iStartIndex))
        lTokens = oViolation.get_tokens()
        if self.kind == "S":
            lTokens[0].set_value(self.arg)
            oViolation.set_tokens(lTokens)
        elif self.kind == "I":
            lTokens.append(parser.whitespace(" "))
            oViolation.set_tokens(lTokens)
        else:
            oViolation.set_tokens([])


# ------------------------------------------------------------------ scenario generation


def classes_in(text, W):
    key = ("cls", text)
    if key not in W:
        o = vsgrun.parse(vsgrun.text_to_lines(text), W["cla"], W["oConfig"])
        names = []
        for t in o.lAllObjects:
            n = type(t).__module__ + "." + type(t).__qualname__
            if n not in names:
                names.append(n)
        W[key] = names
    return W[key]


def gen_skip(rng):
    skip = [p for p in range(1, 8) if rng.random() < 0.15]
    if rng.random() < 0.1:
        skip.append(rng.choice([0, 8, 9, -1, "3", "1"]))
    rng.shuffle(skip)
    return skip


def gen_fo(rng, rules, nlines):
    """(shape name, raw dictionary or None)"""
    r = rng.random()
    ids = [x["id"] for x in rules]
    if r < 0.22:
        return "none", None
    if r < 0.27:
        return "no-fix-key", {}
    if r < 0.32:
        return "no-rule-key", {"fix": {}}
    if r < 0.42:
        return "empty", {"fix": {"rule": {}}}
    if r < 0.57:
        return "all-rules-all", {"fix": {"rule": {i: ["all"] for i in ids}}}
    d = {}
    shape = set()
    for i in ids:
        q = rng.random()
        if q < 0.35:
            continue
        if q < 0.5:
            d[i] = ["all"]
            shape.add("all")
        elif q < 0.6:
            d[i] = []
            shape.add("nolines")
        elif q < 0.7:
            d[i] = [rng.randrange(1, nlines + 2), "all"]
            shape.add("lines+all")
        elif q < 0.78:
            d[i] = [rng.randrange(1, nlines + 2), "7", None][: rng.randrange(1, 4)]
            shape.add("junk")
        else:
            d[i] = sorted({rng.randrange(1, nlines + 2) for _ in range(rng.randrange(1, 5))})
            shape.add("lines")
    if rng.random() < 0.2:
        d["nosuch_001"] = ["all"]
        shape.add("unknown-rule")
    return "sel:" + "+".join(sorted(shape)), {"fix": {"rule": d}}


PHASES = [1, 2, 3, 4, 5, 6, 7] * 4 + [-1, 0, 8]
SUBS = [0, 1, 2, 3, 4, 5] * 3 + [1] * 6 + [-1, 6]


def gen_scenario(rng, W):
    ti = rng.randrange(len(TEXTS))
    text = TEXTS[ti]
    present = classes_in(text, W)
    nlines = text.count("\n") + 1
    user = rng.random() < 0.5
    sev_names = ["Error"] * 5 + ["Warning"] * 2 + (["Todo"] * 2 + ["Future"] if user else []) + (["Ghost"] if rng.random() < 0.04 else [])
    n = rng.randrange(1, 8)
    rules = []
    cand = [c for c in present if c != "vsg.parser.carriage_return"]
    for k in range(n):
        kind = rng.choice("SSSIID")
        if kind == "D" and rng.random() < 0.3:
            cls = "vsg.parser.carriage_return" if rng.random() < 0.3 else rng.choice(["vsg.parser.comment", "vsg.parser.whitespace", "vsg.parser.blank_line"])
        elif rng.random() < 0.08:
            cls = "vsg.token.wait_statement.wait_keyword"
        else:
            cls = rng.choice(cand)
        arg = ""
        if kind == "S":
            arg = rng.choice([" ", "x", "X", "entity", "  ", "q9"])
        sev = rng.choice(sev_names)
        rules.append(
            {
                "id": "stub_%03d" % (k + 1),
                "kind": kind,
                "cls": cls,
                "arg": arg,
                "phase": rng.choice(PHASES),
                "sub": rng.choice(SUBS),
                "disable": rng.random() < 0.12,
                "fixable": rng.random() < 0.85,
                "sev": sev,
                "prereq": rng.random() < 0.2,
                "msg": rng.choice(["", "", "", "", "see wiki", "a|b -- c"]),
                "remap": rng.random() < 0.8,
            }
        )
    skip = gen_skip(rng)
    scn = {"text": ti, "user_sevs": user, "rules": rules, "skip": skip}
    if rng.random() < 0.55:
        shape, fo = gen_fo(rng, rules, nlines)
        fp = rng.choice([1, 2, 3, 4, 5, 6, 7] * 3 + [0, 8, 9])
        scn["fix"] = {"phase": fp, "as_str": rng.random() < 0.3, "fo": fo, "shape": shape}
    else:
        scn["fix"] = None
    checks = [{"ap": rng.random() < 0.5, "clear": True}]
    if rng.random() < 0.2:
        checks.append({"ap": rng.random() < 0.5, "clear": rng.random() < 0.3, "skip": gen_skip(rng)})
    scn["checks"] = checks
    return scn


# ------------------------------------------------------------------ real run


def class_by_name(name):
    mod, _, qual = name.rpartition(".")
    import importlib

    return getattr(importlib.import_module(mod), qual)


def build_real(scn, W):
    text = scn["text"] if isinstance(scn["text"], str) else TEXTS[scn["text"]]
    oFile = vsgrun.parse(vsgrun.text_to_lines(text), W["cla"], W["oConfig"], "stub.vhd")
    sevlist = severity.create_list({"severity": {k: {"type": v} for k, v in USER_SEVS.items()}} if scn["user_sevs"] else {})
    real_load = rule_list.load_rules
    rule_list.load_rules = lambda: []  # the rule list is replaced by the stubs below
    try:
        rl = rule_list.rule_list(oFile, sevlist)
    finally:
        rule_list.load_rules = real_load
    stubs = []
    for spec in scn["rules"]:
        oSev = sevlist.get_severity_named(spec["sev"])
        if oSev is None:
            # a severity object that is not in the list
            oSev = severity.error(spec["sev"]) if spec["sev"] != "Future" else severity.warning(spec["sev"])
        stubs.append(StubRule(spec, class_by_name(spec["cls"]), oSev))
    rl.rules = stubs
    return oFile, rl, sevlist


def canon_skip(raw, hi=9):
    return [p for p in range(1, hi + 1) if p in raw]


def parse_vsg(text):
    """(stopPhase, numRules, total, [(name, n)], rows [(rule, sev, line, sol)])"""
    lines = text.split("\n")
    i = 3
    stop = int(re.match(r"Phase (-?\d+) of 7\.\.\. Reporting$", lines[i]).group(1))
    num = int(re.match(r"Total Rules Checked: (\d+)$", lines[i + 1]).group(1))
    total = int(re.match(r"Total Violations:\s+(\d+)$", lines[i + 2]).group(1))
    i += 3
    sevs = []
    while i < len(lines) and lines[i].startswith("  ") and not lines[i].startswith("--"):
        name, cnt = lines[i][2:].rsplit(" : ", 1)
        sevs.append((name.rstrip(), int(cnt)))
        i += 1
    rows = []
    if i < len(lines) and lines[i].startswith("-"):
        i += 3  # divider, header, divider
        while i < len(lines) and not lines[i].startswith("-"):
            r, s, l, sol = lines[i][2:].split(" | ", 3)
            rows.append((r.rstrip(), s.rstrip(), int(l), sol))
            i += 1
    return stop, num, total, sevs, rows


def parse_syntastic(text, filename):
    rows = []
    if not text:
        return rows
    for l in text.split("\n"):
        m = re.match(r"(ERROR|WARNING): " + re.escape(filename) + r"\((\d+)\)(\S+) -- (.*)$", l)
        rows.append((m.group(1) == "ERROR", m.group(3), int(m.group(2)), m.group(4)))
    return rows


def parse_summary(text, filename):
    m = re.match(r"File: " + re.escape(filename) + r" (OK|ERROR) \((\d+) rules checked\)(.*)$", text)
    sevs = [(a, int(b)) for a, b in re.findall(r" \[(.*?): (\d+)\]", m.group(3))]
    return m.group(1) == "OK", int(m.group(2)), sevs


def parse_junit_testcase(lines):
    """failure text lines of one testcase (XML un-escaped by a real XML parser)"""
    root = ET.fromstring("\n".join(lines))
    out = []
    for fl in root.findall("failure"):
        for l in (fl.text or "").split("\n"):
            l = l.strip()
            if not l:
                continue
            m = re.match(r"(\S+): (-?\d+) : (.*)$", l)
            out.append((m.group(1), int(m.group(2)), m.group(3)) if m else ("?", -1, l))
    return out


def sev_counts(l):
    return " ".join("%s=%d" % (eS(n), c) for n, c in l)


def real_reports(rl, filename):
    """observable lines of every report format for the current state of the rule list"""
    out = []
    try:
        with contextlib.redirect_stdout(io.StringIO()):
            so, se = rl.report_violations("vsg")
            sy, _ = rl.report_violations("syntastic")
            su_out, su_err = rl.report_violations("summary")
        stop, num, total, sevs, rows = parse_vsg(so)
        out.append("VSG\t%d\t%d\t%d\t%s\t%s" % (stop, num, total, sev_counts(sevs), " ".join("%s:%s:%d:%s" % (eS(r), eS(s), l, eS(sol)) for r, s, l, sol in rows)))
        out.append("SYN\t" + " ".join("%d:%s:%d:%s" % (e, eS(r), l, eS(sol)) for e, r, l, sol in parse_syntastic(sy, filename)))
        ok, num2, sevs2 = parse_summary(su_out if su_out is not None else su_err, filename)
        out.append("SUM\t%d\t%d\t%s\t%d" % (ok, num2, sev_counts(sevs2), su_out is None))
    except KeyError:
        out.append("RI\tKeyError")
    tc = rl.extract_junit_testcase(filename)
    out.append("JUN\t" + " ".join("%s:%d:%s" % (eS(r), l, eS(s)) for r, l, s in parse_junit_testcase(tc.build_junit())))
    dj = rl.extract_violation_dictionary()["violations"]
    out.append("JSON\t" + " ".join("%s:%d:%s:%s" % (eS(v["rule"]), v["linenumber"], eS(v["severity"]), eS(v["solution"])) for v in dj))
    qr = quality_report.build_report({"files": [{"file_path": filename, "violations": dj}]})
    out.append("QR\t" + " ".join("%s:%d:%d" % (eS(q["description"]), q["severity"] == "critical", q["location"]["lines"]["begin"]) for q in qr))
    out.append("EXIT\t%d" % bool(rl.violations))
    return out


def real_run(scn, W):
    """returns (lines, info).  lines: the observable lines in the driver's format"""
    oFile, rl, sevlist = build_real(scn, W)
    ci = W["ci"]
    out = []
    info = {"fixv": [], "analyzed": []}
    for r in rl.rules:
        r.fixv_log = info["fixv"]
        r.analyze_log = info["analyzed"]
    init = [(ci.of(o), o.get_value()) for o in oFile.lAllObjects]
    info["init"] = init
    info["init_objs"] = []
    for o in oFile.lAllObjects:
        c = copy.copy(o)
        info["init_objs"].append(c)
    if scn["fix"] is not None:
        fx = scn["fix"]
        fp = str(fx["phase"]) if fx.get("as_str") else fx["phase"]
        rl.fix(fp, list(scn["skip"]), fx["fo"])
        out.append("FIXLOG\t" + " ".join("%s:%d:%d" % (eS(i), l, s) for i, l, s in info["fixv"]))
        after = [(ci.of(o), o.get_value()) for o in oFile.lAllObjects]
        info["after_fix"] = after
        out.append("TOKS\t" + " ".join("%d:%s" % (c, eS(v)) for c, v in after))
        out.append("HAD\t%d" % bool(rl.had_violations))
        out.append("END")
        info["analyzed_in_fix"] = list(info["analyzed"])
        del info["analyzed"][:]
    info["checks"] = []
    for ck in scn["checks"]:
        if ck["clear"]:
            rl.clear_violations()
        del info["analyzed"][:]
        rl.check_rules(bAllPhases=ck["ap"], lSkipPhase=list(ck.get("skip", scn["skip"])))
        out.append("CHK\t%d\t%d\t%d" % (rl.iNumberRulesRan, rl.lastPhaseRan, bool(rl.violations)))
        per = []
        for r in rl.rules:
            vs = [(v.get_line_number(), v.get_solution()) for v in r.violations]
            per.append((r.unique_id, vs))
            out.append("RV\t%s\t%s" % (eS(r.unique_id), " ".join("%d:%s" % (l, eS(s)) for l, s in vs)))
        out.append("END")
        info["checks"].append({"per": per, "nran": rl.iNumberRulesRan, "last": rl.lastPhaseRan, "viol": bool(rl.violations), "analyzed": list(info["analyzed"])})
    rep = real_reports(rl, "stub.vhd")
    out.extend(rep)
    out.append("END")
    info["report"] = rep
    info["lines"] = out
    info["found_at_fix"] = {r.unique_id: r.found_at_fix for r in rl.rules if r.found_at_fix is not None}
    info["final_tokens_unchanged_by_check"] = [(ci.of(o), o.get_value()) for o in oFile.lAllObjects] == (info.get("after_fix") or init)
    return out, info, (oFile, rl)


# ------------------------------------------------------------------ Lean run


def enc_fo(fo):
    if fo is None:
        return "FO\tNONE"
    if "fix" not in fo:
        return "FO\tNOFIX"
    if "rule" not in fo["fix"]:
        return "FO\tNORULE"
    ents = []
    for k, items in fo["fix"]["rule"].items():
        its = []
        for it in items:
            if it == "all":
                its.append("A")
            elif isinstance(it, int) and not isinstance(it, bool) and it >= 0:
                its.append("L%d" % it)
            else:
                its.append("O")
        ents.append("%s=%s" % (eS(k), ",".join(its)))
    return "FO\tMAP\t" + ";".join(ents) if ents else "FO\tMAP"


def lean_requests(scn, W, init):
    ncls = W["ncls"]
    by = W["ci"].by_name
    sev_type = {"Error": 1, "Warning": 0, "Todo": 1, "Future": 0, "Ghost": 1}
    reqs = []
    reqs.append("FILE\t%s\t%d" % (" ".join("%d:%d:%s" % (i, c if c >= 0 else ncls, eS(v)) for i, (c, v) in enumerate(init)), by["vsg.parser.blank_line"]))
    names = ["Error", "Warning"] + (list(USER_SEVS) if scn["user_sevs"] else [])
    reqs.append("SEVS\t" + "\t".join(eS(n) for n in names))
    reqs.append("RULES")
    for s in scn["rules"]:
        arg = eS(s["arg"]) if s["kind"] == "S" else (str(by["vsg.parser.whitespace"]) if s["kind"] == "I" else "")
        reqs.append("RULE\t" + "\t".join([eS(s["id"]), s["kind"], str(by[s["cls"]]), arg, str(s["phase"]), str(s["sub"]), "%d" % s["disable"], "%d" % s["fixable"], eS(s["sev"]), str(sev_type[s["sev"]]), "%d" % s["prereq"], eS(s["msg"])]))
    nout = 0
    if scn["fix"] is not None:
        fx = scn["fix"]
        reqs.append(enc_fo(fx["fo"]))
        reqs.append("FIX\t%d\t%s" % (max(0, int(fx["phase"])), " ".join(str(p) for p in canon_skip(scn["skip"], max(9, int(fx["phase"]))))))
        nout += 1
    for ck in scn["checks"]:
        reqs.append("CHECK\t%d\t%d\t%s" % (ck["ap"], ck["clear"], " ".join(str(p) for p in canon_skip(ck.get("skip", scn["skip"])))))
        nout += 1
    reqs.append("REPORT")
    nout += 1
    return reqs, nout


def lean_run(drv, scn, W, init):
    reqs, nout = lean_requests(scn, W, init)
    for r in reqs:
        drv.send(r)
    drv.flush()
    out = []
    ends = 0
    while ends < nout:
        l = drv.read()
        if l == "" and drv.p.poll() is not None:
            out.append("<driver died>")
            break
        out.append(l)
        if l == "END":
            ends += 1
    return out
